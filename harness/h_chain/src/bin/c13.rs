//! C13 — a 2PC coordinator restarted from its write-ahead log never reverses a logged outcome.
//!
//! What runs: the real `DistributedTxCoordinator` with a real `TxWal` on a scratch file. A seeded
//! workload (begin / votes incl. duplicate, late and unknown-tx votes, through `handle_prepare` so
//! that coordinator-side locks exist / commit / abort / timeout sweeps / abort broadcasts) is
//! followed by a crash (= the log file cut at a byte), a restart, a seeded sequence of recovery
//! calls and hostile calls, more transactions, and again a crash — up to three crashes per case.
//! For every crash, *every byte length* of what the crashed epoch wrote is additionally checked as
//! a separate crash image on a copy of the file (open, recover, hostile calls).
//!
//! Oracle: the harness decodes the durable prefix itself (`[len u32][crc32 u32][bitcode TxWalEntry]`,
//! own CRC, public entry type), never through `TxRecoveryState`, and knows for every logged vote
//! whether the live coordinator had accepted it (return value of `record_vote`). From that it
//! derives the obligations of the statement and nothing more:
//!   * logged Committed  => after restart never aborted / timed out / queued for an abort broadcast,
//!                          and not back among the pending transactions (where the sweeper would
//!                          time it out); logged Aborted => never committed; symmetric.
//!   * last logged phase Prepared / Committing (all votes collected, no outcome) => present again,
//!     in that phase, with exactly the accepted votes (shard, yes/no, lock handle), and some
//!     completion call succeeds (`commit`, or `complete_*` for the phase `recover()` chose).
//!   * still collecting votes => not present again; no locks held after recovery / after completion.
//!   * a completed transaction whose yes votes carried lock handles and whose release is not in
//!     the prefix gets those handles released by recovery (real `TxRecoveryState` over the decoded
//!     prefix, and the release count `recover_from_wal` reports); either outcome.
//!   * any completion that is in the log — before the crash or logged by commit()/abort() since —
//!     stays final across later recovery calls on the same coordinator.
//!   * the log only grows while the coordinator runs: if a call (e.g. a recovery call on the running
//!     coordinator) rewrites the file, the records it dropped were acknowledged and stay part of
//!     what the durable prefix obliges.
//!   * recovery itself succeeds, at any byte, also after appending to a log that had a torn tail.
//!   * "collected all votes" is judged by the votes, not by what the log claims: a transaction is
//!     past vote collection only if the coordinator had accepted a vote of *every participant*
//!     (votes of shards outside the participant list are sent too and do not stand in for one). One
//!     whose log says Prepared while a participant's vote is outstanding was still collecting votes
//!     and must be forgotten (`collecting-tx-reappeared:as-<phase>-without-a-vote-of-every-participant`).
//!   * a completion counts from the moment the coordinator announced it: `commit()`/`abort()`
//!     returned Ok, or `cleanup_timeouts()` returned the transaction (its ABORT broadcast is queued).
//!     The harness notes the length of the log at that moment; for every crash at that byte or later
//!     (images and chain restarts) the transaction is a completed one, whether or not the code wrote
//!     a completion record — in particular when the in-memory phase the decision started from was
//!     never logged (`recover()` turns Prepared into Aborting/Committing in memory only). Signatures
//!     of an announced outcome that is missing in the log end in `:announced-by-<call>-but-not-in-the-log`.
//!     `complete_commit`/`complete_abort` (finish a decision `recover()` took; the code logs neither)
//!     create no obligation, as before.
//!   * restored transactions get a fresh 5 s deadline that cannot be configured; in a few chain
//!     restarts the harness waits it out, so that the sweeper really times restored transactions out
//!     (with and without a preceding `recover()`), and the next crash must keep them aborted.
//!   * messages that arrive again after the restart (*re-delivery* step of every restart script, and
//!     late votes of the live workload): a vote for a transaction that is completed or forgotten —
//!     it must not change the outcome: no abort broadcast for a committed transaction (queue, and
//!     the TxAbort messages `process_pending_aborts` sends), and nothing the restarted coordinator
//!     appends to its log completes a completed transaction the other way
//!     (`log-contradicts-completed-outcome:*`, judged on the bytes of the log: records appended
//!     during the restart script, and all records of a live epoch); a PREPARE for a restored
//!     transaction, answered by the coordinator's own `handle_prepare` (fresh key locks under a
//!     handle no restored vote carries) and refused as a vote — whichever call then completes the
//!     transaction (`commit`, `abort`, `complete_*`, the sweeper) leaves no lock of it behind
//!     (`locks-left-after-completion*`; also for completions on the live coordinator of a later epoch).
//!   * a decision the restarted coordinator handed out for broadcast (`get_pending_decisions()`:
//!     COMMIT for a transaction restored / decided as Committing, ABORT for Aborting) is an announced
//!     outcome: the transaction is not afterwards timed out, aborted (resp. committed) or queued for
//!     the opposite broadcast, in any order of sweeps and completion calls
//!     (`handed-out-decision-reversed:*`). The coordinators run with every configurable timeout at
//!     0 ms (prepare and commit; a quarter of the cases keeps the default commit timeout), so that a
//!     sweep finds due whatever the configuration can make due; sweeps run before and after the
//!     completion calls.
//!   * locks are observed on the lock table itself (`lock_holder(key)` over the keys of the workload,
//!     beside the lock manager's per-transaction index): a key whose holder is a completed transaction
//!     is a lock left behind, whatever the index says. Re-delivery sends up to three PREPAREs with
//!     different keys / shards per restored transaction (a transaction has one lock set per answered
//!     PREPARE; none of these votes is recorded).
//!
//! Part "deadline" (own threads beside the main part; its cases mostly sleep): a log with 1-4
//! transactions in every state (COMMIT decided by `recover()`, prepared, a no vote, collecting,
//! completed, and optionally a `commit()` cut behind its decision record) is restarted; the restarted
//! coordinator takes recovery calls, hands decisions out, gets PREPAREs again for restored
//! transactions and runs 0-2 further transactions whose shards each answer PREPARE with their own
//! keys (some twice; a third of the votes is still on its way). Then the deadlines pass — the
//! configured one of the further transactions (0 / 20 ms) in the short cases, the fixed 5 s of
//! restored transactions in the long ones — and a seeded sequence of recover() / sweeps / abort /
//! complete_* / commit / get_pending_decisions / recover_from_wal follows. Judged: a decision that
//! was handed out stays (never the opposite decision handed out, never timed out, no opposite
//! completion accepted, no abort broadcast), the decided transaction can be driven to completion as
//! decided — on this coordinator or, if left pending, after the next restart, where it must come back
//! in its decided phase — completions of this coordinator stay final across the next restart, and
//! every completion leaves none of the lock sets of the transaction behind, recorded vote or not.
//! No verdict depends on the clock: it only decides which of these states a case meets (counted).

use common::*;
use serde_json::{json, Value};
use std::collections::{BTreeMap, HashMap};
use std::path::{Path, PathBuf};
use std::time::{Duration, Instant};
use tensor_chain::block::Transaction;
use tensor_chain::consensus::{ConsensusManager, DeltaVector};
use tensor_chain::distributed_tx::{
    DistributedTxConfig, DistributedTxCoordinator, PrepareRequest, PrepareVote, TxPhase,
};
use tensor_chain::tx_wal::{PrepareVoteKind, TxOutcome, TxWal, TxWalEntry};
use tensor_store::SparseVector;

const DIM: usize = 4;
const FLOOR_UNLOGGED_PHASE: u64 = 8;
const FLOOR_LIVE_LATE_VOTE: u64 = 100;
const FLOOR_DECIDED_AT_SWEEP: u64 = 5_000;
/// `complete_commit()`/`complete_abort()` returning Ok are taken as announced completions, like
/// `commit()`/`abort()` (the code logs the decision `recover()` takes and the completion since the
/// repair 3515d35a; before it the check fired on the unchanged tree, see `witness`).
/// `--judge-complete-calls 0` switches the clause off.
static JUDGE_COMPLETE_CALLS: std::sync::atomic::AtomicBool = std::sync::atomic::AtomicBool::new(false);
fn judge_complete_calls() -> bool {
    JUDGE_COMPLETE_CALLS.load(std::sync::atomic::Ordering::Relaxed)
}

// ------------------------------------------------------------------------------------------------
// independent decoding of the log
// ------------------------------------------------------------------------------------------------

fn crc32(data: &[u8]) -> u32 {
    let mut crc = 0xFFFF_FFFFu32;
    for &b in data {
        crc ^= b as u32;
        for _ in 0..8 {
            let m = (crc & 1).wrapping_neg();
            crc = (crc >> 1) ^ (0xEDB8_8320 & m);
        }
    }
    !crc
}

#[derive(Clone, Debug)]
struct Rec {
    start: usize,
    end: usize,
    entry: TxWalEntry,
}

/// complete, CRC-valid, decodable records of bytes[from..upto]; second value = where decoding stopped
fn decode_run(bytes: &[u8], from: usize, upto: usize) -> (Vec<Rec>, usize) {
    let upto = upto.min(bytes.len());
    let mut pos = from;
    let mut out = Vec::new();
    while pos + 8 <= upto {
        let len = u32::from_le_bytes([bytes[pos], bytes[pos + 1], bytes[pos + 2], bytes[pos + 3]]) as usize;
        let crc = u32::from_le_bytes([bytes[pos + 4], bytes[pos + 5], bytes[pos + 6], bytes[pos + 7]]);
        if len > upto - pos - 8 {
            break;
        }
        let payload = &bytes[pos + 8..pos + 8 + len];
        if crc32(payload) != crc {
            break;
        }
        match bitcode::deserialize::<TxWalEntry>(payload) {
            Ok(entry) => out.push(Rec { start: pos, end: pos + 8 + len, entry }),
            Err(_) => break,
        }
        pos += 8 + len;
    }
    (out, pos)
}

/// The records a crash at byte `b` leaves behind. `seg_starts[i]` is the file offset at which epoch
/// i started appending (epoch 0: 0). A region whose decodable part ends before the next region
/// starts has a torn tail that the code under test did not remove; `garbage` says whether such a
/// tail is followed by further bytes inside the prefix.
fn logical_log(bytes: &[u8], b: usize, seg_starts: &[usize]) -> (Vec<Rec>, bool) {
    logical_log_opt(bytes, b, seg_starts, false)
}

/// `stop_at_torn` = the view of a reader that cannot skip an unrepaired torn record: everything
/// behind the first one is invisible to it.
fn logical_log_opt(bytes: &[u8], b: usize, seg_starts: &[usize], stop_at_torn: bool) -> (Vec<Rec>, bool) {
    let mut recs = Vec::new();
    let mut garbage = false;
    for (i, &s) in seg_starts.iter().enumerate() {
        if s > b {
            break;
        }
        let next = seg_starts.get(i + 1).copied();
        let region_end = next.unwrap_or(usize::MAX).min(b);
        let (r, stop) = decode_run(bytes, s, region_end);
        recs.extend(r);
        if let Some(n) = next {
            if stop < n && n < b {
                garbage = true;
                if stop_at_torn {
                    break;
                }
            }
        }
    }
    (recs, garbage)
}

// ------------------------------------------------------------------------------------------------
// what the durable prefix obliges
// ------------------------------------------------------------------------------------------------

#[derive(Clone, Debug)]
struct TxLog {
    participants: Vec<usize>,
    accepted: BTreeMap<usize, PrepareVoteKind>,
    rejected_logged: Vec<(usize, PrepareVoteKind)>,
    phase: TxPhase,
    was_prepared: bool,
    outcome: Option<TxOutcome>,
    released: std::collections::BTreeSet<u64>,
    all_released: bool,
    /// an outcome the live coordinator announced before the crash point (commit()/abort() returned
    /// Ok, cleanup_timeouts() returned the transaction), with the call that announced it
    acked: Option<(TxOutcome, &'static str)>,
}

/// An outcome the running coordinator announced: `len` is the length of the log file when the
/// announcing call had returned, so the announcement precedes every crash at a byte >= len.
#[derive(Clone, Debug)]
struct Ack {
    tx: u64,
    outcome: TxOutcome,
    how: &'static str,
    len: usize,
}

#[derive(Clone, Copy, Debug, PartialEq, Eq)]
enum Class {
    Committed,
    Aborted,
    Prepared,
    Committing,
    AbortingAfterPrepared,
    AbortingEarly,
    Collecting,
}

impl TxLog {
    /// lock handles of a completed transaction (its accepted yes votes) whose release is not in
    /// the durable prefix: recovery has to release them
    fn unreleased_handles(&self) -> Vec<u64> {
        if self.outcome.is_none() || self.all_released {
            return Vec::new();
        }
        self.accepted
            .values()
            .filter_map(|v| match v {
                PrepareVoteKind::Yes { lock_handle } if !self.released.contains(lock_handle) => Some(*lock_handle),
                _ => None,
            })
            .collect()
    }
    /// the outcome this transaction was completed with before the crash: the one in the durable
    /// prefix, else the one the live coordinator announced before the crash point
    fn done(&self) -> Option<TxOutcome> {
        self.outcome.or(self.acked.map(|a| a.0))
    }
    /// the announcing call, if the announced outcome is *not* in the durable prefix
    fn ack_only(&self) -> Option<&'static str> {
        if self.outcome.is_none() {
            self.acked.map(|a| a.1)
        } else {
            None
        }
    }
    /// signature suffix / wording that keeps "announced but not in the log" apart from "logged"
    fn sfx(&self) -> String {
        match self.ack_only() {
            Some(how) => format!(":announced-by-{}-but-not-in-the-log", how),
            None => String::new(),
        }
    }
    fn was(&self) -> String {
        match (self.ack_only(), self.done()) {
            (Some(how), Some(o)) => format!("was completed as {:?} ({} announced it before the crash point; the durable log holds no completion record for it)", o, how),
            (None, Some(o)) => format!("was logged {:?}", o),
            _ => "has no outcome".to_string(),
        }
    }
    /// every participant has cast a vote that the coordinator accepted
    fn all_participants_voted(&self) -> bool {
        self.participants.iter().all(|p| self.accepted.contains_key(p))
    }
    /// the log says the vote collection is over although a participant's vote is outstanding
    fn premature(&self) -> bool {
        self.done().is_none()
            && !self.all_participants_voted()
            && (matches!(self.phase, TxPhase::Prepared | TxPhase::Committing) || (self.phase == TxPhase::Aborting && self.was_prepared))
    }
    fn class(&self) -> Class {
        match self.done() {
            Some(TxOutcome::Committed) => Class::Committed,
            Some(_) => Class::Aborted,
            None if self.premature() => Class::Collecting,
            None => match self.phase {
                TxPhase::Prepared => Class::Prepared,
                TxPhase::Committing => Class::Committing,
                TxPhase::Aborting => {
                    if self.was_prepared {
                        Class::AbortingAfterPrepared
                    } else {
                        Class::AbortingEarly
                    }
                }
                _ => Class::Collecting,
            },
        }
    }
}

type Model = BTreeMap<u64, TxLog>;

/// `None` = the harness lost track (a logged vote without a recorded verdict) => inconclusive
/// offsets at or above this value are not file offsets: they identify records that the coordinator
/// had acknowledged (appended and fsynced) and that the code under test later removed from the file
const REMOVED_BASE: usize = usize::MAX / 2;

/// `removed`: acknowledged records that are no longer in the file because the code rewrote its
/// log while running; they stay part of what the coordinator has promised.
fn build_model(removed: &[Rec], recs: &[Rec], vote_accept: &HashMap<usize, bool>, acks: &[Ack], b: usize) -> Option<Model> {
    let mut m: Model = BTreeMap::new();
    for r in removed.iter().chain(recs.iter()) {
        match &r.entry {
            TxWalEntry::TxBegin { tx_id, participants } => {
                m.insert(
                    *tx_id,
                    TxLog {
                        participants: participants.clone(),
                        accepted: BTreeMap::new(),
                        rejected_logged: Vec::new(),
                        phase: TxPhase::Preparing,
                        was_prepared: false,
                        outcome: None,
                        released: Default::default(),
                        all_released: false,
                        acked: None,
                    },
                );
            }
            TxWalEntry::PrepareVote { tx_id, shard, vote } => {
                let acc = *vote_accept.get(&r.start)?;
                if let Some(t) = m.get_mut(tx_id) {
                    if acc {
                        t.accepted.insert(*shard, *vote);
                    } else {
                        t.rejected_logged.push((*shard, *vote));
                    }
                }
            }
            TxWalEntry::PhaseChange { tx_id, to, .. } => {
                if let Some(t) = m.get_mut(tx_id) {
                    if t.outcome.is_none() {
                        t.phase = *to;
                        if *to == TxPhase::Prepared {
                            t.was_prepared = true;
                        }
                    }
                }
            }
            TxWalEntry::TxComplete { tx_id, outcome } => {
                if let Some(t) = m.get_mut(tx_id) {
                    if t.outcome.is_none() {
                        t.outcome = Some(*outcome);
                    }
                }
            }
            TxWalEntry::LockRelease { tx_id, lock_handle } => {
                if let Some(t) = m.get_mut(tx_id) {
                    t.released.insert(*lock_handle);
                }
            }
            TxWalEntry::AllLocksReleased { tx_id } => {
                if let Some(t) = m.get_mut(tx_id) {
                    t.all_released = true;
                }
            }
            _ => {}
        }
    }
    // outcomes announced before the crash point (first announcement wins, like the first record)
    for a in acks.iter().filter(|a| a.len <= b) {
        if let Some(t) = m.get_mut(&a.tx) {
            if t.acked.is_none() {
                t.acked = Some((a.outcome, a.how));
            }
        }
    }
    Some(m)
}

// ------------------------------------------------------------------------------------------------
// naming (tx ids are random per run; everything printed or hashed uses the per-case index)
// ------------------------------------------------------------------------------------------------

#[derive(Default)]
struct Names {
    idx: HashMap<u64, usize>,
}
impl Names {
    fn add(&mut self, id: u64) -> usize {
        let n = self.idx.len();
        *self.idx.entry(id).or_insert(n)
    }
    fn n(&self, id: u64) -> String {
        match self.idx.get(&id) {
            Some(i) => format!("t{}", i),
            None => "t?".to_string(),
        }
    }
}

fn vk(v: &PrepareVoteKind) -> &'static str {
    match v {
        PrepareVoteKind::Yes { .. } => "Y",
        _ => "N",
    }
}

fn describe_all(removed: &[Rec], recs: &[Rec], names: &Names, vote_accept: &HashMap<usize, bool>) -> String {
    if removed.is_empty() {
        describe(recs, names, vote_accept)
    } else {
        format!("[acknowledged, later removed from the file by the code: {}] {}", describe(removed, names, vote_accept), describe(recs, names, vote_accept))
    }
}

fn describe(recs: &[Rec], names: &Names, vote_accept: &HashMap<usize, bool>) -> String {
    let mut s = String::new();
    for r in recs {
        let part = match &r.entry {
            TxWalEntry::TxBegin { tx_id, participants } => format!("Begin({},{:?})", names.n(*tx_id), participants),
            TxWalEntry::PrepareVote { tx_id, shard, vote } => format!(
                "Vote({},s{},{},{})",
                names.n(*tx_id),
                shard,
                vk(vote),
                match vote_accept.get(&r.start) {
                    Some(true) => "accepted",
                    Some(false) => "rejected",
                    None => "?",
                }
            ),
            TxWalEntry::PhaseChange { tx_id, to, .. } => format!("Phase({},{:?})", names.n(*tx_id), to),
            TxWalEntry::TxComplete { tx_id, outcome } => format!("Complete({},{:?})", names.n(*tx_id), outcome),
            TxWalEntry::LockRelease { tx_id, .. } => format!("LockRelease({})", names.n(*tx_id)),
            TxWalEntry::AllLocksReleased { tx_id } => format!("AllReleased({})", names.n(*tx_id)),
            TxWalEntry::AbortIntent { tx_id, .. } => format!("AbortIntent({})", names.n(*tx_id)),
            _ => "Other".to_string(),
        };
        if !s.is_empty() {
            s.push(' ');
        }
        s.push_str(&part);
    }
    s
}

// ------------------------------------------------------------------------------------------------
// a tiny executor for `process_pending_aborts` (the capture transport never suspends)
// ------------------------------------------------------------------------------------------------

fn block_on<F: std::future::Future>(f: F) -> Option<F::Output> {
    let mut f = std::pin::pin!(f);
    let waker = std::task::Waker::noop();
    let mut cx = std::task::Context::from_waker(waker);
    for _ in 0..1000 {
        if let std::task::Poll::Ready(v) = f.as_mut().poll(&mut cx) {
            return Some(v);
        }
    }
    None
}

// ------------------------------------------------------------------------------------------------
// the coordinator under test
// ------------------------------------------------------------------------------------------------

fn new_coordinator(wal: TxWal) -> DistributedTxCoordinator {
    new_coordinator_cfg(wal, DistributedTxConfig::default().commit_timeout_ms)
}

/// every timeout the configuration offers is a dimension of the workload: prepare always 0 ms,
/// commit 0 ms or the default (what a transaction restored from the log gets is not configurable)
fn new_coordinator_cfg(wal: TxWal, commit_timeout_ms: u64) -> DistributedTxCoordinator {
    let cfg = DistributedTxConfig { prepare_timeout_ms: 0, commit_timeout_ms, ..DistributedTxConfig::default() };
    DistributedTxCoordinator::new(ConsensusManager::default_config(), cfg).with_wal(wal)
}

fn commit_timeout_of_case(case_seed: u64) -> u64 {
    if hash_combine(case_seed, 0xC7_0) % 4 == 0 {
        DistributedTxConfig::default().commit_timeout_ms
    } else {
        0
    }
}

/// what a restart script needs besides the coordinator: the log file it appends to, a seed for the
/// decisions that were added later (own stream, so that a case seed keeps its older meaning), and
/// the verdicts of the votes it logs (offset of the record, accepted?)
struct ScriptIo<'a> {
    wal_path: &'a Path,
    xseed: u64,
    votes_logged: Vec<(usize, bool)>,
}

/// TxComplete records among `appended` that contradict the outcome a transaction was completed
/// with before (`prior`: what held before these records) or by an earlier one of these records.
fn completion_conflicts(prior: &dyn Fn(u64) -> Option<(TxOutcome, String, String)>, appended: &[Rec], names: &Names, rep: &mut Report) -> Vec<Found> {
    let mut first: HashMap<u64, (TxOutcome, String, String)> = HashMap::new();
    let mut out = Vec::new();
    for r in appended {
        if let TxWalEntry::TxComplete { tx_id, outcome } = &r.entry {
            rep.count("checked:completion-records-appended", 1);
            let before = first.get(tx_id).cloned().or_else(|| prior(*tx_id));
            match before {
                Some((o, was, sfx)) => {
                    rep.count("checked:completion-record-of-completed-tx", 1);
                    if o != *outcome {
                        out.push(Found {
                            sig: format!("log-contradicts-completed-outcome:{:?}-then-{:?}{}", o, outcome, sfx),
                            detail: format!("{} {}; afterwards the coordinator appended TxComplete({:?}) for it to its log", names.n(*tx_id), was, outcome),
                        });
                    }
                }
                None => {
                    first.insert(*tx_id, (*outcome, format!("was logged {:?} (earlier record of the same incarnation)", outcome), String::new()));
                }
            }
        }
    }
    out
}

fn file_len(p: &Path) -> usize {
    std::fs::metadata(p).map(|m| m.len() as usize).unwrap_or(0)
}

fn votes_of(coord: &DistributedTxCoordinator, tx: u64) -> Option<(TxPhase, BTreeMap<usize, PrepareVoteKind>)> {
    let t = coord.get(tx)?;
    let mut m = BTreeMap::new();
    for (s, v) in &t.votes {
        let k = match v {
            PrepareVote::Yes { lock_handle, .. } => PrepareVoteKind::Yes { lock_handle: *lock_handle },
            _ => PrepareVoteKind::No,
        };
        m.insert(*s, k);
    }
    Some((t.phase, m))
}

/// Key locks a transaction holds, observed on the lock table itself: what the reverse index of the
/// lock manager lists for it, plus every key of the workload's key universe whose holder it is (a
/// lock that the index has lost is still a lock: the key stays blocked for everybody else).
fn keys_held_by(coord: &DistributedTxCoordinator, tx: u64) -> Vec<String> {
    let lm = coord.lock_manager();
    let mut held = lm.keys_for_transaction(tx);
    let mut universe = vec!["g0".to_string()];
    for s in 0..6 {
        for k in 0..3 {
            universe.push(format!("s{}:k{}", s, k));
        }
    }
    for key in universe {
        if lm.lock_holder(&key) == Some(tx) && !held.contains(&key) {
            held.push(key);
        }
    }
    held
}

struct Found {
    sig: String,
    detail: String,
}

/// Everything done with a freshly restarted coordinator: recovery calls, the obligations of the
/// durable prefix, hostile calls against logged outcomes, driving unfinished transactions.
/// Returns false when recovery itself failed (the caller cannot continue with this coordinator).
fn recovery_script(
    coord: &DistributedTxCoordinator,
    model: &Model,
    names: &Names,
    recs: &[Rec],
    removed_tx: &std::collections::BTreeSet<u64>,
    rng: &mut Rng,
    out: &mut Vec<Found>,
    rep: &mut Report,
    late_wait_ms: u64,
    acks_out: &mut Vec<(u64, TxOutcome, &'static str)>,
    io: &mut ScriptIo,
) -> bool {
    // decisions of the steps that were added later
    let mut xr = Rng::new(hash_combine(io.xseed, 0x5EDE_11));
    let mut xr2 = Rng::new(hash_combine(io.xseed, 0x2E9E_A7));
    // where this incarnation starts appending (a torn tail is gone by now)
    let len0 = file_len(io.wal_path);
    let stats = match coord.recover_from_wal() {
        Ok(s) => s,
        Err(e) => {
            out.push(Found { sig: "recovery-error".into(), detail: format!("recover_from_wal failed: {}", e) });
            return false;
        }
    };
    rep.count("recoveries", 1);

    // ---- "locks of completed transactions are released": a completed transaction whose yes
    // votes carried lock handles, and whose release is not in the durable prefix (the crash came
    // between logging the completion and dropping the locks), must have those handles released by
    // recovery. Observed where the property names it: the real classification of the durable
    // prefix (`TxRecoveryState`, fed with the records the harness decoded) and the number of
    // releases `recover_from_wal` reports.
    if removed_tx.is_empty() {
        let entries: Vec<TxWalEntry> = recs.iter().map(|r| r.entry.clone()).collect();
        let state = tensor_chain::tx_wal::TxRecoveryState::from_entries(&entries);
        let mut expected = 0usize;
        for (&tx, t) in model {
            let need = t.unreleased_handles();
            if need.is_empty() {
                continue;
            }
            expected += need.len();
            rep.count("checked:unreleased-locks-of-completed-tx", 1);
            rep.count(if t.outcome == Some(TxOutcome::Committed) { "checked:unreleased-locks-after-commit" } else { "checked:unreleased-locks-after-abort" }, 1);
            let missing: Vec<u64> = need.iter().copied().filter(|h| !state.orphaned_locks.iter().any(|o| o.tx_id == tx && o.lock_handle == *h)).collect();
            if !missing.is_empty() {
                out.push(Found {
                    sig: format!("locks-of-completed-tx-not-released-by-recovery:{:?}", t.outcome.unwrap()),
                    detail: format!(
                        "{} was logged {:?} holding lock handles {:?} (yes votes) with no release in the log; the recovery state does not list {:?} for release (it lists {:?})",
                        names.n(tx), t.outcome.unwrap(), need, missing, state.orphaned_locks.iter().map(|o| (names.n(o.tx_id), o.lock_handle)).collect::<Vec<_>>()
                    ),
                });
            }
        }
        if stats.lock_releases_recovered < expected {
            out.push(Found {
                sig: "locks-of-completed-tx-not-released-by-recovery:count".into(),
                detail: format!("recover_from_wal released {} lock handles of completed transactions, the durable prefix requires {}", stats.lock_releases_recovered, expected),
            });
        }
    }

    // ---- state right after recovery
    let present_after_replay: Vec<u64> = model.keys().copied().filter(|tx| coord.get(*tx).is_some()).collect();
    for (&tx, t) in model {
        let n = names.n(tx);
        let got = votes_of(coord, tx);
        match t.class() {
            Class::Committed | Class::Aborted => {
                rep.count("checked:completed", 1);
                if let Some((_, how)) = t.acked {
                    // the live coordinator announced this outcome before the crash point
                    rep.count("checked:announced-outcome-after-crash", 1);
                    rep.count(&format!("checked:announced-outcome-after-crash:{}", how), 1);
                    if t.was_prepared {
                        rep.count("checked:announced-outcome-of-tx-logged-Prepared", 1);
                    }
                }
                if let Some((ph, _)) = got {
                    out.push(Found {
                        sig: format!("completed-tx-pending-again:{:?}-as-{:?}{}", t.done().unwrap(), ph, t.sfx()),
                        detail: format!(
                            "{} {} but is among the pending transactions in phase {:?} after restart ({})",
                            n, t.was(), ph,
                            if t.done() == Some(TxOutcome::Committed) { "the timeout sweeper will abort it" } else { "recover() / commit() can commit it" }
                        ),
                    });
                }
                if coord.lock_manager().lock_count_for_transaction(tx) != 0 {
                    out.push(Found { sig: "locks-of-completed-tx-held".into(), detail: format!("{} completed but holds locks after restart", n) });
                }
            }
            c @ (Class::Prepared | Class::Committing | Class::AbortingAfterPrepared) => {
                rep.count("checked:all-votes-no-outcome", 1);
                let want_phase = match c {
                    Class::Prepared => TxPhase::Prepared,
                    Class::Committing => TxPhase::Committing,
                    _ => TxPhase::Aborting,
                };
                match got {
                    None => out.push(Found {
                        sig: format!("voted-tx-not-restored:{:?}{}", want_phase, if removed_tx.contains(&tx) { ":its-earlier-log-records-were-removed-by-the-code" } else { "" }),
                        detail: format!("{} had collected all votes (last logged phase {:?}, no outcome) but is absent after restart", n, want_phase),
                    }),
                    Some((ph, votes)) => {
                        if ph != want_phase {
                            out.push(Found {
                                sig: format!("voted-tx-restored-in-wrong-phase:{:?}-as-{:?}", want_phase, ph),
                                detail: format!("{} last logged phase {:?}, restored as {:?}", n, want_phase, ph),
                            });
                        }
                        if votes != t.accepted {
                            let from_rejected = votes.iter().any(|(s, k)| t.accepted.get(s) != Some(k) && t.rejected_logged.iter().any(|(rs, rk)| rs == s && rk == k));
                            let kind = if votes.len() != t.accepted.len() || votes.keys().ne(t.accepted.keys()) {
                                "shard-set"
                            } else if votes.iter().any(|(s, k)| vk(k) != vk(&t.accepted[s])) {
                                "yes-no"
                            } else {
                                "lock-handle"
                            };
                            out.push(Found {
                                sig: format!("restored-votes-differ-from-accepted:{}", if from_rejected { "rejected-vote-replayed" } else { kind }),
                                detail: format!(
                                    "{} (phase {:?}): coordinator had accepted {:?} but came back with {:?}; votes the coordinator had rejected but logged: {:?}",
                                    n, want_phase, t.accepted, votes, t.rejected_logged
                                ),
                            });
                        } else {
                            rep.count("votes_restored_equal", 1);
                        }
                    }
                }
            }
            Class::Collecting => {
                rep.count("checked:collecting", 1);
                // votes of shards outside the participant list do not stand in for a participant's
                if t.accepted.keys().any(|s| !t.participants.contains(s)) {
                    rep.count("checked:collecting-with-accepted-non-participant-vote", 1);
                    if t.accepted.len() >= t.participants.len() {
                        rep.count("checked:collecting-with-as-many-votes-as-participants", 1);
                        if t.accepted.values().all(|v| matches!(v, PrepareVoteKind::Yes { .. })) {
                            rep.count("checked:collecting-with-as-many-yes-votes-as-participants", 1);
                        }
                    }
                }
                if let Some((ph, votes)) = got {
                    if t.premature() {
                        let missing: Vec<usize> = t.participants.iter().copied().filter(|p| !t.accepted.contains_key(p)).collect();
                        out.push(Found {
                            sig: format!("collecting-tx-reappeared:as-{:?}-without-a-vote-of-every-participant", ph),
                            detail: format!(
                                "{} (participants {:?}) was still collecting votes at the crash: the coordinator had accepted votes of shards {:?}, participant(s) {:?} had not voted; after restart it is pending in phase {:?} with votes of {:?} (the log says its vote collection is over)",
                                n, t.participants, t.accepted.keys().collect::<Vec<_>>(), missing, ph, votes.keys().collect::<Vec<_>>()
                            ),
                        });
                    } else {
                        out.push(Found {
                            sig: "collecting-tx-reappeared".into(),
                            detail: format!("{} was still collecting votes at the crash but is pending again in phase {:?}", n, ph),
                        });
                    }
                }
            }
            Class::AbortingEarly => {}
        }
    }
    let lc = coord.lock_manager().active_lock_count();
    if lc != 0 {
        out.push(Found { sig: "locks-held-after-recovery".into(), detail: format!("{} key locks held right after recovery", lc) });
    }

    // ---- further recovery calls
    let extra = rng.below(5);
    if extra == 1 || extra == 3 {
        if let Err(e) = coord.recover_from_wal() {
            out.push(Found { sig: "recovery-error".into(), detail: format!("second recover_from_wal failed: {}", e) });
            return false;
        }
        rep.count("recoveries", 1);
    }
    let ran_recover = extra >= 2;
    if ran_recover {
        let _ = coord.recover();
        rep.count("recover_calls", 1);
        if extra == 4 {
            let _ = coord.recover();
        }
    }
    let decisions: HashMap<u64, TxPhase> = coord.get_pending_decisions().into_iter().collect();
    for (&tx, t) in model {
        if matches!(t.class(), Class::Collecting) && decisions.contains_key(&tx) && !t.premature() {
            out.push(Found { sig: "collecting-tx-reappeared".into(), detail: format!("{} listed by get_pending_decisions", names.n(tx)) });
        }
        // the decision handed out for broadcast is the opposite of the completed outcome
        match (t.done(), decisions.get(&tx)) {
            (Some(TxOutcome::Committed), Some(TxPhase::Aborting)) => out.push(Found {
                sig: format!("logged-commit-reversed:abort-handed-out{}", t.sfx()),
                detail: format!("{} {}; get_pending_decisions() after restart hands out ABORT for it", names.n(tx), t.was()),
            }),
            (Some(TxOutcome::Aborted), Some(TxPhase::Committing)) => out.push(Found {
                sig: format!("logged-abort-reversed:commit-handed-out{}", t.sfx()),
                detail: format!("{} {}; get_pending_decisions() after restart hands out COMMIT for it", names.n(tx), t.was()),
            }),
            _ => {}
        }
    }

    // ---- messages that arrive again after the restart. A participant that has not heard the
    // outcome sends its vote again (the transaction is completed or forgotten here: the vote must
    // change nothing); a PREPARE for a restored transaction is answered by the coordinator's own
    // prepare path (fresh key locks under a handle no restored vote carries) and the vote refused.
    {
        let mut order: Vec<u64> = model.keys().copied().collect();
        xr.shuffle(&mut order);
        for tx in order {
            if !xr.chance(3, 5) {
                continue;
            }
            let t = &model[&tx];
            let shard = if t.participants.is_empty() || xr.chance(1, 8) { 3 + xr.below(3) } else { *xr.pick(&t.participants) };
            let pending = coord.get(tx).is_some();
            let vote = if pending {
                let key = if xr.chance(1, 6) { "g0".to_string() } else { format!("s{}:k{}", shard, xr.below(3)) };
                let req = PrepareRequest {
                    tx_id: tx,
                    coordinator: "coord".to_string(),
                    operations: vec![Transaction::Put { key, data: vec![4, 5, 6] }],
                    delta_embedding: SparseVector::from_dense(&vec![0.0f32; DIM]),
                    timeout_ms: 5000,
                };
                rep.count("redelivery:prepare-for-restored-tx", 1);
                coord.handle_prepare(&req)
            } else if xr.chance(3, 4) {
                PrepareVote::Yes { lock_handle: 3_000_000 + xr.below(1_000_000) as u64, delta: DeltaVector::zero(DIM) }
            } else {
                PrepareVote::No { reason: "late no".to_string() }
            };
            let yes = matches!(vote, PrepareVote::Yes { .. });
            let at = file_len(io.wal_path);
            let res = coord.record_vote(tx, shard, vote);
            if file_len(io.wal_path) > at {
                io.votes_logged.push((at, res.is_ok()));
            }
            if pending {
                if coord.lock_manager().lock_count_for_transaction(tx) > 0 {
                    rep.count("redelivery:restored-tx-holds-fresh-locks", 1);
                }
                // a transaction has one lock set per PREPARE that was answered: every participant
                // shard sends its own keys, and a shard that repeats its PREPARE may name other keys.
                // None of these votes is recorded (the collection is over), so whichever call completes
                // the transaction has to find all of these lock sets by itself.
                let more = xr2.below(3);
                for _ in 0..more {
                    let shard2 = if t.participants.is_empty() || xr2.chance(1, 8) { 3 + xr2.below(3) } else { *xr2.pick(&t.participants) };
                    let key = format!("s{}:k{}", shard2, xr2.below(3));
                    let req = PrepareRequest {
                        tx_id: tx,
                        coordinator: "coord".to_string(),
                        operations: vec![Transaction::Put { key, data: vec![4, 5, 6] }],
                        delta_embedding: SparseVector::from_dense(&vec![0.0f32; DIM]),
                        timeout_ms: 5000,
                    };
                    let vote = coord.handle_prepare(&req);
                    let at = file_len(io.wal_path);
                    let res = coord.record_vote(tx, shard2, vote);
                    if file_len(io.wal_path) > at {
                        io.votes_logged.push((at, res.is_ok()));
                    }
                    rep.count("redelivery:further-prepare-for-restored-tx", 1);
                }
                if keys_held_by(coord, tx).len() >= 2 {
                    rep.count("redelivery:restored-tx-holds-several-fresh-lock-sets", 1);
                }
            } else {
                rep.count("redelivery:vote-for-tx-that-is-not-pending", 1);
                match t.done() {
                    Some(TxOutcome::Committed) if yes => rep.count("redelivery:yes-vote-for-committed-tx", 1),
                    Some(TxOutcome::Aborted) => rep.count("redelivery:vote-for-aborted-tx", 1),
                    Some(_) => {}
                    None => rep.count("redelivery:vote-for-forgotten-tx", 1),
                }
            }
        }
    }

    // ---- the sweeper and the abort broadcast queue must leave completed outcomes alone
    let judge_sweep = |swept: &[u64], queued: &[(u64, String, Vec<usize>)], out: &mut Vec<Found>, done_now: &mut Vec<(u64, TxOutcome, &'static str)>, rep: &mut Report| {
        for (&tx, t) in model {
            match t.class() {
                Class::Committed | Class::Aborted => {
                    if swept.contains(&tx) {
                        out.push(Found {
                            sig: format!("logged-outcome-reversed:timed-out-after-{:?}{}", t.done().unwrap(), t.sfx()),
                            detail: format!("{} {}; cleanup_timeouts() after restart returned it", names.n(tx), t.was()),
                        });
                    }
                    if t.class() == Class::Committed && queued.iter().any(|(id, _, _)| *id == tx) {
                        out.push(Found { sig: format!("logged-commit-reversed:abort-broadcast-queued{}", t.sfx()), detail: format!("{} {}; an abort broadcast is queued after restart", names.n(tx), t.was()) });
                    }
                }
                _ => {
                    // COMMIT was handed out for it by this coordinator: the deadline is over for it
                    if decisions.get(&tx) == Some(&TxPhase::Committing) {
                        if swept.contains(&tx) {
                            out.push(Found {
                                sig: "handed-out-decision-reversed:COMMIT-then-timed-out".into(),
                                detail: format!("{} came back in phase Committing (or recover() decided so) and get_pending_decisions() of the restarted coordinator handed COMMIT out for it; a later cleanup_timeouts() returned it as timed out (ABORT is logged and queued for broadcast)", names.n(tx)),
                            });
                        }
                        if queued.iter().any(|(id, _, _)| *id == tx) {
                            out.push(Found {
                                sig: "handed-out-decision-reversed:COMMIT-then-abort-broadcast-queued".into(),
                                detail: format!("{}: get_pending_decisions() of the restarted coordinator handed COMMIT out for it; afterwards an abort broadcast is queued for it", names.n(tx)),
                            });
                        }
                    }
                    if swept.contains(&tx) {
                        rep.count("restored_tx_returned_by_sweeper", 1);
                        if let Some((_, o, how)) = done_now.iter().find(|(d, _, _)| *d == tx) {
                            if *o == TxOutcome::Committed {
                                out.push(Found {
                                    sig: "logged-outcome-reversed:timed-out-after-Committed:completed-since-the-restart".into(),
                                    detail: format!("{} was completed as Committed after the restart ({} returned Ok); a later cleanup_timeouts() returned it as timed out", names.n(tx), how),
                                });
                            }
                        } else {
                            // a timeout the sweeper reports is an abort it announces (the broadcast is queued)
                            done_now.push((tx, TxOutcome::Aborted, "cleanup_timeouts()"));
                        }
                        let left = keys_held_by(coord, tx);
                        if !left.is_empty() {
                            out.push(Found {
                                sig: "locks-left-after-completion:cleanup_timeouts()".into(),
                                detail: format!("{} was timed out by cleanup_timeouts() after the restart but still holds key locks {:?}", names.n(tx), left),
                            });
                        }
                    }
                }
            }
        }
    };
    // a sweep only finds a 0 ms deadline over once 1 ms has passed since the restore: in a
    // quarter of the scripts that have pending transactions the harness makes sure of it
    let make_due = xr.chance(1, 4);
    let wait_if_pending = |coord: &DistributedTxCoordinator, rep: &mut Report| {
        if model.keys().any(|tx| coord.get(*tx).is_some()) {
            if make_due {
                std::thread::sleep(Duration::from_micros(1100));
                rep.count("sweeps_after_restart_with_0ms_deadlines_over", 1);
                // decided transactions such a sweep meets (only their completion is outstanding)
                let decided = model.keys().filter(|tx| coord.get(**tx).map(|t| decisions.get(*tx) == Some(&t.phase)).unwrap_or(false)).count();
                rep.count("decided_tx_pending_at_sweep_with_0ms_deadlines_over", decided as u64);
            }
            true
        } else {
            false
        }
    };

    // ---- hostile calls against logged outcomes, completion of unfinished transactions
    let mut done_now: Vec<(u64, TxOutcome, &'static str)> = Vec::new(); // completions announced by this coordinator
    // "every following sequence of recovery calls, timeouts ...": sometimes the sweeper runs first
    if xr.chance(1, 3) && wait_if_pending(coord, rep) {
        let swept = coord.cleanup_timeouts();
        let queued = coord.take_pending_aborts();
        rep.count("early_sweeps_after_restart", 1);
        judge_sweep(&swept, &queued, out, &mut done_now, rep);
    }
    let mut order: Vec<u64> = model.keys().copied().collect();
    rng.shuffle(&mut order);
    for tx in order {
        let t = &model[&tx];
        let n = names.n(tx);
        match t.class() {
            Class::Committed => {
                let which = rng.below(3);
                if which == 0 || which == 2 {
                    rep.count("hostile:abort-after-logged-commit", 1);
                    if coord.abort(tx, "late abort").is_ok() {
                        out.push(Found { sig: format!("logged-commit-reversed:abort-accepted{}", t.sfx()), detail: format!("{} {}; abort() after restart succeeded", n, t.was()) });
                    }
                }
                if which >= 1 {
                    rep.count("hostile:complete_abort-after-logged-commit", 1);
                    if coord.complete_abort(tx).is_ok() {
                        out.push(Found { sig: format!("logged-commit-reversed:complete_abort-accepted{}", t.sfx()), detail: format!("{} {}; complete_abort() after restart succeeded", n, t.was()) });
                    }
                }
            }
            Class::Aborted => {
                let which = rng.below(3);
                if which == 0 || which == 2 {
                    rep.count("hostile:commit-after-logged-abort", 1);
                    if coord.commit(tx).is_ok() {
                        out.push(Found { sig: format!("logged-abort-reversed:commit-accepted{}", t.sfx()), detail: format!("{} {}; commit() after restart succeeded", n, t.was()) });
                    }
                }
                if which >= 1 {
                    rep.count("hostile:complete_commit-after-logged-abort", 1);
                    if coord.complete_commit(tx).is_ok() {
                        out.push(Found { sig: format!("logged-abort-reversed:complete_commit-accepted{}", t.sfx()), detail: format!("{} {}; complete_commit() after restart succeeded", n, t.was()) });
                    }
                }
            }
            Class::Prepared | Class::Committing | Class::AbortingAfterPrepared => {
                // 0: leave it for later epochs; otherwise drive it to completion
                if rng.below(4) == 0 {
                    continue;
                }
                let Some(cur) = coord.get(tx) else {
                    if ran_recover && present_after_replay.contains(&tx) && !done_now.iter().any(|(d, _, _)| *d == tx) {
                        out.push(Found { sig: "voted-tx-lost-by-recover".into(), detail: format!("{} disappeared during recover()", n) });
                    }
                    continue; // absence right after recover_from_wal was reported above
                };
                // a decision this coordinator handed out for broadcast is final: the calls that
                // would complete the transaction the other way are refused
                if decisions.get(&tx) == Some(&cur.phase) && xr.chance(1, 2) {
                    match cur.phase {
                        TxPhase::Committing => {
                            rep.count("hostile:abort-after-COMMIT-handed-out", 1);
                            if coord.abort(tx, "late abort").is_ok() {
                                out.push(Found { sig: "handed-out-decision-reversed:COMMIT-then-abort-accepted".into(), detail: format!("{}: get_pending_decisions() of the restarted coordinator handed COMMIT out for it; abort() afterwards succeeded", n) });
                            }
                            if coord.complete_abort(tx).is_ok() {
                                out.push(Found { sig: "handed-out-decision-reversed:COMMIT-then-complete_abort-accepted".into(), detail: format!("{}: get_pending_decisions() of the restarted coordinator handed COMMIT out for it; complete_abort() afterwards succeeded", n) });
                            }
                        }
                        TxPhase::Aborting => {
                            rep.count("hostile:commit-after-ABORT-handed-out", 1);
                            if coord.commit(tx).is_ok() {
                                out.push(Found { sig: "handed-out-decision-reversed:ABORT-then-commit-accepted".into(), detail: format!("{}: get_pending_decisions() of the restarted coordinator handed ABORT out for it; commit() afterwards succeeded", n) });
                            }
                            if coord.complete_commit(tx).is_ok() {
                                out.push(Found { sig: "handed-out-decision-reversed:ABORT-then-complete_commit-accepted".into(), detail: format!("{}: get_pending_decisions() of the restarted coordinator handed ABORT out for it; complete_commit() afterwards succeeded", n) });
                            }
                        }
                        _ => {}
                    }
                }
                let res = match cur.phase {
                    TxPhase::Prepared => {
                        // a prepared transaction without outcome may legitimately be aborted too
                        if rng.below(4) == 0 {
                            if coord.abort(tx, "client abort after restart").is_ok() {
                                done_now.push((tx, TxOutcome::Aborted, "abort()"));
                                let left = keys_held_by(coord, tx);
                                if !left.is_empty() {
                                    out.push(Found { sig: "locks-left-after-completion:abort()".into(), detail: format!("{} was aborted after the restart (abort() returned Ok) but still holds key locks {:?}", n, left) });
                                }
                            }
                            continue;
                        }
                        let r = coord.commit(tx).map_err(|e| format!("commit: {}", e));
                        if r.is_ok() {
                            done_now.push((tx, TxOutcome::Committed, "commit()"));
                        }
                        r
                    }
                    TxPhase::Committing => {
                        let r = coord.complete_commit(tx).map_err(|e| format!("complete_commit: {}", e));
                        if r.is_ok() && judge_complete_calls() {
                            done_now.push((tx, TxOutcome::Committed, "complete_commit()"));
                        }
                        r
                    }
                    TxPhase::Aborting => {
                        let r = coord.complete_abort(tx).map_err(|e| format!("complete_abort: {}", e));
                        if r.is_ok() && judge_complete_calls() {
                            done_now.push((tx, TxOutcome::Aborted, "complete_abort()"));
                        }
                        r
                    }
                    other => Err(format!("unexpected phase {:?}", other)),
                };
                rep.count("driven_to_completion", 1);
                if let Err(e) = res {
                    out.push(Found {
                        sig: format!("voted-tx-not-completable:{:?}", cur.phase),
                        detail: format!("{} restored in phase {:?} could not be completed: {}", n, cur.phase, e),
                    });
                } else if !keys_held_by(coord, tx).is_empty() {
                    out.push(Found { sig: "locks-left-after-completion".into(), detail: format!("{} completed after restart but still holds key locks {:?}", n, keys_held_by(coord, tx)) });
                }
            }
            _ => {}
        }
    }

    // ---- the regular sweep
    wait_if_pending(coord, rep);
    let swept = coord.cleanup_timeouts();
    let queued = coord.take_pending_aborts();
    rep.count("sweeps_after_restart", 1);
    judge_sweep(&swept, &queued, out, &mut done_now, rep);

    // ---- restored transactions get a fresh deadline (5 s, not configurable): in a few restarts
    // the harness lets it pass, so that the sweeper really times restored transactions out —
    // sometimes after recover(), which first turns them into Aborting in memory only
    if late_wait_ms > 0 && model.keys().any(|tx| coord.get(*tx).is_some()) {
        std::thread::sleep(Duration::from_millis(late_wait_ms));
        let pending_before: Vec<u64> = model.keys().copied().filter(|tx| coord.get(*tx).is_some()).collect();
        if rng.bool() {
            let _ = coord.recover();
            rep.count("late_sweeps_after_recover()", 1);
        }
        let swept = coord.cleanup_timeouts();
        let queued = coord.take_pending_aborts();
        rep.count("late_sweeps_after_restart", 1);
        rep.count("restored_tx_timed_out_after_restart", swept.iter().filter(|t| pending_before.contains(t)).count() as u64);
        judge_sweep(&swept, &queued, out, &mut done_now, rep);
    }

    // ---- a later recovery call on the same coordinator: every completion that was announced by
    // now (before the crash, or by commit()/abort()/the sweeper since the restart) stays final
    if rng.below(3) != 0 {
        if let Err(e) = coord.recover_from_wal() {
            out.push(Found { sig: "recovery-error".into(), detail: format!("later recover_from_wal failed: {}", e) });
            return false;
        }
        if rng.bool() {
            let _ = coord.recover();
        }
        rep.count("later_recovery_calls", 1);
        // (tx, outcome, wording, signature suffix)
        let mut logged: Vec<(u64, TxOutcome, String, String)> = done_now
            .iter()
            .map(|(t, o, how)| (*t, *o, format!("was completed as {:?} after the restart ({} returned it)", o, how), if *how == "cleanup_timeouts()" { ":timed-out-since-the-restart".to_string() } else if how.starts_with("complete_") { format!(":announced-by-{}-but-not-in-the-log", how) } else { String::new() }))
            .collect();
        for (&tx, t) in model {
            if let Some(o) = t.done() {
                logged.push((tx, o, format!("{} (before the crash)", t.was()), t.sfx()));
            }
        }
        rep.count("checked:completed-across-later-recovery-call", logged.len() as u64);
        rep.count("checked:completed-after-restart-across-later-recovery-call", done_now.len() as u64);
        for (tx, o, when, sfx) in logged {
            let n = names.n(tx);
            if let Some(cur) = coord.get(tx) {
                out.push(Found {
                    sig: format!("completed-tx-pending-again:{:?}-as-{:?}:after-later-recovery-call{}", o, cur.phase, sfx),
                    detail: format!("{} {}; after a later recover_from_wal() on the same coordinator it is pending again in phase {:?}", n, when, cur.phase),
                });
            }
            let reversed = match o {
                TxOutcome::Committed => coord.abort(tx, "late abort").is_ok().then_some("logged-commit-reversed:abort-accepted"),
                _ => coord.commit(tx).is_ok().then_some("logged-abort-reversed:commit-accepted"),
            };
            if let Some(sig) = reversed {
                out.push(Found { sig: format!("{}{}", sig, sfx), detail: format!("{} {}; after a later recover_from_wal() the opposite decision was accepted", n, when) });
            }
        }
        let swept = coord.cleanup_timeouts();
        let _ = coord.take_pending_aborts();
        for (tx, o, how) in &done_now {
            if swept.contains(tx) {
                out.push(Found { sig: format!("logged-outcome-reversed:timed-out-after-{:?}", o), detail: format!("{} was completed as {:?} after the restart ({}); cleanup_timeouts() returned it after a later recovery call", names.n(*tx), o, how) });
            }
        }
    }
    // ---- what this incarnation appended to its log never completes a completed transaction the
    // other way (whatever call or message made it write the record)
    if let Ok(bytes) = std::fs::read(io.wal_path) {
        if len0 <= bytes.len() {
            let (appended, stop) = decode_run(&bytes, len0, bytes.len());
            if stop == bytes.len() {
                rep.count("checked:records-appended-by-restart-script", appended.len() as u64);
                let prior = |tx: u64| model.get(&tx).and_then(|t| t.done().map(|o| (o, t.was(), t.sfx())));
                out.extend(completion_conflicts(&prior, &appended, names, rep));
            }
        }
    }
    // ---- no transaction that is completed by now holds a key lock
    for (&tx, t) in model {
        let completed = t.done().is_some() || done_now.iter().any(|(d, _, _)| *d == tx);
        if completed && coord.get(tx).is_none() {
            rep.count("checked:no-locks-of-completed-tx-at-end-of-script", 1);
            let left = keys_held_by(coord, tx);
            if !left.is_empty() {
                out.push(Found {
                    sig: "locks-of-completed-tx-held:at-end-of-restart-script".into(),
                    detail: format!("{} is completed and unknown to the coordinator at the end of the restart script but holds key locks {:?}", names.n(tx), left),
                });
            }
        }
    }
    acks_out.extend(done_now);
    true
}

/// One restart on a copy of the log cut at `prefix.len()`, judged against `model`.
fn eval_copy(img: &Path, prefix: &[u8], model: &Model, recs: &[Rec], removed_tx: &std::collections::BTreeSet<u64>, names: &Names, seed: u64, cto: u64, rep: &mut Report) -> Option<Vec<Found>> {
    if std::fs::write(img, prefix).is_err() {
        return None;
    }
    let mut found = Vec::new();
    let mut srng = Rng::new(seed);
    match TxWal::open(img) {
        Ok(w) => {
            let c = new_coordinator_cfg(w, cto);
            let mut io = ScriptIo { wal_path: img, xseed: seed, votes_logged: Vec::new() };
            recovery_script(&c, model, names, recs, removed_tx, &mut srng, &mut found, rep, 0, &mut Vec::new(), &mut io);
        }
        Err(e) => found.push(Found { sig: "wal-open-failed".into(), detail: format!("TxWal::open failed: {}", e) }),
    }
    Some(found)
}

/// On a log with an unrepaired torn record the reader cannot see what was appended behind it. To
/// tell that defect from anything else, the same restart is judged a second time against the model
/// of the log *cut at the torn record*: signatures that arise there too are independent of it.
fn independent_sigs(img: &Path, prefix: &[u8], seg_starts: &[usize], vote_accept: &HashMap<usize, bool>, acks: &[Ack], names: &Names, seed: u64, cto: u64) -> Vec<String> {
    let (recs, _) = logical_log_opt(prefix, prefix.len(), seg_starts, true);
    let Some(model) = build_model(&[], &recs, vote_accept, acks, prefix.len()) else { return Vec::new() };
    let mut scratch = Report::new();
    eval_copy(img, prefix, &model, &recs, &Default::default(), names, seed, cto, &mut scratch).unwrap_or_default().into_iter().map(|f| f.sig).collect()
}

fn classify(garbage: bool, independent: &[String], f: Found) -> Found {
    let read_failure = f.sig == "recovery-error" || f.sig == "wal-open-failed";
    if !garbage || (!read_failure && independent.contains(&f.sig)) {
        return f;
    }
    // the prefix contains a torn record that the code did not remove before appending behind it
    let sig = if f.sig == "recovery-error" || f.sig == "wal-open-failed" {
        "torn-tail-then-append:recovery-fails".to_string()
    } else {
        "torn-tail-then-append:records-behind-torn-tail-ignored".to_string()
    };
    Found { sig, detail: format!("[log had a torn record followed by appended records] {}: {}", f.sig, f.detail) }
}

// ------------------------------------------------------------------------------------------------
// one case = one chain of epochs
// ------------------------------------------------------------------------------------------------

struct TxInfo {
    id: u64,
    participants: Vec<usize>,
}

struct Chain {
    path: PathBuf,
    img: PathBuf,
    seg_starts: Vec<usize>,
    vote_accept: HashMap<usize, bool>,
    names: Names,
    txs: Vec<TxInfo>,
    /// acknowledged records the code removed from the file while running (synthetic offsets)
    removed: Vec<Rec>,
    /// file content after the previous call, and where the running epoch started appending
    last_bytes: Vec<u8>,
    cur_seg: Option<usize>,
    rewritten_this_epoch: bool,
    /// outcomes the coordinators of this chain announced, with the file length at that moment
    acks: Vec<Ack>,
    /// commit timeout all coordinators of this case are configured with
    cto: u64,
}

impl Chain {
    fn removed_tx(&self) -> std::collections::BTreeSet<u64> {
        self.removed
            .iter()
            .filter_map(|r| match &r.entry {
                TxWalEntry::TxBegin { tx_id, .. } => Some(*tx_id),
                _ => None,
            })
            .collect()
    }
    /// called after every call into the coordinator: the log must only grow. If what was in the
    /// file before is no longer its prefix, the code rewrote the log; the records it dropped were
    /// acknowledged and stay part of the promise.
    fn sync_after_call(&mut self, rep: &mut Report) {
        let cur = std::fs::read(&self.path).unwrap_or_default();
        let grew = cur.len() >= self.last_bytes.len() && cur[..self.last_bytes.len()] == self.last_bytes[..];
        if !grew {
            let mut ss = self.seg_starts.clone();
            if let Some(c) = self.cur_seg {
                if ss.last() != Some(&c) && c > 0 {
                    ss.push(c);
                }
            }
            let (old, _) = logical_log(&self.last_bytes, self.last_bytes.len(), &ss);
            for r in old {
                let key = REMOVED_BASE + self.removed.len();
                if let Some(a) = self.vote_accept.get(&r.start).copied() {
                    self.vote_accept.insert(key, a);
                }
                self.removed.push(Rec { start: key, end: key, entry: r.entry });
            }
            self.vote_accept.retain(|&k, _| k >= REMOVED_BASE);
            // offsets of the old file mean nothing in the new one: what was announced before the
            // rewrite precedes every byte of it
            for a in self.acks.iter_mut() {
                a.len = 0;
            }
            self.seg_starts = vec![0];
            self.cur_seg = Some(0);
            self.rewritten_this_epoch = true;
            rep.count("log_rewritten_while_running", 1);
        }
        self.last_bytes = cur;
    }
}

fn gen_vote(coord: &DistributedTxCoordinator, tx: u64, shard: usize, rng: &mut Rng, rep: &mut Report) -> PrepareVote {
    match rng.weighted(&[4, 3, 2, 1]) {
        0 => {
            // through the coordinator's own prepare path: real key locks, real lock handle
            let shared = rng.chance(1, 6);
            let key = if shared { "g0".to_string() } else { format!("s{}:k{}", shard, rng.below(3)) };
            let mut dense = vec![0.0f32; DIM];
            if rng.chance(1, 3) {
                dense[rng.below(DIM)] = 1.0;
            }
            let req = PrepareRequest {
                tx_id: tx,
                coordinator: "coord".to_string(),
                operations: vec![Transaction::Put { key, data: vec![1, 2, 3] }],
                delta_embedding: SparseVector::from_dense(&dense),
                timeout_ms: 5000,
            };
            rep.count("op:handle_prepare", 1);
            coord.handle_prepare(&req)
        }
        1 => {
            // half of the synthetic handles come from a tiny pool: the participants' handle counter
            // restarts at 1 with every process, so different transactions do carry equal handle values
            let lock_handle = if rng.bool() { 1 + rng.below(6) as u64 } else { 1_000_000 + rng.below(1_000_000) as u64 };
            if lock_handle < 100 {
                rep.count("op:vote-with-reused-handle-value", 1);
            }
            PrepareVote::Yes { lock_handle, delta: DeltaVector::zero(DIM) }
        }
        2 => PrepareVote::No { reason: "no".to_string() },
        _ => PrepareVote::Conflict { similarity: 1.0, conflicting_tx: 7 },
    }
}

/// seeded live workload on the coordinator of this epoch
fn workload(coord: &DistributedTxCoordinator, ch: &mut Chain, rng: &mut Rng, extra_seed: u64, epoch: usize, known: &Model, out: &mut Vec<Found>, rep: &mut Report) {
    // decisions added later draw from their own stream, so that a case seed keeps its older meaning
    let mut xr = Rng::new(extra_seed);
    let steps = if epoch == 0 { 8 + rng.below(30) } else { 3 + rng.below(20) };
    let max_new = if epoch == 0 { 1 + rng.below(4) } else { rng.below(3) };
    let mut begun = 0usize;
    // completions this coordinator logged itself (commit()/abort() returned Ok: TxComplete is on disk)
    let mut live_done: HashMap<u64, (TxOutcome, &'static str)> = HashMap::new();
    // transactions this coordinator moved to Prepared (that phase change is in the log)
    let mut prepared_live: std::collections::HashSet<u64> = Default::default();
    // `known` = what the restart of this epoch was obliged to; its completed transactions
    let known_done = |tx: u64| known.get(&tx).and_then(|t| t.done().map(|o| (o, t.was(), t.sfx())));
    let transport = h_chain::CaptureTransport::new("coord", &[]);
    // an operation that has to follow the previous one directly (replaces the drawn one)
    let mut force: Option<usize> = None;
    for _ in 0..steps {
        let w_begin = if begun < max_new { 5 } else { 0 };
        let have = !ch.txs.is_empty();
        let drawn = rng.weighted(&[w_begin, if have { 14 } else { 0 }, if have { 4 } else { 0 }, if have { 3 } else { 0 }, 1, 1, if have { 1 } else { 0 }, 2]);
        let op = force.take().unwrap_or(drawn);
        match op {
            0 => {
                let mut shards = vec![0usize, 1, 2];
                rng.shuffle(&mut shards);
                shards.truncate(2 + rng.below(2));
                shards.sort();
                if let Ok(t) = coord.begin(&"coord".to_string(), &shards) {
                    ch.names.add(t.tx_id);
                    ch.txs.push(TxInfo { id: t.tx_id, participants: shards });
                    begun += 1;
                    rep.count("op:begin", 1);
                }
            }
            1 => {
                // a vote: mostly for a recent transaction and a shard that has not voted (progress),
                // sometimes a duplicate / late / unknown-transaction vote
                let i = if rng.chance(3, 4) { ch.txs.len() - 1 - rng.below(ch.txs.len().min(2)) } else { rng.below(ch.txs.len()) };
                let (tx, parts) = (ch.txs[i].id, ch.txs[i].participants.clone());
                let tx = if rng.chance(1, 40) { tx ^ 0x5555 } else { tx };
                let voted: Vec<usize> = coord.get(tx).map(|t| t.votes.keys().copied().collect()).unwrap_or_default();
                let fresh: Vec<usize> = parts.iter().copied().filter(|s| !voted.contains(s)).collect();
                let shard = if rng.chance(1, 10) {
                    // a vote from a shard outside the participant list (mis-routed PREPARE answered
                    // by the wrong shard): the live coordinator accepts it like any other
                    rep.count("op:vote-from-non-participant", 1);
                    3 + rng.below(3)
                } else if !fresh.is_empty() && rng.chance(4, 5) {
                    *rng.pick(&fresh)
                } else {
                    *rng.pick(&parts)
                };
                let mut vote = gen_vote(coord, tx, shard, rng, rep);
                // more collections that end in Prepared (everything past vote collection starts there)
                if !matches!(vote, PrepareVote::Yes { .. }) && xr.chance(1, 3) {
                    vote = PrepareVote::Yes { lock_handle: 2_000_000 + xr.below(1_000_000) as u64, delta: DeltaVector::zero(DIM) };
                    rep.count("op:no-vote-turned-into-yes", 1);
                }
                if matches!(vote, PrepareVote::Yes { .. }) && coord.get(tx).is_none() {
                    let committed = known_done(tx).map(|d| d.0).or_else(|| live_done.get(&tx).map(|d| d.0)) == Some(TxOutcome::Committed);
                    rep.count(if committed { "op:late-yes-vote-for-committed-tx" } else { "op:late-yes-vote-for-tx-that-is-not-pending" }, 1);
                }
                let at = file_len(&ch.path);
                let res = coord.record_vote(tx, shard, vote);
                if file_len(&ch.path) > at {
                    ch.vote_accept.insert(at, res.is_ok());
                }
                if matches!(res, Ok(Some(TxPhase::Prepared))) {
                    prepared_live.insert(tx);
                    rep.count("live_tx_prepared", 1);
                    // sometimes a recovery call meets the freshly prepared transaction
                    if xr.chance(1, 4) {
                        force = Some(7);
                    }
                }
                rep.count(if res.is_ok() { "op:vote-accepted" } else { "op:vote-rejected" }, 1);
            }
            2 | 3 | 6 => {
                let i = rng.below(ch.txs.len());
                let tx = ch.txs[i].id;
                let before_crash = known_done(tx);
                let logged: Option<TxOutcome> = before_crash.as_ref().map(|b| b.0).or_else(|| live_done.get(&tx).map(|d| d.0));
                let (name, ok) = match op {
                    2 => ("commit", coord.commit(tx).is_ok()),
                    3 => ("abort", coord.abort(tx, "client").is_ok()),
                    _ => {
                        if rng.bool() {
                            ("complete_commit", coord.complete_commit(tx).is_ok())
                        } else {
                            ("complete_abort", coord.complete_abort(tx).is_ok())
                        }
                    }
                };
                rep.count(&format!("op:{}{}", name, if ok { "-ok" } else { "-refused" }), 1);
                if ok && epoch > 0 {
                    // "locks of completed transactions are released", on a restarted coordinator
                    rep.count("checked:no-locks-after-live-completion-on-restarted-coordinator", 1);
                    let left = keys_held_by(coord, tx);
                    if !left.is_empty() {
                        out.push(Found {
                            sig: format!("locks-left-after-completion:{}():on-restarted-coordinator", name),
                            detail: format!("{}: {}() returned Ok on the restarted coordinator, the transaction is gone but still holds key locks {:?}", ch.names.n(tx), name, left),
                        });
                    }
                }
                if ok {
                    let reversed = match (logged, name) {
                        (Some(TxOutcome::Committed), "abort") | (Some(TxOutcome::Committed), "complete_abort") => Some("logged-commit-reversed"),
                        (Some(TxOutcome::Aborted), "commit") | (Some(TxOutcome::Aborted), "complete_commit") => Some("logged-abort-reversed"),
                        _ => None,
                    };
                    if let Some(r) = reversed {
                        let (wording, sfx) = match (&before_crash, live_done.get(&tx)) {
                            (Some((_, was, sfx)), _) => (format!("{} (before the crash)", was), sfx.clone()),
                            (None, Some((o, how))) => (format!("was completed as {:?} by this coordinator ({} returned it)", o, how), if *how == "cleanup_timeouts()" { ":timed-out-on-this-coordinator".to_string() } else { String::new() }),
                            _ => (String::new(), String::new()),
                        };
                        out.push(Found {
                            sig: format!("{}:{}-accepted{}", r, name, sfx),
                            detail: format!("{} {}; {}() succeeded later on the same coordinator", ch.names.n(tx), wording, name),
                        });
                    } else if logged.is_none() && (name == "commit" || name == "abort" || judge_complete_calls()) {
                        // an outcome the coordinator announced: from here on it precedes every crash
                        let (o, how) = match name {
                            "commit" => (TxOutcome::Committed, "commit()"),
                            "abort" => (TxOutcome::Aborted, "abort()"),
                            "complete_commit" => (TxOutcome::Committed, "complete_commit()"),
                            _ => (TxOutcome::Aborted, "complete_abort()"),
                        };
                        live_done.insert(tx, (o, how));
                        ch.acks.push(Ack { tx, outcome: o, how, len: file_len(&ch.path) });
                        rep.count(&format!("announced:{}", how), 1);
                    }
                }
            }
            4 => {
                // timeout sweep: with prepare_timeout_ms = 0 every transaction begun at least 1 ms ago is due
                std::thread::sleep(Duration::from_micros(1100));
                // in-memory phases before the sweep (recover() changes phases without logging)
                let mem_phase: HashMap<u64, TxPhase> = ch.txs.iter().filter_map(|t| coord.get(t.id).map(|c| (t.id, c.phase))).collect();
                let swept = coord.cleanup_timeouts();
                rep.count("op:timeout-sweep", 1);
                rep.count("timed_out", swept.len() as u64);
                let len_now = file_len(&ch.path);
                for tx in swept {
                    if epoch > 0 {
                        rep.count("checked:no-locks-after-live-completion-on-restarted-coordinator", 1);
                        let left = keys_held_by(coord, tx);
                        if !left.is_empty() {
                            out.push(Found {
                                sig: "locks-left-after-completion:cleanup_timeouts():on-restarted-coordinator".into(),
                                detail: format!("{}: cleanup_timeouts() on the restarted coordinator returned it, the transaction is gone but still holds key locks {:?}", ch.names.n(tx), left),
                            });
                        }
                    }
                    if let Some((o, was, sfx)) = known_done(tx).or_else(|| live_done.get(&tx).map(|(o, how)| (*o, format!("was completed as {:?} by this coordinator ({} returned it)", o, how), String::new()))) {
                        out.push(Found {
                            sig: format!("logged-outcome-reversed:timed-out-after-{:?}{}", o, sfx),
                            detail: format!("{} {} earlier; cleanup_timeouts() returned it", ch.names.n(tx), was),
                        });
                    } else {
                        // a reported timeout is an abort the coordinator announces (the ABORT broadcast
                        // is queued): from here on it precedes every crash
                        live_done.insert(tx, (TxOutcome::Aborted, "cleanup_timeouts()"));
                        ch.acks.push(Ack { tx, outcome: TxOutcome::Aborted, how: "cleanup_timeouts()", len: len_now });
                        rep.count("announced:cleanup_timeouts()", 1);
                        match mem_phase.get(&tx) {
                            Some(TxPhase::Aborting) if prepared_live.contains(&tx) => rep.count("announced:timeout-of-tx-logged-Prepared-and-Aborting-in-memory", 1),
                            Some(TxPhase::Aborting) => rep.count("announced:timeout-of-tx-Aborting-in-memory", 1),
                            Some(TxPhase::Prepared) => rep.count("announced:timeout-of-tx-Prepared-in-memory", 1),
                            _ => {}
                        }
                    }
                }
            }
            5 => {
                // abort broadcast (logs AbortIntent records)
                if block_on(coord.process_pending_aborts(&*transport)).is_none() {
                    rep.inconclusive("process_pending_aborts did not finish");
                }
                // no ABORT goes out for a transaction that is completed as committed
                for (_, msg) in transport.drain() {
                    if let tensor_chain::network::Message::TxAbort(a) = msg {
                        rep.count("abort_messages_seen", 1);
                        let committed = known_done(a.tx_id)
                            .filter(|d| d.0 == TxOutcome::Committed)
                            .map(|(_, was, sfx)| (format!("{} (before the crash)", was), sfx))
                            .or_else(|| match live_done.get(&a.tx_id) {
                                Some((TxOutcome::Committed, how)) => Some((format!("was completed as Committed by this coordinator ({} returned Ok)", how), String::new())),
                                _ => None,
                            });
                        if let Some((was, sfx)) = committed {
                            out.push(Found {
                                sig: format!("logged-commit-reversed:abort-broadcast-sent{}", sfx),
                                detail: format!("{} {}; process_pending_aborts() sent TxAbort(reason {:?}) for it to shard(s) {:?}", ch.names.n(a.tx_id), was, a.reason, a.shards),
                            });
                        }
                    }
                }
                rep.count("op:abort-broadcast", 1);
            }
            _ => {
                // a further recovery call on the running coordinator ("every following sequence of
                // recovery calls ... and further transactions"). A transaction that is known and
                // holds key locks before the call may be kept or forgotten by it, but a forgotten
                // one must not leave its locks behind.
                let holding: Vec<u64> = ch
                    .txs
                    .iter()
                    .map(|t| t.id)
                    .filter(|id| coord.get(*id).is_some() && coord.lock_manager().lock_count_for_transaction(*id) > 0)
                    .collect();
                let which = rng.below(3);
                let name = ["recover_from_wal", "recover", "recover_from_wal+recover"][which];
                if which != 1 {
                    rep.count("op:recover_from_wal-again", 1);
                    if let Err(e) = coord.recover_from_wal() {
                        out.push(Found { sig: "recovery-error".into(), detail: format!("recover_from_wal on the running coordinator failed: {}", e) });
                    }
                }
                if which != 0 {
                    // recover() judges deadlines: sometimes make sure that every transaction of
                    // this coordinator (deadline 0 ms) is past it, as before a sweep
                    if xr.chance(1, 2) {
                        std::thread::sleep(Duration::from_micros(1100));
                    }
                    let _ = coord.get_pending_decisions();
                    let before: Vec<(u64, TxPhase)> = ch.txs.iter().filter_map(|t| coord.get(t.id).map(|c| (t.id, c.phase))).collect();
                    let _ = coord.recover();
                    rep.count("op:recover", 1);
                    // phases recover() changed in memory; none of these changes is in the log
                    let changed = before.iter().filter(|(id, ph)| coord.get(*id).map(|c| c.phase != *ph).unwrap_or(false)).count();
                    rep.count("live_phase_changes_by_recover()", changed as u64);
                    // the sweeper (or a client call) then decides from phases the log never saw
                    if changed > 0 && xr.chance(1, 2) {
                        force = Some(if xr.chance(3, 4) { 4 } else { 2 + xr.below(2) });
                    }
                }
                rep.count("live_lock_holders_across_recovery_calls", holding.len() as u64);
                // a logged completion stays final across the call
                let completed: Vec<(u64, TxOutcome, String, String)> = known
                    .iter()
                    .filter_map(|(t, l)| l.done().map(|o| (*t, o, l.was(), l.sfx())))
                    .chain(live_done.iter().map(|(t, (o, how))| {
                        (*t, *o, format!("was completed as {:?} by this coordinator ({} returned it)", o, how), if *how == "cleanup_timeouts()" { ":timed-out-on-this-coordinator".to_string() } else { String::new() })
                    }))
                    .collect();
                rep.count("checked:completed-across-later-recovery-call", completed.len() as u64);
                for (tx, o, was, sfx) in completed {
                    if let Some(cur) = coord.get(tx) {
                        out.push(Found {
                            sig: format!("completed-tx-pending-again:{:?}-as-{:?}:after-later-recovery-call{}", o, cur.phase, sfx),
                            detail: format!("{} {}; after {}() on the running coordinator it is pending again in phase {:?}", ch.names.n(tx), was, name, cur.phase),
                        });
                    }
                }
                for tx in holding {
                    let left = keys_held_by(coord, tx);
                    if coord.get(tx).is_none() && !left.is_empty() {
                        out.push(Found {
                            sig: format!("recovery-call-forgot-live-tx-and-left-its-locks:{}", name),
                            detail: format!(
                                "{} was pending and held key locks {:?}; after {}() on the running coordinator it is unknown (votes/commit/abort answer not-found) but the locks are still held",
                                ch.names.n(tx), left, name
                            ),
                        });
                    }
                }
            }
        }
        ch.sync_after_call(rep);
    }
}

/// which byte lengths of [lo, hi] to check as crash images
fn crash_points(recs_in_epoch: &[Rec], lo: usize, hi: usize, cap: usize, rng: &mut Rng) -> Vec<usize> {
    if hi - lo + 1 <= cap {
        return (lo..=hi).collect();
    }
    let mut v: Vec<usize> = Vec::new();
    for r in recs_in_epoch {
        for d in [-1i64, 0, 1, 4, 8] {
            let x = r.start as i64 + d;
            if x >= lo as i64 && x <= hi as i64 {
                v.push(x as usize);
            }
        }
    }
    for r in recs_in_epoch.iter().rev().take(3) {
        v.extend(r.start..=r.end.min(hi));
    }
    v.push(hi);
    while v.len() < cap {
        v.push(lo + rng.below(hi - lo + 1));
    }
    v.sort();
    v.dedup();
    v
}

fn is_nontrivial(model: &Model) -> bool {
    model.values().any(|t| !matches!(t.class(), Class::Collecting))
}

fn report(found: Vec<Found>, rep: &mut Report, case_seed: u64, epoch: usize, b: usize, kind: &str, log: &str) {
    for f in found {
        rep.violation(
            f.sig,
            format!("{} [{} epoch {} crash at byte {}] durable log: {}", f.detail, kind, epoch, b, log),
            json!({"case_seed": case_seed, "epoch": epoch, "byte": b, "kind": kind}),
        );
    }
}

fn run_case(args: &Args, case_seed: u64, rep: &mut Report) {
    let mut rng = Rng::new(case_seed);
    let dir = args.scratch_dir("c13");
    let mut ch = Chain {
        path: dir.join("tx.wal"),
        img: dir.join("image.wal"),
        seg_starts: vec![0],
        vote_accept: HashMap::new(),
        names: Names::default(),
        txs: Vec::new(),
        removed: Vec::new(),
        last_bytes: Vec::new(),
        cur_seg: None,
        rewritten_this_epoch: false,
        acks: Vec::new(),
        cto: commit_timeout_of_case(case_seed),
    };
    rep.count(if ch.cto == 0 { "cases_with_commit_timeout_0" } else { "cases_with_default_commit_timeout" }, 1);
    let crashes = 1 + rng.below(3);
    let cap = args.by_tier(700usize, 4000usize);
    let mut valid_end_prev = 0usize; // where the decodable chain of the cut file ended

    for epoch in 0..=crashes {
        let pre_len = file_len(&ch.path);
        let pre_bytes = if epoch > 0 { std::fs::read(&ch.path).unwrap_or_default() } else { Vec::new() };
        // ---------------- restart
        let wal = match TxWal::open(&ch.path) {
            Ok(w) => w,
            Err(e) => {
                let bytes = std::fs::read(&ch.path).unwrap_or_default();
                let (recs, garbage) = logical_log(&bytes, bytes.len(), &ch.seg_starts);
                let f = classify(garbage, &[], Found { sig: "wal-open-failed".into(), detail: format!("TxWal::open failed: {}", e) });
                report(vec![f], rep, case_seed, epoch, pre_len, "chain", &describe_all(&ch.removed, &recs, &ch.names, &ch.vote_accept));
                return;
            }
        };
        let open_len = file_len(&ch.path);
        let coord = new_coordinator_cfg(wal, ch.cto);
        ch.last_bytes = std::fs::read(&ch.path).unwrap_or_default();
        ch.cur_seg = Some(if epoch == 0 { 0 } else { open_len });
        ch.rewritten_this_epoch = false;
        let mut known: Model = BTreeMap::new();
        let mut restart_garbage = false;
        if epoch > 0 {
            let bytes = std::fs::read(&ch.path).unwrap_or_default();
            let (recs, garbage) = logical_log(&bytes, bytes.len(), &ch.seg_starts);
            let Some(mut model) = build_model(&ch.removed, &recs, &ch.vote_accept, &ch.acks, bytes.len()) else {
                rep.inconclusive("harness lost track of a logged vote");
                return;
            };
            let mut found = Vec::new();
            let script_seed = rng.next_u64();
            let mut srng = Rng::new(script_seed);
            // in a few restarts the 5 s deadline of restored transactions is allowed to pass
            let late = hash_combine(case_seed, 0x1A7E + epoch as u64) % args.by_tier(40u64, 200u64) == 0;
            // the thorough tier also waits out the default commit timeout (twice the 5 s)
            let late_wait_ms = if !late {
                0
            } else if !args.quick() && ch.cto > 5000 && hash_combine(case_seed, 0x1A7F) % 2 == 0 {
                ch.cto + 100
            } else {
                5100
            };
            let mut announced = Vec::new();
            let mut io = ScriptIo { wal_path: &ch.path, xseed: script_seed, votes_logged: Vec::new() };
            let ok = recovery_script(&coord, &model, &ch.names, &recs, &ch.removed_tx(), &mut srng, &mut found, rep, late_wait_ms, &mut announced, &mut io);
            // verdicts of the votes the script logged (re-delivered messages)
            for (at, acc) in io.votes_logged.drain(..) {
                ch.vote_accept.insert(at, acc);
            }
            // what this coordinator announced during the script precedes every crash from here on
            let len_now = file_len(&ch.path);
            for (tx, outcome, how) in announced {
                rep.count(&format!("announced-after-restart:{}", how), 1);
                ch.acks.push(Ack { tx, outcome, how, len: len_now });
                if let Some(t) = model.get_mut(&tx) {
                    if t.acked.is_none() {
                        t.acked = Some((outcome, how));
                    }
                }
            }
            let log = describe_all(&ch.removed, &recs, &ch.names, &ch.vote_accept);
            rep.eval(hash_combine(hash_str(&log), 0xC4A1), is_nontrivial(&model));
            rep.count("chain_restarts", 1);
            restart_garbage = garbage;
            if garbage {
                rep.count("restarts_with_unrepaired_torn_tail", 1);
            }
            let indep = if garbage && !found.is_empty() {
                independent_sigs(&ch.img, &pre_bytes, &ch.seg_starts, &ch.vote_accept, &ch.acks, &ch.names, script_seed, ch.cto)
            } else {
                Vec::new()
            };
            let found: Vec<Found> = found.into_iter().map(|f| classify(garbage, &indep, f)).collect();
            report(found, rep, case_seed, epoch, pre_len, "chain", &log);
            if !ok {
                return;
            }
            ch.sync_after_call(rep);
            known = model;
        }
        if epoch == crashes && epoch > 0 {
            // last restart: nothing follows
            return;
        }
        // ---------------- live epoch
        let mut found = Vec::new();
        let mut wrng = rng.fork(100 + epoch as u64);
        workload(&coord, &mut ch, &mut wrng, hash_combine(case_seed, 0xE0 + epoch as u64), epoch, &known, &mut found, rep);
        drop(coord);
        let bytes = std::fs::read(&ch.path).unwrap_or_default();
        let total = bytes.len();
        // where did this epoch start appending? (a repaired log continues at the end of the valid
        // chain, an unrepaired one behind the torn bytes)
        let mut seg = None;
        let candidates = if ch.rewritten_this_epoch { vec![0usize] } else { vec![open_len, valid_end_prev, pre_len] };
        for c in candidates {
            if c <= total && decode_run(&bytes, c, total).1 == total {
                seg = Some(c);
                break;
            }
        }
        let Some(seg) = seg else {
            rep.inconclusive("harness cannot locate the records appended in this epoch");
            return;
        };
        if epoch > 0 && !ch.rewritten_this_epoch {
            ch.seg_starts.push(seg);
            if seg > valid_end_prev {
                rep.count("appends_behind_unrepaired_torn_tail", (total > seg) as u64);
            } else if pre_len > valid_end_prev {
                rep.count("torn_tails_repaired_on_open", 1);
            }
        }
        {
            let (recs, garbage) = logical_log(&bytes, total, &ch.seg_starts);
            let log = describe_all(&ch.removed, &recs, &ch.names, &ch.vote_accept);
            // what this coordinator accepted depends on what it could read at its restart: if the
            // log then had a torn record with records behind it, it never saw those outcomes
            let _ = garbage;
            // the records this incarnation appended (restart script and live calls, late votes
            // included) never complete a transaction against an earlier completion
            {
                let prior = |tx: u64| known.get(&tx).and_then(|t| t.done().map(|o| (o, format!("{} (before the crash)", t.was()), t.sfx())));
                let appended = decode_run(&bytes, seg, total).0;
                found.extend(completion_conflicts(&prior, &appended, &ch.names, rep));
            }
            let found: Vec<Found> = found.into_iter().map(|f| classify(restart_garbage, &[], f)).collect();
            report(found, rep, case_seed, epoch, total, "live", &log);
            if rep.want_sample() && epoch == 0 && recs.len() >= 8 {
                rep.sample(json!({"case_seed": case_seed, "epoch0_log": log, "bytes": total, "crashes": crashes}));
            }
        }
        // ---------------- every byte of this epoch as a crash image (on a copy)
        let epoch_recs = decode_run(&bytes, seg, total).0;
        rep.count("wal_records_written", epoch_recs.len() as u64);
        let lo = if epoch == 0 || ch.rewritten_this_epoch { 0 } else { seg };
        let removed_tx = ch.removed_tx();
        let points = crash_points(&epoch_recs, lo, total, cap, &mut rng);
        for &b in &points {
            let (recs, garbage) = logical_log(&bytes, b, &ch.seg_starts);
            let Some(model) = build_model(&ch.removed, &recs, &ch.vote_accept, &ch.acks, b) else {
                rep.inconclusive("harness lost track of a logged vote");
                continue;
            };
            let seed = case_seed ^ (b as u64).wrapping_mul(0x9E37_79B9) ^ ((epoch as u64) << 56);
            let Some(found) = eval_copy(&ch.img, &bytes[..b], &model, &recs, &removed_tx, &ch.names, seed, ch.cto, rep) else {
                rep.inconclusive("scratch write failed");
                continue;
            };
            let on_boundary = recs.last().map(|r| r.end == b).unwrap_or(b == 0) || ch.seg_starts.contains(&b);
            rep.count("crash_images", 1);
            rep.count(if on_boundary { "images_at_record_boundary" } else { "images_inside_a_record" }, 1);
            if garbage {
                rep.count("images_with_unrepaired_torn_tail", 1);
            }
            let log = describe_all(&ch.removed, &recs, &ch.names, &ch.vote_accept);
            rep.eval(hash_combine(hash_str(&log), b as u64 - recs.last().map(|r| r.end).unwrap_or(0) as u64), is_nontrivial(&model));
            if !found.is_empty() {
                let indep = if garbage { independent_sigs(&ch.img, &bytes[..b], &ch.seg_starts, &ch.vote_accept, &ch.acks, &ch.names, seed, ch.cto) } else { Vec::new() };
                let found: Vec<Found> = found.into_iter().map(|f| classify(garbage, &indep, f)).collect();
                report(found, rep, case_seed, epoch, b, "image", &log);
            }
        }
        // ---------------- the crash that the chain continues from
        let b = if epoch_recs.is_empty() {
            total
        } else if rng.bool() {
            // a record boundary
            let i = rng.below(epoch_recs.len() + 1);
            if i == epoch_recs.len() { total } else { epoch_recs[i].start.max(lo) }
        } else {
            // inside a record: a torn tail
            let r = &epoch_recs[rng.below(epoch_recs.len())];
            let inside = match rng.below(3) {
                0 => 1 + rng.below(7),                       // header torn
                1 => 8,                                      // header complete, payload missing
                _ => 8 + rng.below((r.end - r.start - 8).max(1)), // payload torn
            };
            (r.start + inside).min(r.end - 1)
        };
        // end of the decodable chain inside the cut file (== b unless the cut tore a record)
        let last_seg = *ch.seg_starts.last().unwrap();
        valid_end_prev = if last_seg <= b { decode_run(&bytes, last_seg, b).1 } else { b };
        if valid_end_prev < b {
            rep.count("chain_crashes_with_torn_tail", 1);
        } else {
            rep.count("chain_crashes_at_record_boundary", 1);
        }
        if std::fs::write(&ch.path, &bytes[..b]).is_err() {
            rep.inconclusive("scratch write failed");
            return;
        }
        // regions that start beyond the cut no longer exist
        while ch.seg_starts.len() > 1 && *ch.seg_starts.last().unwrap() > b {
            ch.seg_starts.pop();
        }
        ch.vote_accept.retain(|&off, _| off < b || off >= REMOVED_BASE);
        // the crash came before whatever was announced with a longer log
        ch.acks.retain(|a| a.len <= b);
    }
}

// ------------------------------------------------------------------------------------------------
// part "deadline": decided transactions that outlive their deadline on a restarted coordinator, and
// transactions that hold several lock sets (one per answered PREPARE) when they are completed
// ------------------------------------------------------------------------------------------------

/// what a restored transaction gets from the code (fresh start time + this timeout, not configurable)
const RESTORED_DEADLINE_MS: u64 = 5_000;

struct DeadlineCase<'a> {
    names: Names,
    /// first decision `get_pending_decisions()` of a restarted coordinator handed out per transaction
    handed: BTreeMap<u64, TxPhase>,
    /// completions the restarted coordinator announced (call returned Ok / sweeper returned the id)
    done: BTreeMap<u64, (TxOutcome, &'static str)>,
    /// keys the coordinator locked for a transaction when it answered a PREPARE with yes:
    /// (key, was the vote of that answer recorded?)
    asked: BTreeMap<u64, Vec<(String, bool)>>,
    trace: Vec<String>,
    found: Vec<Found>,
    rep: &'a mut Report,
}

fn decision_name(p: TxPhase) -> &'static str {
    if p == TxPhase::Committing { "COMMIT" } else { "ABORT" }
}

impl DeadlineCase<'_> {
    fn push(&mut self, sig: String, detail: String) {
        let d = format!("{} [calls so far: {}]", detail, self.trace.join(" "));
        self.found.push(Found { sig, detail: d });
    }
    /// `get_pending_decisions()`: what the coordinator hands out for broadcast. The first decision
    /// for a transaction is its announced outcome; a different one later reverses it.
    fn note_decisions(&mut self, coord: &DistributedTxCoordinator) {
        for (tx, ph) in coord.get_pending_decisions() {
            match self.handed.get(&tx).copied() {
                None => {
                    self.handed.insert(tx, ph);
                    self.rep.count(&format!("deadline:decision-handed-out:{}", decision_name(ph)), 1);
                }
                Some(prev) if prev != ph => {
                    let n = self.names.n(tx);
                    self.push(
                        format!("handed-out-decision-reversed:{}-then-{}-handed-out", decision_name(prev), decision_name(ph)),
                        format!("{}: get_pending_decisions() of the restarted coordinator handed {} out for it; a later get_pending_decisions() hands out {}", n, decision_name(prev), decision_name(ph)),
                    );
                }
                _ => {}
            }
        }
    }
    /// decided transactions (decision handed out, completion outstanding) whose deadline is over
    fn decided_past_deadline(&self, coord: &DistributedTxCoordinator, phase: TxPhase) -> (u64, u64) {
        let (mut all, mut restored) = (0, 0);
        for (&tx, &h) in &self.handed {
            if h != phase || self.done.contains_key(&tx) {
                continue;
            }
            if let Some(t) = coord.get(tx) {
                if t.phase == phase && t.is_timed_out() {
                    all += 1;
                    if t.timeout_ms == RESTORED_DEADLINE_MS && t.coordinator == "recovered" {
                        restored += 1;
                    }
                }
            }
        }
        (all, restored)
    }
    /// the coordinator announced a completion of `tx`
    fn completed(&mut self, coord: &DistributedTxCoordinator, tx: u64, outcome: TxOutcome, how: &'static str) {
        let n = self.names.n(tx);
        if let Some(h) = self.handed.get(&tx).copied() {
            let against = (h == TxPhase::Committing) != (outcome == TxOutcome::Committed);
            if against {
                let what = match how {
                    "cleanup_timeouts()" => "timed-out".to_string(),
                    other => format!("{}-accepted", other.trim_end_matches("()")),
                };
                self.push(
                    format!("handed-out-decision-reversed:{}-then-{}", decision_name(h), what),
                    format!("{}: get_pending_decisions() of the restarted coordinator handed {} out for it; afterwards {} completed it as {:?}", n, decision_name(h), how, outcome),
                );
            } else {
                self.rep.count("deadline:decided-tx-completed-as-decided", 1);
            }
        }
        if let Some((prev, prev_how)) = self.done.get(&tx).copied() {
            if prev != outcome {
                self.push(
                    format!("completed-outcome-reversed-on-restarted-coordinator:{:?}-then-{}", prev, how.trim_end_matches("()")),
                    format!("{} was completed as {:?} by the restarted coordinator ({}); later {} completed it as {:?}", n, prev, prev_how, how, outcome),
                );
            }
        } else {
            self.done.insert(tx, (outcome, how));
        }
        // "locks of completed transactions are released": every key the coordinator locked for it
        let sets = self.asked.get(&tx).cloned().unwrap_or_default();
        let lm = coord.lock_manager();
        let mut left: Vec<String> = sets.iter().filter(|(k, _)| lm.lock_holder(k) == Some(tx)).map(|(k, _)| k.clone()).collect();
        for k in lm.keys_for_transaction(tx) {
            if !left.contains(&k) {
                left.push(k);
            }
        }
        self.rep.count("deadline:checked:no-locks-after-completion", 1);
        if sets.len() >= 2 {
            self.rep.count("deadline:checked:no-locks-after-completion-of-tx-with-several-lock-sets", 1);
            // an answer whose vote was not recorded, followed by a later answer
            if sets.iter().rev().skip(1).any(|(_, recorded)| !recorded) {
                self.rep.count("deadline:checked:completed-tx-had-earlier-lock-set-without-recorded-vote", 1);
            }
        }
        if !left.is_empty() {
            self.push(
                format!("locks-left-after-completion:{}:on-restarted-coordinator", how),
                format!(
                    "{}: {} on the restarted coordinator completed it as {:?}, the transaction is gone but is still the holder of key lock(s) {:?} (lock sets taken by its PREPAREs, vote recorded?: {:?})",
                    n, how, outcome, left, sets
                ),
            );
        }
    }
    /// PREPAREs for `tx` answered by the coordinator's own prepare path: `count` answers with
    /// different keys; the vote of an answer is recorded with probability 2/3 (else it is still on
    /// its way when the transaction completes)
    fn prepares(&mut self, coord: &DistributedTxCoordinator, tx: u64, shards: &[usize], count: usize, tag: &str, rng: &mut Rng) {
        for i in 0..count {
            let shard = shards[i % shards.len().max(1)];
            let key = format!("{}:{}:s{}:k{}", tag, self.names.n(tx), shard, i);
            let req = PrepareRequest {
                tx_id: tx,
                coordinator: "coord".to_string(),
                operations: vec![Transaction::Put { key: key.clone(), data: vec![7] }],
                delta_embedding: SparseVector::from_dense(&vec![0.0f32; DIM]),
                timeout_ms: 5000,
            };
            let mut vote = coord.handle_prepare(&req);
            let yes = matches!(vote, PrepareVote::Yes { .. });
            self.rep.count("deadline:op:handle_prepare", 1);
            // recorded = the coordinator accepted a yes vote that carries the handle of this lock set
            let mut recorded = false;
            if rng.chance(2, 3) {
                let mut carries = yes;
                if yes && rng.chance(1, 10) {
                    // the shard locked its keys here but cannot prepare: the locks stay until completion
                    vote = PrepareVote::No { reason: "no".to_string() };
                    carries = false;
                }
                recorded = coord.record_vote(tx, shard, vote).is_ok() && carries;
            }
            if yes {
                self.asked.entry(tx).or_default().push((key, recorded));
            }
            self.trace.push(format!("prepare({},s{},{}{})", self.names.n(tx), shard, if yes { "Y" } else { "N" }, if recorded { ",recorded" } else { "" }));
        }
    }
}

fn run_deadline_case(args: &Args, case_seed: u64, long: bool, rep: &mut Report) {
    let mut rng = Rng::new(hash_combine(case_seed, 0xDEAD_11));
    let dir = args.scratch_dir("c13d");
    let path = dir.join("tx.wal");
    let who = "coord".to_string();
    let replay = json!({"part": "deadline", "case_seed": case_seed, "long": long});
    let mut dc = DeadlineCase { names: Names::default(), handed: BTreeMap::new(), done: BTreeMap::new(), asked: BTreeMap::new(), trace: Vec::new(), found: Vec::new(), rep };
    let yes = |h: u64| PrepareVote::Yes { lock_handle: h, delta: DeltaVector::zero(DIM) };
    let mut all: Vec<(u64, Vec<usize>)> = Vec::new();

    // ---------------- epoch 0: a log with transactions in every state (no deadline can pass here)
    {
        let wal = match TxWal::open(&path) {
            Ok(w) => w,
            Err(_) => {
                dc.rep.inconclusive("deadline part: cannot create the scratch log");
                return;
            }
        };
        let cfg = DistributedTxConfig { prepare_timeout_ms: 3_600_000, commit_timeout_ms: 3_600_000, ..DistributedTxConfig::default() };
        let c = DistributedTxCoordinator::new(ConsensusManager::default_config(), cfg).with_wal(wal);
        // 1-4 transactions in the log, the one whose commit() is cut included
        let cut_commit = rng.chance(1, 2);
        let n = if cut_commit { rng.below(4) } else { 1 + rng.below(4) };
        // 0 decided COMMIT by recover(), 1 prepared, 2 a no vote, 3 collecting, 4 committed, 5 aborted
        let mut kinds: Vec<usize> = (0..n).map(|_| rng.weighted(&[5, 3, 1, 1, 1, 1])).collect();
        kinds.sort();
        let mut handle = 5_000_000u64;
        let mut recovered = false;
        let mut begin = |c: &DistributedTxCoordinator, dc: &mut DeadlineCase, all: &mut Vec<(u64, Vec<usize>)>, rng: &mut Rng, votes: usize, no: bool| -> Option<u64> {
            let parts: Vec<usize> = if rng.bool() { vec![0, 1] } else { vec![0, 1, 2] };
            let t = c.begin(&who, &parts).ok()?;
            dc.names.add(t.tx_id);
            all.push((t.tx_id, parts.clone()));
            for (i, s) in parts.iter().enumerate() {
                if i >= votes.min(parts.len()) && votes != usize::MAX {
                    break;
                }
                handle += 1;
                let v = if no && i == 0 { PrepareVote::No { reason: "no".to_string() } } else { yes(handle) };
                let _ = c.record_vote(t.tx_id, *s, v);
            }
            Some(t.tx_id)
        };
        for &k in &kinds {
            if k != 0 && !recovered {
                // everything begun so far has all yes votes: recover() decides COMMIT and logs it
                let _ = c.recover();
                recovered = true;
            }
            match k {
                0 | 1 => {
                    begin(&c, &mut dc, &mut all, &mut rng, usize::MAX, false);
                }
                2 => {
                    begin(&c, &mut dc, &mut all, &mut rng, usize::MAX, true);
                }
                3 => {
                    begin(&c, &mut dc, &mut all, &mut rng, 1, false);
                }
                4 => {
                    if let Some(t) = begin(&c, &mut dc, &mut all, &mut rng, usize::MAX, false) {
                        let _ = c.commit(t);
                    }
                }
                _ => {
                    if let Some(t) = begin(&c, &mut dc, &mut all, &mut rng, usize::MAX, false) {
                        let _ = c.abort(t, "client");
                    }
                }
            }
        }
        if !recovered {
            let _ = c.recover();
        }
        dc.trace.push(format!("epoch0(kinds {:?}{})", kinds, if cut_commit { ", commit() cut behind its decision record" } else { "" }));
        if cut_commit {
            // a crash between the two records of commit(): the decision is logged, the completion is not
            if let Some(t) = begin(&c, &mut dc, &mut all, &mut rng, usize::MAX, false) {
                let before = file_len(&path);
                if c.commit(t).is_ok() {
                    drop(c);
                    let bytes = std::fs::read(&path).unwrap_or_default();
                    let (recs, _) = decode_run(&bytes, before, bytes.len());
                    if let Some(r) = recs.iter().find(|r| matches!(&r.entry, TxWalEntry::TxComplete { tx_id, .. } if *tx_id == t)) {
                        let torn = if rng.chance(1, 3) { 1 + rng.below((r.end - r.start - 1).max(1)) } else { 0 };
                        let cut = (r.start + torn).min(r.end - 1);
                        if std::fs::write(&path, &bytes[..cut]).is_err() {
                            dc.rep.inconclusive("scratch write failed");
                            return;
                        }
                        dc.rep.count("deadline:logs-cut-inside-commit()", 1);
                    }
                }
            }
        }
    }

    // ---------------- epoch 1: the restarted coordinator
    let t_ms = *rng.pick(&[0u64, 0, 20]);
    let cto = if rng.chance(1, 4) { DistributedTxConfig::default().commit_timeout_ms } else { 0 };
    let restart = |dc: &mut DeadlineCase, t_ms: u64| -> Option<DistributedTxCoordinator> {
        let wal = match TxWal::open(&path) {
            Ok(w) => w,
            Err(e) => {
                dc.push("wal-open-failed".into(), format!("TxWal::open failed: {}", e));
                return None;
            }
        };
        let cfg = DistributedTxConfig { prepare_timeout_ms: t_ms, commit_timeout_ms: cto, ..DistributedTxConfig::default() };
        let c = DistributedTxCoordinator::new(ConsensusManager::default_config(), cfg).with_wal(wal);
        if let Err(e) = c.recover_from_wal() {
            dc.push("recovery-error".into(), format!("recover_from_wal failed: {}", e));
            return None;
        }
        dc.trace.push("RESTART recover_from_wal".into());
        Some(c)
    };
    let finish = |dc: DeadlineCase, nontrivial: bool| {
        let DeadlineCase { trace, found, rep, .. } = dc;
        rep.eval(hash_combine(hash_str(&trace.join(" ")), long as u64), nontrivial);
        for f in found {
            rep.violation(f.sig, format!("{} [deadline part, {} wait]", f.detail, if long { "5.1 s" } else { "short" }), replay.clone());
        }
    };
    let Some(c) = restart(&mut dc, t_ms) else {
        finish(dc, false);
        return;
    };
    dc.rep.count("deadline:cases", 1);
    dc.rep.count(if long { "deadline:cases-with-5.1s-wait" } else { "deadline:cases-with-short-wait" }, 1);
    if rng.chance(2, 3) {
        let _ = c.recover();
        dc.trace.push("recover".into());
    }
    dc.note_decisions(&c);
    // PREPAREs that arrive again for restored transactions (votes refused, lock sets stay)
    for (tx, parts) in all.clone() {
        if c.get(tx).is_some() && rng.chance(1, 2) {
            let mut sh = parts.clone();
            rng.shuffle(&mut sh);
            let count = 1 + rng.below(3);
            dc.prepares(&c, tx, &sh, count, "r", &mut rng);
        }
    }
    // further transactions on the restarted coordinator; every shard answers its PREPARE with its own
    // keys, some answer twice
    let m = rng.below(3);
    for _ in 0..m {
        let parts: Vec<usize> = if rng.bool() { vec![0, 1] } else { vec![0, 1, 2] };
        let Ok(t) = c.begin(&who, &parts) else { continue };
        dc.names.add(t.tx_id);
        all.push((t.tx_id, parts.clone()));
        dc.trace.push(format!("begin({},{:?})", dc.names.n(t.tx_id), parts));
        let mut sh = parts.clone();
        if rng.bool() {
            sh.reverse();
        }
        let count = parts.len() + rng.below(3);
        dc.prepares(&c, t.tx_id, &sh, count, "n", &mut rng);
        dc.rep.count("deadline:further-transactions", 1);
    }
    if rng.chance(3, 4) {
        let _ = c.recover();
        dc.trace.push("recover".into());
    }
    dc.note_decisions(&c);

    // ---------------- the deadlines pass (what the clock does decides only which states are met)
    let wait_ms = if long { RESTORED_DEADLINE_MS + 100 } else { t_ms + 2 + rng.below(3) as u64 };
    std::thread::sleep(Duration::from_millis(wait_ms));
    dc.trace.push(format!("WAIT({}ms)", wait_ms));

    // ---------------- recovery calls, sweeps and completion calls in any order
    let ops = 3 + rng.below(6);
    for _ in 0..ops {
        let tx = all[rng.below(all.len())].0;
        let n = dc.names.n(tx);
        match rng.weighted(&[5, 4, 2, 2, 1, 1, 2, 1]) {
            0 => {
                let (due, due_restored) = dc.decided_past_deadline(&c, TxPhase::Committing);
                dc.rep.count("deadline:recover()-met-COMMIT-decided-tx-past-its-deadline", due);
                dc.rep.count("deadline:recover()-met-restored-COMMIT-decided-tx-past-its-5s-deadline", due_restored);
                let (due_a, _) = dc.decided_past_deadline(&c, TxPhase::Aborting);
                dc.rep.count("deadline:recover()-met-ABORT-decided-tx-past-its-deadline", due_a);
                let _ = c.recover();
                dc.trace.push("recover".into());
                dc.note_decisions(&c);
            }
            1 => {
                let (due, _) = dc.decided_past_deadline(&c, TxPhase::Committing);
                dc.rep.count("deadline:sweep-met-COMMIT-decided-tx-past-its-deadline", due);
                let swept = c.cleanup_timeouts();
                let queued = c.take_pending_aborts();
                dc.trace.push(format!("sweep->{:?}", swept.iter().map(|t| dc.names.n(*t)).collect::<Vec<_>>()));
                for t in swept {
                    dc.completed(&c, t, TxOutcome::Aborted, "cleanup_timeouts()");
                }
                for (t, _, _) in queued {
                    let committed = dc.done.get(&t).map(|d| d.0) == Some(TxOutcome::Committed);
                    if committed || (dc.handed.get(&t) == Some(&TxPhase::Committing) && !dc.done.contains_key(&t)) {
                        let n = dc.names.n(t);
                        dc.push("handed-out-decision-reversed:COMMIT-then-abort-broadcast-queued".into(), format!("{}: COMMIT was handed out for it by the restarted coordinator; afterwards an abort broadcast is queued for it", n));
                    }
                }
            }
            2 => {
                let ok = c.abort(tx, "late abort").is_ok();
                dc.trace.push(format!("abort({})->{}", n, ok));
                if ok {
                    dc.completed(&c, tx, TxOutcome::Aborted, "abort()");
                }
            }
            3 => {
                let ok = c.complete_abort(tx).is_ok();
                dc.trace.push(format!("complete_abort({})->{}", n, ok));
                if ok {
                    dc.completed(&c, tx, TxOutcome::Aborted, "complete_abort()");
                }
            }
            4 => {
                let ok = c.commit(tx).is_ok();
                dc.trace.push(format!("commit({})->{}", n, ok));
                if ok {
                    dc.completed(&c, tx, TxOutcome::Committed, "commit()");
                }
            }
            5 => {
                let ok = c.complete_commit(tx).is_ok();
                dc.trace.push(format!("complete_commit({})->{}", n, ok));
                if ok {
                    dc.completed(&c, tx, TxOutcome::Committed, "complete_commit()");
                }
            }
            6 => {
                dc.trace.push("decisions".into());
                dc.note_decisions(&c);
            }
            _ => {
                if let Err(e) = c.recover_from_wal() {
                    dc.push("recovery-error".into(), format!("recover_from_wal on the running coordinator failed: {}", e));
                } else {
                    dc.trace.push("recover_from_wal".into());
                }
            }
        }
    }
    dc.note_decisions(&c);

    // ---------------- "can be driven to completion": every decided transaction completes as decided
    // (a third is left for the next restart), the others are completed one way or the other
    let mut left_decided: Vec<(u64, TxPhase)> = Vec::new();
    for (tx, _) in all.clone() {
        if dc.done.contains_key(&tx) {
            continue;
        }
        let n = dc.names.n(tx);
        match dc.handed.get(&tx).copied() {
            Some(h) => {
                if rng.chance(1, 3) {
                    left_decided.push((tx, h));
                    continue;
                }
                let (res, how, o) = if h == TxPhase::Committing {
                    (c.complete_commit(tx), "complete_commit()", TxOutcome::Committed)
                } else {
                    (c.complete_abort(tx), "complete_abort()", TxOutcome::Aborted)
                };
                dc.trace.push(format!("{}({})->{}", how.trim_end_matches("()"), n, res.is_ok()));
                match res {
                    Ok(()) => {
                        dc.rep.count("deadline:decided-tx-driven-to-completion", 1);
                        dc.completed(&c, tx, o, how);
                    }
                    Err(e) => dc.push(
                        format!("decided-tx-not-completable:{}", decision_name(h)),
                        format!("{}: the restarted coordinator handed {} out for it, but {} fails: {} (now: {:?})", n, decision_name(h), how, e, c.get(tx).map(|t| t.phase)),
                    ),
                }
            }
            None => match c.get(tx).map(|t| t.phase) {
                Some(TxPhase::Prepared) if rng.bool() => {
                    if c.commit(tx).is_ok() {
                        dc.trace.push(format!("commit({})->true", n));
                        dc.completed(&c, tx, TxOutcome::Committed, "commit()");
                    }
                }
                Some(_) => {
                    if c.abort(tx, "client").is_ok() {
                        dc.trace.push(format!("abort({})->true", n));
                        dc.completed(&c, tx, TxOutcome::Aborted, "abort()");
                    }
                }
                None => {}
            },
        }
    }
    drop(c);

    // ---------------- the next crash and restart: decisions and completions of epoch 1 stay
    let Some(c2) = restart(&mut dc, t_ms) else {
        let nt = !dc.handed.is_empty();
        finish(dc, nt);
        return;
    };
    if rng.bool() {
        let _ = c2.recover();
        dc.trace.push("recover".into());
    }
    let d2: HashMap<u64, TxPhase> = c2.get_pending_decisions().into_iter().collect();
    for (tx, h) in left_decided {
        let n = dc.names.n(tx);
        let now = c2.get(tx).map(|t| t.phase);
        dc.rep.count("deadline:checked:decided-tx-after-next-restart", 1);
        if h == TxPhase::Committing {
            if now != Some(TxPhase::Committing) || d2.get(&tx) != Some(&TxPhase::Committing) {
                dc.push(
                    format!("handed-out-decision-reversed:COMMIT-then-{}-after-next-restart", now.map(|p| format!("{:?}", p)).unwrap_or_else(|| "forgotten".into())),
                    format!("{}: the restarted coordinator handed COMMIT out for it (the decision is logged before it is handed out) and did not complete it; after the next restart it is {:?}", n, now),
                );
            } else if let Err(e) = c2.complete_commit(tx) {
                dc.push("decided-tx-not-completable:COMMIT".into(), format!("{}: COMMIT handed out before the last restart, complete_commit() after it fails: {}", n, e));
            } else {
                dc.rep.count("deadline:decided-tx-driven-to-completion", 1);
            }
        } else if now == Some(TxPhase::Committing) || d2.get(&tx) == Some(&TxPhase::Committing) {
            dc.push("handed-out-decision-reversed:ABORT-then-Committing-after-next-restart".into(), format!("{}: the restarted coordinator handed ABORT out for it; after the next restart (and recover()) it is Committing", n));
        }
    }
    for (tx, (o, how)) in dc.done.clone() {
        let n = dc.names.n(tx);
        dc.rep.count("deadline:checked:completed-tx-after-next-restart", 1);
        if let Some(t) = c2.get(tx) {
            dc.push(
                format!("completed-tx-pending-again:{:?}-as-{:?}", o, t.phase),
                format!("{} was completed as {:?} by the restarted coordinator ({} returned it); after the next restart it is pending in phase {:?}", n, o, how, t.phase),
            );
        }
        let reversed = match o {
            TxOutcome::Committed => c2.abort(tx, "late abort").is_ok() || c2.complete_abort(tx).is_ok(),
            _ => c2.commit(tx).is_ok() || c2.complete_commit(tx).is_ok(),
        };
        if reversed {
            dc.push(
                format!("{}:after-next-restart", if o == TxOutcome::Committed { "logged-commit-reversed:abort-accepted" } else { "logged-abort-reversed:commit-accepted" }),
                format!("{} was completed as {:?} by the restarted coordinator ({}); after the next restart the opposite completion call succeeded", n, o, how),
            );
        }
    }
    let nt = !dc.handed.is_empty();
    finish(dc, nt);
}

/// `c13 witness`: the two defects found on the pinned tree as hand-written minimal sequences
/// against the real code (prints what happens; no oracle involved).
fn witness(args: &Args) {
    let yes = |h: u64| PrepareVote::Yes { lock_handle: h, delta: DeltaVector::zero(DIM) };
    let who = "coord".to_string();
    for cut in [3usize, 0] {
        let dir = args.scratch_dir("c13w");
        let path = dir.join("tx.wal");
        println!("--- torn tail then append: log cut {} bytes before its end{}", cut, if cut == 0 { " (control: no torn record)" } else { "" });
        {
            let c = new_coordinator(TxWal::open(&path).unwrap());
            let t0 = c.begin(&who, &[0, 1]).unwrap().tx_id;
            println!("epoch 0: begin(t0) vote s0 yes -> {:?}; vote s1 yes -> {:?}", c.record_vote(t0, 0, yes(11)), c.record_vote(t0, 1, yes(12)));
        }
        let bytes = std::fs::read(&path).unwrap();
        std::fs::write(&path, &bytes[..bytes.len() - cut]).unwrap();
        println!("crash: {} of {} bytes survive (the PhaseChange->Prepared record is {})", bytes.len() - cut, bytes.len(), if cut == 0 { "complete" } else { "torn" });
        let t1;
        {
            let c = new_coordinator(TxWal::open(&path).unwrap());
            println!("epoch 1: recover_from_wal -> {:?}", c.recover_from_wal().map(|s| (s.pending_prepare, s.pending_commit, s.pending_abort)));
            t1 = c.begin(&who, &[0, 1]).unwrap().tx_id;
            let a = c.record_vote(t1, 0, yes(21));
            let b = c.record_vote(t1, 1, yes(22));
            println!("epoch 1: begin(t1) votes -> {:?} {:?}; commit(t1) -> {:?}  (acknowledged: TxComplete(Committed) was appended and fsynced)", a, b, c.commit(t1));
        }
        {
            let c = new_coordinator(TxWal::open(&path).unwrap());
            println!("epoch 2: recover_from_wal -> {:?}", c.recover_from_wal().map(|s| (s.pending_prepare, s.pending_commit, s.pending_abort)).map_err(|e| e.to_string()));
            println!("epoch 2: get(t1) -> {:?}", c.get(t1).map(|t| t.phase));
        }
    }
    {
        let dir = args.scratch_dir("c13w");
        let path = dir.join("tx.wal");
        println!("--- torn record header then append: a logged commit is forgotten and can be reversed");
        let t0;
        {
            let c = new_coordinator(TxWal::open(&path).unwrap());
            t0 = c.begin(&who, &[0, 1]).unwrap().tx_id;
            println!("epoch 0: t0 votes -> {:?} {:?}", c.record_vote(t0, 0, yes(11)), c.record_vote(t0, 1, yes(12)));
            let before = file_len(&path);
            let _ = c.begin(&who, &[0, 1]);
            let bytes = std::fs::read(&path).unwrap();
            std::fs::write(&path, &bytes[..before + 2]).unwrap();
            println!("crash while TxBegin(t1) is being written: 2 bytes of its header survive ({} bytes)", before + 2);
        }
        {
            let c = new_coordinator(TxWal::open(&path).unwrap());
            println!("epoch 1: recover_from_wal -> {:?}; t0 is {:?}", c.recover_from_wal().map(|s| s.pending_prepare).map_err(|e| e.to_string()), c.get(t0).map(|t| t.phase));
            println!("epoch 1: commit(t0) -> {:?}  (TxComplete(t0, Committed) appended and fsynced)", c.commit(t0));
        }
        {
            let c = new_coordinator(TxWal::open(&path).unwrap());
            println!("epoch 2: recover_from_wal -> {:?}; t0 is {:?}", c.recover_from_wal().map(|s| s.pending_prepare).map_err(|e| e.to_string()), c.get(t0).map(|t| t.phase));
            println!("epoch 2: abort(t0) -> {:?}", c.abort(t0, "late abort"));
        }
    }
    {
        let dir = args.scratch_dir("c13w");
        let path = dir.join("tx.wal");
        println!("--- a vote the coordinator rejected replaces the accepted one after restart");
        let t0;
        {
            let c = new_coordinator(TxWal::open(&path).unwrap());
            t0 = c.begin(&who, &[0, 1]).unwrap().tx_id;
            println!("vote s0 yes(handle 11) -> {:?}", c.record_vote(t0, 0, yes(11)));
            println!("vote s1 yes(handle 12) -> {:?}", c.record_vote(t0, 1, yes(12)));
            println!("late duplicate vote s1 no -> {:?}", c.record_vote(t0, 1, PrepareVote::No { reason: "prepare timeout".into() }));
            println!("before the crash: {:?}", votes_of(&c, t0));
        }
        let c = new_coordinator(TxWal::open(&path).unwrap());
        println!("restart: recover_from_wal -> {:?}", c.recover_from_wal().map(|s| s.pending_prepare).map_err(|e| e.to_string()));
        println!("after the restart: {:?}", votes_of(&c, t0));
        let r = c.recover();
        println!("recover() -> pending_commit {} pending_abort {}; phase now {:?}", r.pending_commit, r.pending_abort, c.get(t0).map(|t| t.phase));
    }
    {
        // not judged by the check (complete_abort logs nothing, so no *logged* completion exists);
        // shown because the consequence equals the one of an unlogged timeout
        let dir = args.scratch_dir("c13w");
        let path = dir.join("tx.wal");
        println!("--- recover() times a prepared transaction out in memory, complete_abort() finishes it, nothing is logged");
        let t0;
        {
            let c = new_coordinator(TxWal::open(&path).unwrap()); // deadline 0 ms
            t0 = c.begin(&who, &[0, 1]).unwrap().tx_id;
            println!("epoch 0: votes -> {:?} {:?}", c.record_vote(t0, 0, yes(11)), c.record_vote(t0, 1, yes(12)));
            std::thread::sleep(Duration::from_millis(3));
            let r = c.recover();
            println!("epoch 0: recover() -> timed_out {}; get_pending_decisions -> {:?}", r.timed_out, c.get_pending_decisions().iter().map(|(_, p)| *p).collect::<Vec<_>>());
            println!("epoch 0: (ABORT broadcast) complete_abort(t0) -> {:?}; log is {} bytes", c.complete_abort(t0), file_len(&path));
        }
        let c = new_coordinator(TxWal::open(&path).unwrap());
        println!("epoch 1: recover_from_wal -> {:?}; t0 is {:?}", c.recover_from_wal().map(|s| s.pending_prepare).map_err(|e| e.to_string()), c.get(t0).map(|t| t.phase));
        let r = c.recover();
        println!("epoch 1: recover() -> pending_commit {}; get_pending_decisions -> {:?}; complete_commit(t0) -> {:?}", r.pending_commit, c.get_pending_decisions().iter().map(|(_, p)| *p).collect::<Vec<_>>(), c.complete_commit(t0));
    }
}

/// `c13 child-ack <dir> <seed> <mode>`: run under strace by the syscall-order leg. Every call that
/// acknowledges a durable state change is followed at once by an `ACK n what` line on fd 1.
fn child_ack(dir: &str, seed: u64) {
    use std::io::Write;
    let path = Path::new(dir).join("tx.wal");
    let c = new_coordinator(TxWal::open(&path).expect("open wal"));
    let mut rng = Rng::new(seed);
    let mut n = 0u64;
    let mut ack = |what: &str| {
        n += 1;
        let mut o = std::io::stdout().lock();
        let _ = writeln!(o, "ACK {} {}", n, what);
        let _ = o.flush();
    };
    let who = "coord".to_string();
    let mut txs: Vec<(u64, Vec<usize>)> = Vec::new();
    for _ in 0..(20 + rng.below(30)) {
        match rng.weighted(&[3, 8, 3, 2, 1]) {
            0 => {
                let parts = if rng.bool() { vec![0usize, 1] } else { vec![0usize, 1, 2] };
                if let Ok(t) = c.begin(&who, &parts) {
                    ack("begin");
                    txs.push((t.tx_id, parts));
                }
            }
            1 if !txs.is_empty() => {
                let (tx, parts) = txs[txs.len() - 1 - rng.below(txs.len().min(2))].clone();
                let shard = *rng.pick(&parts);
                let vote = if rng.chance(1, 6) {
                    PrepareVote::No { reason: "no".into() }
                } else {
                    PrepareVote::Yes { lock_handle: 1000 + rng.below(1000) as u64, delta: DeltaVector::zero(DIM) }
                };
                if c.record_vote(tx, shard, vote).is_ok() {
                    ack("vote");
                }
            }
            2 if !txs.is_empty() => {
                let tx = txs[rng.below(txs.len())].0;
                if c.commit(tx).is_ok() {
                    ack("commit");
                }
            }
            3 if !txs.is_empty() => {
                let tx = txs[rng.below(txs.len())].0;
                if c.abort(tx, "client").is_ok() {
                    ack("abort");
                }
            }
            _ => {
                let t = h_chain::CaptureTransport::new("coord", &[]);
                let _ = block_on(c.process_pending_aborts(&*t));
            }
        }
    }
}

/// non-vacuity of the deadline part
fn deadline_floors(args: &Args) -> Vec<(&'static str, u64)> {
    let _ = args;
    vec![
        ("deadline:cases", 300),
        ("deadline:cases-with-5.1s-wait", 8),
        ("deadline:decision-handed-out:COMMIT", 300),
        ("deadline:decision-handed-out:ABORT", 30),
        // a recovery call / a sweep that meets a COMMIT-decided transaction whose deadline is over
        ("deadline:recover()-met-COMMIT-decided-tx-past-its-deadline", 100),
        ("deadline:recover()-met-restored-COMMIT-decided-tx-past-its-5s-deadline", 5),
        ("deadline:sweep-met-COMMIT-decided-tx-past-its-deadline", 100),
        ("deadline:decided-tx-driven-to-completion", 200),
        ("deadline:checked:decided-tx-after-next-restart", 50),
        // completions of transactions that hold several lock sets, one of them without a recorded vote
        ("deadline:checked:no-locks-after-completion-of-tx-with-several-lock-sets", 200),
        ("deadline:checked:completed-tx-had-earlier-lock-set-without-recorded-vote", 100),
    ]
}

fn main() {
    let args = Args::parse();
    if args.rest.first().map(|s| s.as_str()) == Some("child-ack") {
        let dir = args.rest.get(1).cloned().unwrap_or_default();
        let seed = args.rest.get(2).and_then(|s| s.parse().ok()).unwrap_or(1);
        child_ack(&dir, seed);
        return;
    }
    if args.rest.iter().any(|a| a == "witness") {
        witness(&args);
        return;
    }
    let started = Instant::now();
    // `--only-deadline 1`: run only the deadline part (with the floors of that part)
    let only_deadline = args.extra_u64("only-deadline", 0) != 0;
    JUDGE_COMPLETE_CALLS.store(args.extra_u64("judge-complete-calls", 1) != 0, std::sync::atomic::Ordering::Relaxed);
    quiet_panics();
    let mut total = Report::new();
    total.max_samples = 6;

    if let Some(p) = &args.replay {
        let v: Value = serde_json::from_str(&std::fs::read_to_string(p).expect("replay file")).expect("json");
        let rp = if v.get("replay").is_some() { &v["replay"] } else { &v };
        let seed = rp["case_seed"].as_u64().expect("case_seed");
        if rp["part"].as_str() == Some("deadline") {
            run_deadline_case(&args, seed, rp["long"].as_bool().unwrap_or(false), &mut total);
        } else {
            run_case(&args, seed, &mut total);
        }
    } else {
        let n = args.by_tier(2_500u64, 60_000u64);
        let a = args.clone();
        // the deadline part mostly sleeps (its cases wait for deadlines to pass): it runs beside the
        // main part on its own threads; the cases with the 5.1 s wait come first, all at once
        let (n_long, n_short) = (args.by_tier(32u64, 480u64), args.by_tier(1_600u64, 60_000u64));
        let d_threads = args.by_tier(40usize, 56usize);
        let d_budget = args.budget(45, 600);
        let d_seed = hash_combine(args.seed, 0xD11E);
        let a2 = args.clone();
        let (rep, drep) = std::thread::scope(|sc| {
            let h = sc.spawn(move || par_cases(d_threads, d_seed, n_long + n_short, d_budget, move |i, s, r| run_deadline_case(&a2, s, i < n_long, r)));
            let rep = if only_deadline { Report::new() } else { par_cases(args.threads, args.seed, n, args.budget(60, 780), move |_i, s, r| run_case(&a, s, r)) };
            (rep, h.join())
        });
        total.merge(rep);
        match drep {
            Ok(r) => total.merge(r),
            Err(_) => total.inconclusive("the deadline part did not finish (harness thread panicked)"),
        }
    }

    let meta = Meta {
        property: "C13",
        rule: "one evaluation = one restart of the real coordinator from a log cut at one byte (every byte length of what each crashed epoch wrote, on a copy; plus the restarts of the chain itself, which continue with new transactions and up to two more crashes). The obligations of a restart come from the harness's own decoding of the durable prefix, from the coordinator's answers to the votes (collected = a vote of every participant accepted) and from the outcomes the coordinator announced before the crash point (commit/abort Ok, timeouts reported by the sweeper). Distinct by the hash of the durable record sequence (transaction indices, not ids) and the offset of the cut inside the torn record; non-trivial if the durable prefix holds at least one transaction that is past vote collection (prepared / committing / aborting / completed), i.e. there is something to preserve. Every restart script also re-delivers messages (votes for completed / forgotten transactions, PREPAREs for restored ones), sweeps before and after the completion calls with all configurable timeouts at 0 ms, tries the opposite completion on decisions it handed out, and ends with a look at the records it appended to the log and at the lock table (key holders, not only the per-transaction index). Deadline part: one evaluation = one restarted coordinator that handed decisions out, answered several PREPAREs per transaction, then saw the deadlines pass (short: the configured 0/20 ms of its own transactions; long: the 5 s of restored ones) followed by a seeded sequence of recovery calls, sweeps and completion calls, and one more restart; distinct by the hash of the call trace, non-trivial if a decision was handed out.",
        assumptions: vec![
            "a crash is a process crash: the file is a prefix of what was written; every append is fsynced before the call returns, so each record boundary is an acknowledgement point".into(),
            "a vote counts as collected iff the live coordinator accepted it (record_vote returned Ok); the coordinator logs votes before validating them, so the log also holds rejected votes".into(),
            "timeouts of restored transactions (fresh start time, 5 s) fire only in the few chain restarts in which the harness waits 5.1 s on purpose (a case that is descheduled for 5 s elsewhere merely sees such a timeout earlier; the sweeper's report is taken as it comes, no verdict depends on the clock); completion through complete_commit/complete_abort is not logged by the code and therefore creates no obligation".into(),
            "a completion exists from the moment the coordinator announces it (commit()/abort() return Ok, cleanup_timeouts() returns the transaction and queues its ABORT broadcast); the code's contract is log-before-announce (every append is fsynced before it returns), so every crash at or behind the log length observed right after the announcing call is a crash after a logged completion. The harness does not require a particular record, it only treats the transaction as completed when judging the restart".into(),
            "a transaction has collected all votes iff the live coordinator accepted a vote of every shard in its participant list (TxBegin record); accepted votes of other shards are restored like any accepted vote but never complete a collection".into(),
            "recovery calls are also issued on the running coordinator between further transactions: a transaction that was pending and held coordinator key locks before such a call may be kept or forgotten by it, but if it is forgotten its locks must be gone (only recovery calls are judged this way; late PREPAREs and the timeout sweeper can leave locks of unknown handles behind, which is C12's subject)".into(),
            "a completed transaction found among the pending ones after restart is reported, because the timeout sweeper would abort it 5 s later; the harness does not wait for that".into(),
            "messages delivered again after a restart: every restart script sends votes for transactions that are not pending (completed or forgotten; synthetic lock handles, no locks taken) and PREPAREs for restored ones (through the coordinator's handle_prepare, which takes key locks under a fresh handle; the vote is refused). Only what the statement names is judged on them: a completed outcome stays (no abort broadcast for a committed transaction, no completion record of the opposite outcome appended to the log), and a transaction the coordinator then completes holds no key lock afterwards. What such a vote does for a forgotten transaction is not judged".into(),
            "a decision get_pending_decisions() of the restarted coordinator handed out (COMMIT for Committing, ABORT for Aborting) is taken as an announced outcome, like a completion a call returned: the sweeper and the opposite completion calls must leave it alone (signatures handed-out-decision-reversed:*). This is the reading under which the statement's 'never afterwards aborted or timed out' reaches a transaction whose COMMIT is logged as a phase change but whose completion record is missing; a timeout of a restored transaction that is still undecided (Prepared) remains a legitimate completion".into(),
            "all coordinators of a case share one configuration: prepare timeout 0 ms, commit timeout 0 ms in three quarters of the cases and the default (10 s) in the rest; the harness sleeps 1.1 ms before a sweep of a restarted coordinator that has pending transactions so that a 0 ms deadline is over (restored transactions get 5 s from the code, which only the late sweeps wait out; in the thorough tier some late sweeps wait out the default commit timeout as well)".into(),
            "deadline part: a decision handed out by get_pending_decisions() of a restarted coordinator is final for restored and for further transactions alike (same reading as above; the code logs the decision before it hands it out), so the transaction must stay completable as decided through every later recover()/sweep, however long its completion takes, and must come back in the decided phase after the next restart. Whether a deadline has passed is read from the transaction's own is_timed_out() and only counted (floors), never judged; a case that is descheduled merely meets other states. A coordinator key lock counts as held by a transaction if lock_holder(key) names it; PREPAREs are only sent for transactions that are pending, each with its own key, and a vote that is not recorded models an answer still on its way when the transaction completes".into(),
            "violations observed on a log that contains a torn record followed by appended records are attributed to that defect (signature torn-tail-then-append:*) unless the same signature also arises when the restart is judged against the log cut at the torn record (what a reader that cannot skip it sees)".into(),
        ],
        floors: if args.replay.is_some() {
            vec![]
        } else if only_deadline {
            deadline_floors(&args)
        } else {
            let mut fl = vec![
                ("crash_images", 20_000),
                ("images_inside_a_record", 10_000),
                ("images_at_record_boundary", 1_000),
                ("chain_restarts", 100),
                ("checked:completed", 5_000),
                ("checked:all-votes-no-outcome", 500),
                ("checked:collecting", 2_000),
                ("driven_to_completion", 200),
                ("hostile:abort-after-logged-commit", 200),
                ("hostile:commit-after-logged-abort", 500),
                ("chain_crashes_with_torn_tail", 30),
                ("live_lock_holders_across_recovery_calls", 100),
                ("op:vote-from-non-participant", 300),
                ("op:vote-with-reused-handle-value", 1_000),
                ("checked:unreleased-locks-after-commit", 200),
                ("checked:unreleased-locks-after-abort", 2_000),
                ("checked:completed-after-restart-across-later-recovery-call", 500),
                // outcomes the live coordinator announced, judged after crashes behind the announcement
                ("announced:commit()", 40),
                ("announced:abort()", 400),
                ("announced:cleanup_timeouts()", 300),
                ("checked:announced-outcome-after-crash", 100_000),
                ("checked:announced-outcome-after-crash:cleanup_timeouts()", 30_000),
                ("checked:announced-outcome-of-tx-logged-Prepared", 10_000),
                ("live_phase_changes_by_recover()", 200),
                ("announced:timeout-of-tx-logged-Prepared-and-Aborting-in-memory", FLOOR_UNLOGGED_PHASE),
                // collections that a vote of a non-participant would have completed by count
                ("checked:collecting-with-as-many-yes-votes-as-participants", 2_000),
                // restored transactions really timed out by the sweeper (5.1 s waits)
                ("restored_tx_timed_out_after_restart", 1),
                // messages delivered again after the restart, and what was looked at afterwards
                ("redelivery:yes-vote-for-committed-tx", 5_000),
                ("redelivery:vote-for-aborted-tx", 50_000),
                ("redelivery:restored-tx-holds-fresh-locks", 20_000),
                ("checked:records-appended-by-restart-script", 100_000),
                ("checked:no-locks-after-live-completion-on-restarted-coordinator", 100),
                ("op:late-yes-vote-for-committed-tx", FLOOR_LIVE_LATE_VOTE),
                ("abort_messages_seen", 200),
                // decisions handed out by the restarted coordinator, then the opposite call / a sweep
                ("hostile:abort-after-COMMIT-handed-out", 3_000),
                ("hostile:commit-after-ABORT-handed-out", 500),
                ("early_sweeps_after_restart", 10_000),
                ("sweeps_after_restart_with_0ms_deadlines_over", 5_000),
                ("decided_tx_pending_at_sweep_with_0ms_deadlines_over", FLOOR_DECIDED_AT_SWEEP),
                ("cases_with_commit_timeout_0", 200),
                ("cases_with_default_commit_timeout", 50),
                ("redelivery:restored-tx-holds-several-fresh-lock-sets", 5_000),
            ];
            fl.extend(deadline_floors(&args));
            fl
        },
        exhaustive: false,
    };
    write_result(&args, &meta, &total, started);
}
