//! C03 — two-phase commit: every participant reaches the coordinator's one decision.
//!
//! What runs: one real `DistributedTxCoordinator` and 2–3 real `TxParticipant`s (each over its own
//! real `TensorStore`). The harness is only the network and the clock between them:
//!
//!  sim      : a seeded message-level simulation. Prepare / vote / commit / abort messages sit in a
//!             bag; the scheduler delivers any of them (reordering), delivers and keeps a copy
//!             (duplication), drops them (loss), re-sends them, begins further transactions, fires
//!             the coordinator's timeout sweep (`prepare_timeout_ms = 0`, so a sweep = a timeout
//!             event), lets a client abort, and lets the driver try to commit at any moment — also
//!             transactions that are not prepared. At the end everything in flight is delivered and
//!             decisions are re-sent until acknowledged (quiescence).
//!  threaded : 2–4 OS threads drive the same objects (one thread per transaction following the
//!             protocol, plus chaos threads issuing aborts, commits, sweeps, duplicate votes and
//!             duplicate prepares); oracle at quiescence. This is the workload of the TSan leg.
//!
//!             A PREPARE may also reach a shard outside the participant list (mis-routed or
//!             mis-addressed duplicate); that shard prepares and answers with its own id. Two thirds
//!             of the threaded cases use large transactions (hundreds of writes to own keys around
//!             the contended ones), a network thread keeps re-delivering PREPAREs and the ABORTs
//!             behind them; in three quarters of them a participant handles the messages of one
//!             transaction one at a time (different transactions run side by side), in the rest
//!             everything is concurrent.
//!  walfault : the sim schedule with a coordinator that logs to a real `TxWal` whose size limit is
//!             a seeded number of bytes (rotation off), so that from some point on begin / vote /
//!             commit / abort records are refused; at a seeded event the coordinator crashes, a new
//!             one recovers from the log (which has room again), settles the in-doubt transactions
//!             (`get_pending_decisions` + `complete_*`), and the schedule continues on it. A call
//!             that fails is never announced (decisions are only sent after Ok). Extra clause: a
//!             decision announced before the crash is the decision after it.
//!  persist  : the sim schedule with persistence through the public save/load interface. The
//!             coordinator writes its state through to a store (`save_to_store` after every event)
//!             and is restarted from it (`load_from_store` + `recover()`), sometimes after an outage
//!             longer than the prepare timeout (12 ms in this part); what `get_pending_decisions()`
//!             lists afterwards is handed out (Committing = COMMIT, Aborting = ABORT) and completed
//!             later by `complete_commit` / `complete_abort`. Participants are restarted in the
//!             middle of the protocol from their own `save_to_store` / `load_from_store` state, and
//!             a 35 ms pause (far below the 30 s lock lifetime) can delay everything. Same clauses;
//!             a decision handed out before a restart must be the decision after it.
//!  burst    : part of the threaded mode: duplicates of one PREPARE and its ABORT released by a
//!             barrier on one participant, then a second transaction commits on the same key and
//!             the first abort is delivered again. Further burst parts: duplicates of a PREPARE
//!             during the COMMIT of the same transaction; the PREPARE of another transaction
//!             during a COMMIT; and the rollback of an aborted transaction T1 on a shard (ABORT,
//!             duplicate ABORTs, the stale sweep) at the same moment as the re-delivered PREPARE
//!             and the COMMIT of a transaction T2 that overlaps T1 on keys of that shard and also
//!             commits on a second shard — T2's writes must survive on both shards, every other
//!             key of T1 must be its pre-image.
//!
//! Oracle, clause by clause of the statement (nothing else is demanded):
//!  (a) the decision events of one transaction (`commit` Ok, `abort` Ok, listed by
//!      `cleanup_timeouts`, `record_vote` => Aborting, listed by `take_pending_aborts`) never
//!      disagree; a commit decision needs an accepted yes vote of every participant and no accepted
//!      non-yes vote.
//!  (b) every written value is unique per (transaction, shard, operation), so a value found in a
//!      shard names its writer: that writer's decision must be commit. Checked after every
//!      participant call against a per-shard reference state = pre-image + the operations of the
//!      transactions whose `TxParticipant::commit` reported success, in that order.
//!  (c) at quiescence every yes-voting shard of a committed transaction has reported a successful
//!      `TxParticipant::commit` (re-delivery of an applied commit is not judged).
//!  (c') at quiescence a key written on a shard by committed transactions that were applied there
//!      holds what one of them left (their order is not judged) — "no participant discards them".
//!  (d) aborted / timed-out transactions leave data as it was: `TxParticipant::abort` never changes
//!      the shard's store (writes are applied at commit only, so whatever abort changes belongs to
//!      somebody else), none of their values is visible, and keys touched only by non-committed
//!      transactions equal their pre-image.

use common::*;
use parking_lot::Mutex;
use serde_json::{json, Value};
use std::collections::{BTreeMap, BTreeSet};
use std::sync::Arc;
use std::time::{Duration, Instant};
use tensor_chain::block::Transaction;
use tensor_chain::consensus::ConsensusManager;
use tensor_chain::distributed_tx::{
    DistributedTxConfig, DistributedTxCoordinator, PrepareRequest, PrepareVote, TxParticipant, TxPhase,
};
use tensor_store::{ScalarValue, SparseVector, TensorData, TensorStore, TensorValue};

const DIM: usize = 4;

// ------------------------------------------------------------------------------------------------
// data: tagged values, snapshots, reference state
// ------------------------------------------------------------------------------------------------

type Shot = BTreeMap<String, String>; // storage key -> tag of the value stored there

fn tag_of(d: &TensorData) -> String {
    for f in ["data", "values"] {
        if let Some(TensorValue::Scalar(ScalarValue::Bytes(b))) = d.get(f) {
            return String::from_utf8_lossy(b).to_string();
        }
    }
    if let Some(TensorValue::Scalar(ScalarValue::String(s))) = d.get("_label") {
        return s.clone();
    }
    format!("?{:?}", d.keys().collect::<Vec<_>>())
}

fn snapshot(store: &TensorStore) -> Shot {
    let mut m = Shot::new();
    for k in store.scan("") {
        if k.starts_with("_dtx:") {
            continue; // the participant's own persisted protocol state, not shard data
        }
        if let Ok(d) = store.get(&k) {
            m.insert(k, tag_of(&d));
        }
    }
    m
}

/// transaction index encoded in a tag ("t3:s1:0")
fn tag_tx(tag: &str) -> Option<usize> {
    let rest = tag.strip_prefix('t')?;
    rest.split(':').next()?.parse().ok()
}

/// where an operation lands in the store and what is found there afterwards (None = key removed)
fn effect(op: &Transaction) -> Option<(String, Option<String>)> {
    match op {
        Transaction::Put { key, data } => Some((key.clone(), Some(String::from_utf8_lossy(data).to_string()))),
        Transaction::Delete { key } => Some((key.clone(), None)),
        Transaction::NodeCreate { key, label } => Some((format!("node:{}", key), Some(label.clone()))),
        Transaction::NodeDelete { key } => Some((format!("node:{}", key), None)),
        Transaction::TableInsert { table, values } => Some((format!("table:{}", table), Some(String::from_utf8_lossy(values).to_string()))),
        _ => None,
    }
}

fn apply_ref(state: &mut Shot, ops: &[Transaction]) {
    for op in ops {
        if let Some((k, v)) = effect(op) {
            match v {
                Some(t) => {
                    state.insert(k, t);
                }
                None => {
                    state.remove(&k);
                }
            }
        }
    }
}

fn op_name(op: &Transaction) -> String {
    match op {
        Transaction::Put { key, .. } => format!("Put({})", key),
        Transaction::Delete { key } => format!("Delete({})", key),
        Transaction::NodeCreate { key, .. } => format!("NodeCreate({})", key),
        Transaction::NodeDelete { key } => format!("NodeDelete({})", key),
        Transaction::TableInsert { table, .. } => format!("TableInsert({})", table),
        _ => "?".to_string(),
    }
}

// ------------------------------------------------------------------------------------------------
// the plan of one case
// ------------------------------------------------------------------------------------------------

#[derive(Clone)]
struct TxPlan {
    participants: Vec<usize>,
    ops: BTreeMap<usize, Vec<Transaction>>,
}

struct Plan {
    shards: usize,
    init: Vec<Shot>,
    txs: Vec<TxPlan>,
    aliased: bool,
}

fn gen_plan(rng: &mut Rng, max_txs: usize, allow_alias: bool) -> Plan {
    let shards = 2 + rng.below(2);
    let aliased = allow_alias && rng.chance(1, 6);
    let plain_keys = ["k0", "k1", "k2", "k3"];
    let mut init = Vec::new();
    for _s in 0..shards {
        let mut m = Shot::new();
        for k in plain_keys {
            if rng.bool() {
                m.insert(k.to_string(), format!("init:{}", k));
            }
        }
        if aliased && rng.bool() {
            m.insert("node:n0".to_string(), "init:node:n0".to_string());
        }
        init.push(m);
    }
    let ntx = 1 + rng.below(max_txs);
    // few keys => overlap; many => disjoint
    let pool = 1 + rng.below(4);
    let mut txs = Vec::new();
    for i in 0..ntx {
        let mut parts: Vec<usize> = (0..shards).collect();
        rng.shuffle(&mut parts);
        parts.truncate(if rng.chance(1, 8) { 1 } else { 2 + rng.below(shards - 1) }.min(shards));
        parts.sort();
        let mut ops = BTreeMap::new();
        for &s in &parts {
            let n = 1 + rng.below(2);
            let mut v = Vec::new();
            for j in 0..n {
                let tag = format!("t{}:s{}:{}", i, s, j);
                let op = if aliased && rng.chance(1, 2) {
                    match rng.below(5) {
                        0 => Transaction::NodeCreate { key: "n0".to_string(), label: tag },
                        1 => Transaction::Put { key: "node:n0".to_string(), data: tag.into_bytes() },
                        2 => Transaction::NodeDelete { key: "n0".to_string() },
                        3 => Transaction::TableInsert { table: "tb".to_string(), values: tag.into_bytes() },
                        _ => Transaction::Put { key: "table:tb".to_string(), data: tag.into_bytes() },
                    }
                } else {
                    let key = plain_keys[rng.below(pool)].to_string();
                    if rng.chance(1, 5) {
                        Transaction::Delete { key }
                    } else {
                        Transaction::Put { key, data: tag.into_bytes() }
                    }
                };
                v.push(op);
            }
            ops.insert(s, v);
        }
        txs.push(TxPlan { participants: parts, ops });
    }
    Plan { shards, init, txs, aliased }
}

fn plan_json(p: &Plan) -> Value {
    json!({
        "shards": p.shards,
        "aliased_keys": p.aliased,
        "pre_image": p.init,
        "txs": p.txs.iter().enumerate().map(|(i, t)| json!({
            "tx": format!("t{}", i),
            "ops": t.ops.iter().map(|(s, v)| (format!("s{}", s), if v.len() <= 8 {
                v.iter().map(op_name).collect::<Vec<_>>()
            } else {
                // large transaction: the filler writes are only counted
                let mut d: Vec<String> = v.iter().filter(|op| !op_name(op).starts_with("Put(f")).map(op_name).collect();
                d.push(format!("+{} filler writes to own keys", v.len() - d.len()));
                d
            })).collect::<BTreeMap<_, _>>(),
        })).collect::<Vec<_>>(),
    })
}

fn build_world(plan: &Plan) -> (DistributedTxCoordinator, Vec<TxParticipant>) {
    let cfg = DistributedTxConfig { prepare_timeout_ms: 0, ..DistributedTxConfig::default() };
    let coord = DistributedTxCoordinator::new(ConsensusManager::default_config(), cfg);
    let mut parts = Vec::new();
    for s in 0..plan.shards {
        let store = TensorStore::new();
        for (k, tag) in &plan.init[s] {
            let mut d = TensorData::new();
            d.set("data", TensorValue::Scalar(ScalarValue::Bytes(tag.clone().into_bytes())));
            let _ = store.put(k.clone(), d);
        }
        parts.push(TxParticipant::new(store));
    }
    (coord, parts)
}

fn prepare_request(id: u64, ops: &[Transaction]) -> PrepareRequest {
    PrepareRequest {
        tx_id: id,
        coordinator: "coord".to_string(),
        operations: ops.to_vec(),
        delta_embedding: SparseVector::new(DIM),
        timeout_ms: 5000,
    }
}

// ------------------------------------------------------------------------------------------------
// the decision log and the per-transaction observations (shared by both modes)
// ------------------------------------------------------------------------------------------------

#[derive(Clone, Copy, PartialEq, Eq, Debug)]
enum Dec {
    Commit,
    Abort,
}

#[derive(Default, Clone)]
struct TxObs {
    id: Option<u64>,
    decisions: Vec<(Dec, &'static str)>,
    accepted: BTreeMap<usize, Vec<bool>>, // shard -> accepted votes (true = yes)
    ready: bool,                          // record_vote returned Prepared
    applied: BTreeSet<usize>,             // shards whose TxParticipant::commit reported success
    commit_errors: BTreeMap<usize, String>,
    cast: BTreeMap<usize, PrepareVote>,   // threaded mode: the last vote each participant really cast
}

impl TxObs {
    fn decision(&self) -> Option<Dec> {
        self.decisions.first().map(|d| d.0)
    }
}

struct Found {
    sig: String,
    detail: String,
}

fn observe_decision(obs: &mut [TxObs], plan: &Plan, i: usize, d: Dec, src: &'static str, found: &mut Vec<Found>) {
    let o = &mut obs[i];
    if let Some(&(first, fsrc)) = o.decisions.first() {
        if first != d {
            found.push(Found {
                sig: format!("two-decisions:{:?}-then-{:?}", first, d),
                detail: format!("t{}: decision {:?} observed at `{}`, later {:?} at `{}`", i, first, fsrc, d, src),
            });
        }
    }
    if d == Dec::Commit && o.decisions.iter().all(|x| x.0 != Dec::Commit) {
        for s in &plan.txs[i].participants {
            let v = o.accepted.get(s);
            let ok = v.map(|v| !v.is_empty() && v.iter().all(|y| *y)).unwrap_or(false);
            if !ok {
                found.push(Found {
                    sig: if v.is_none() { "commit-decision-with-missing-vote".to_string() } else { "commit-decision-with-non-yes-vote".to_string() },
                    detail: format!("t{}: commit decided at `{}` but the accepted votes of shard {} are {:?} (participants {:?}, all accepted {:?})", i, src, s, v, plan.txs[i].participants, o.accepted),
                });
            }
        }
    }
    o.decisions.push((d, src));
}

/// compare a shard's store with the reference state; explain a difference in terms of the statement
fn check_shard(shard: usize, store: &TensorStore, reference: &Shot, obs: &[TxObs], after: &str, found: &mut Vec<Found>) {
    let real = snapshot(store);
    if &real == reference {
        return;
    }
    let keys: BTreeSet<&String> = real.keys().chain(reference.keys()).collect();
    for k in keys {
        let (r, m) = (real.get(k), reference.get(k));
        if r == m {
            continue;
        }
        let writer_undecided = r.and_then(|t| tag_tx(t)).filter(|&w| w < obs.len() && obs[w].decision() != Some(Dec::Commit));
        let sig = if let Some(w) = writer_undecided {
            format!("write-visible-without-commit-decision:{}", match obs[w].decision() { Some(Dec::Abort) => "aborted", _ => "undecided" })
        } else if after.starts_with("commit-ok") {
            "commit-acknowledged-but-writes-differ".to_string()
        } else {
            "shard-state-differs-from-applied-commits".to_string()
        };
        found.push(Found {
            sig,
            detail: format!("shard {} key {:?} after {}: store has {:?}, applied commits imply {:?}", shard, k, after, r, m),
        });
        return;
    }
}

/// clauses (b), (c), (d) on the final state
fn final_oracle(plan: &Plan, parts: &[TxParticipant], obs: &[TxObs], found: &mut Vec<Found>) {
    for (i, o) in obs.iter().enumerate() {
        if o.decision() == Some(Dec::Commit) {
            for (s, votes) in &o.accepted {
                if !plan.txs[i].participants.contains(s) {
                    continue; // an answer of a shard that is not a participant is not a participant's vote
                }
                if votes.iter().all(|y| *y) && !votes.is_empty() && !o.applied.contains(s) {
                    found.push(Found {
                        sig: "committed-tx-not-applied-on-yes-voter".into(),
                        detail: format!("t{} committed, shard {} voted yes, but TxParticipant::commit never succeeded there (last answer: {:?}); applied on {:?}", i, s, o.commit_errors.get(s), o.applied),
                    });
                }
            }
        }
    }
    for s in 0..plan.shards {
        let real = snapshot(parts[s].store());
        // (b) every visible value was written by a committed transaction (or is the pre-image)
        for (k, tag) in &real {
            if let Some(w) = tag_tx(tag) {
                if w < obs.len() && obs[w].decision() != Some(Dec::Commit) {
                    found.push(Found {
                        sig: format!("write-visible-without-commit-decision:{}", match obs[w].decision() { Some(Dec::Abort) => "aborted", _ => "undecided" }),
                        detail: format!("final state of shard {}: key {:?} holds {:?} written by t{} whose decision is {:?}", s, k, tag, w, obs[w].decision()),
                    });
                }
            }
        }
        // (d) keys touched only by non-committed transactions equal their pre-image
        let mut touched_committed: BTreeSet<String> = BTreeSet::new();
        let mut touched_other: BTreeSet<String> = BTreeSet::new();
        for (i, t) in plan.txs.iter().enumerate() {
            if let Some(ops) = t.ops.get(&s) {
                for op in ops {
                    if let Some((k, _)) = effect(op) {
                        if obs[i].decision() == Some(Dec::Commit) {
                            touched_committed.insert(k);
                        } else {
                            touched_other.insert(k);
                        }
                    }
                }
            }
        }
        // (c'/d') a key written on this shard by committed transactions holds what one of them left
        // there (their order is not judged): nobody else may have erased or replaced it
        let mut left_by_committed: BTreeMap<String, BTreeSet<Option<String>>> = BTreeMap::new();
        for (i, t) in plan.txs.iter().enumerate() {
            if obs[i].decision() == Some(Dec::Commit) && obs[i].applied.contains(&s) {
                let mut last: BTreeMap<String, Option<String>> = BTreeMap::new();
                for op in t.ops.get(&s).map(|v| v.as_slice()).unwrap_or(&[]) {
                    if let Some((k, v)) = effect(op) {
                        last.insert(k, v);
                    }
                }
                for (k, v) in last {
                    left_by_committed.entry(k).or_default().insert(v);
                }
            }
        }
        for (k, allowed) in &left_by_committed {
            let have = real.get(k).cloned();
            if !allowed.contains(&have) {
                found.push(Found {
                    sig: "committed-write-lost".into(),
                    detail: format!(
                        "final state of shard {}: key {:?} was written by committed transactions that were applied there (they left {:?}), but it holds {:?} (pre-image {:?})",
                        s, k, allowed, have, plan.init[s].get(k)
                    ),
                });
                break;
            }
        }
        for k in touched_other.difference(&touched_committed) {
            if real.get(k) != plan.init[s].get(k) {
                found.push(Found {
                    sig: "key-of-non-committed-tx-differs-from-pre-image".into(),
                    detail: format!("final state of shard {}: key {:?} was touched only by non-committed transactions, pre-image {:?}, now {:?}", s, k, plan.init[s].get(k), real.get(k)),
                });
            }
        }
    }
}

// ------------------------------------------------------------------------------------------------
// sim mode
// ------------------------------------------------------------------------------------------------

#[derive(Clone)]
enum Msg {
    /// `shard` = whose operations the request carries, `to` = the participant it reaches (a
    /// mis-routed or mis-addressed duplicate reaches a shard outside the participant list)
    Prepare { tx: usize, shard: usize, to: usize },
    Vote { tx: usize, shard: usize, vote: PrepareVote },
    Commit { tx: usize, shard: usize },
    Abort { tx: usize, shard: usize },
}

fn msg_name(m: &Msg) -> String {
    match m {
        Msg::Prepare { tx, shard, to } if shard == to => format!("prepare(t{},s{})", tx, shard),
        Msg::Prepare { tx, shard, to } => format!("misrouted-prepare(t{},ops-of-s{},reaches-s{})", tx, shard, to),
        Msg::Vote { tx, shard, vote } => format!("vote(t{},s{},{})", tx, shard, if matches!(vote, PrepareVote::Yes { .. }) { "yes" } else { "no" }),
        Msg::Commit { tx, shard } => format!("commit(t{},s{})", tx, shard),
        Msg::Abort { tx, shard } => format!("abort(t{},s{})", tx, shard),
    }
}

struct Sim<'a> {
    plan: &'a Plan,
    coord: DistributedTxCoordinator,
    parts: Vec<TxParticipant>,
    reference: Vec<Shot>,
    obs: Vec<TxObs>,
    net: Vec<Msg>,
    trace: Vec<String>,
    found: Vec<Found>,
    faults: u64,
    c: BTreeMap<&'static str, u64>,
    /// walfault part: the coordinator logs to a real TxWal that refuses appends from some size on
    wal: Option<WalFault>,
    /// persist part: coordinator state is written through to a store (save_to_store after every
    /// event) and the coordinator / participants are restarted from what they persisted
    persist: Option<Persist>,
    /// decisions handed out by get_pending_decisions() (after a restart, or when the driver polls the
    /// running coordinator), announced, not yet completed
    indoubt: BTreeMap<usize, Dec>,
}

const PERSIST_TIMEOUT_MS: u64 = 12;

struct Persist {
    cstore: TensorStore,
    restarts: u32,
    outages_left: u32,
    delays_left: u32,
    participant_restarts_left: u32,
}

fn persist_config() -> DistributedTxConfig {
    DistributedTxConfig { prepare_timeout_ms: PERSIST_TIMEOUT_MS, ..DistributedTxConfig::default() }
}

struct WalFault {
    path: std::path::PathBuf,
    /// an append has been refused (observed through a call that failed for that reason)
    refusing: bool,
    /// the coordinator has crashed and a new one has recovered from the log
    restarted: bool,
}

fn coordinator_config() -> DistributedTxConfig {
    DistributedTxConfig { prepare_timeout_ms: 0, ..DistributedTxConfig::default() }
}

fn short_src(src: &str) -> &'static str {
    if src.starts_with("commit()") {
        "commit-call"
    } else if src.starts_with("abort()") {
        "abort-call"
    } else if src.contains("cleanup_timeouts") {
        "timeout-sweep"
    } else if src.contains("take_pending_aborts") {
        "abort-broadcast-queue"
    } else if src.contains("record_vote") {
        "no-vote"
    } else if src.contains("running coordinator") {
        "decision-poll"
    } else if src.contains("get_pending_decisions") {
        "recovery-list"
    } else if src.contains("complete_commit") {
        "complete_commit-after-restart"
    } else if src.contains("complete_abort") {
        "complete_abort-after-restart"
    } else {
        "other"
    }
}

impl<'a> Sim<'a> {
    fn bump(&mut self, k: &'static str) {
        *self.c.entry(k).or_insert(0) += 1;
    }
    fn tx_of_id(&self, id: u64) -> Option<usize> {
        self.obs.iter().position(|o| o.id == Some(id))
    }
    fn decide(&mut self, i: usize, d: Dec, src: &'static str) {
        // a decision announced before the coordinator crashed must be the decision afterwards
        if self.wal.as_ref().map(|w| w.restarted).unwrap_or(false) || self.persist.as_ref().map(|p| p.restarts > 0).unwrap_or(false) {
            if let Some(&(first, fsrc)) = self.obs[i].decisions.first() {
                if first != d && self.obs[i].decisions.iter().any(|x| x.0 == d) {
                    // the change was reported when it was first observed
                    self.obs[i].decisions.push((d, src));
                    return;
                }
                if first != d {
                    let second = if d == Dec::Abort { format!("Abort({})", short_src(src)) } else { "Commit".to_string() };
                    self.found.push(Found {
                        sig: format!("decision-changed-across-coordinator-restart:{:?}({})-then-{}", first, short_src(fsrc), second),
                        detail: format!(
                            "t{}: {:?} was decided and announced at `{}`; after the coordinator crashed and recovered from its log, {:?} was decided at `{}`",
                            i, first, fsrc, d, src
                        ),
                    });
                    self.obs[i].decisions.push((d, src));
                    return;
                }
            }
        }
        observe_decision(&mut self.obs, self.plan, i, d, src, &mut self.found);
    }
    fn persist_coord(&mut self) {
        if let Some(p) = self.persist.as_ref() {
            let _ = self.coord.save_to_store("c", &p.cstore);
        }
    }
    /// persist part: the coordinator process dies and is started again from the state it wrote
    /// through to its store, possibly after an outage longer than the prepare timeout; it runs
    /// recover() and hands out the decisions of get_pending_decisions() for (re-)broadcast
    fn crash_and_reload(&mut self, outage: bool) {
        let Some(p) = self.persist.as_mut() else { return };
        p.restarts += 1;
        if outage {
            p.outages_left -= 1;
            std::thread::sleep(Duration::from_millis(PERSIST_TIMEOUT_MS + 5));
        }
        self.trace.push(if outage { "CRASH+OUTAGE+RELOAD".to_string() } else { "CRASH+RELOAD".to_string() });
        match DistributedTxCoordinator::load_from_store("c", &p.cstore, ConsensusManager::default_config(), persist_config()) {
            Ok(c) => self.coord = c,
            Err(e) => {
                self.found.push(Found { sig: "persist:coordinator-load-failed".into(), detail: format!("load_from_store failed: {}", e) });
                return;
            }
        }
        self.bump("persist:coordinator-restarts");
        if outage {
            self.bump("persist:coordinator-restarts-after-long-outage");
        }
        let _ = self.coord.recover();
        for i in 0..self.obs.len() {
            self.obs[i].ready = false;
        }
        for (id, phase) in self.coord.get_pending_decisions() {
            let Some(i) = self.tx_of_id(id) else { continue };
            let d = match phase {
                TxPhase::Committing => Dec::Commit,
                TxPhase::Aborting => Dec::Abort,
                _ => continue,
            };
            self.trace.push(format!("recovery-list(t{})={:?}", i, d));
            self.bump(if d == Dec::Commit { "persist:commit-handed-out-by-recovery" } else { "persist:abort-handed-out-by-recovery" });
            self.decide(i, d, "listed by get_pending_decisions() after recover()");
            self.send_decision(i, d);
            self.indoubt.insert(i, d);
        }
        for i in 0..self.obs.len() {
            if let Some(id) = self.obs[i].id {
                if self.coord.get(id).map(|t| t.phase == TxPhase::Prepared).unwrap_or(false) {
                    self.obs[i].ready = true;
                }
            }
        }
        self.persist_coord();
    }
    /// the driver loop polls the running coordinator for decisions it has to (re-)broadcast, e.g.
    /// after a commit()/abort() call came back with an error, and announces what is listed
    fn poll_decisions(&mut self) {
        self.bump("ev:decision-poll");
        for (id, phase) in self.coord.get_pending_decisions() {
            let Some(i) = self.tx_of_id(id) else { continue };
            let d = match phase {
                TxPhase::Committing => Dec::Commit,
                TxPhase::Aborting => Dec::Abort,
                _ => continue,
            };
            if self.indoubt.get(&i) == Some(&d) {
                continue; // already announced, completion outstanding
            }
            self.trace.push(format!("poll-list(t{})={:?}", i, d));
            self.bump(if d == Dec::Commit { "poll:commit-listed" } else { "poll:abort-listed" });
            self.decide(i, d, "listed by get_pending_decisions() on the running coordinator");
            self.send_decision(i, d);
            self.indoubt.insert(i, d);
        }
    }
    /// the broadcast of a recovered decision has been acknowledged: the coordinator completes it
    fn complete_indoubt(&mut self, i: usize) {
        let Some(d) = self.indoubt.remove(&i) else { return };
        let Some(id) = self.obs[i].id else { return };
        let ok = if d == Dec::Commit { self.coord.complete_commit(id).is_ok() } else { self.coord.complete_abort(id).is_ok() };
        self.trace.push(format!("complete(t{},{:?})={}", i, d, if ok { "ok" } else { "refused" }));
        self.bump(if ok { "persist:recovered-decision-completed" } else { "persist:recovered-decision-completion-refused" });
    }
    /// a participant process is restarted from what it persisted (save_to_store / load_from_store)
    fn restart_participant(&mut self, s: usize) {
        let store = self.parts[s].store().clone();
        if self.parts[s].save_to_store("n", s, &store).is_err() {
            return;
        }
        let np = TxParticipant::load_from_store("n", s, &store);
        let _ = np.recover(Duration::from_secs(30));
        self.parts[s] = np;
        self.trace.push(format!("RESTART-PARTICIPANT(s{})", s));
        self.bump("persist:participant-restarts");
        check_shard(s, self.parts[s].store(), &self.reference[s], &self.obs, "participant restart", &mut self.found);
    }
    fn note_refusal(&mut self, what: &str) {
        if let Some(w) = self.wal.as_mut() {
            w.refusing = true;
            self.trace.push(format!("[wal refused {}]", what));
            *self.c.entry("wal_append_refusals_injected").or_insert(0) += 1;
        }
    }
    /// the coordinator process dies; a new one is started on the same log (which now has room
    /// again), recovers, and settles what the log says is in doubt
    fn crash_and_recover(&mut self, rng: &mut Rng) {
        let Some(w) = self.wal.as_mut() else { return };
        let path = w.path.clone();
        let was_refusing = w.refusing;
        w.restarted = true;
        self.indoubt.clear(); // the driver's memory dies with the process
        self.trace.push("CRASH+RESTART".to_string());
        let wal = match tensor_chain::tx_wal::TxWal::open(&path) {
            Ok(x) => x,
            Err(e) => {
                self.found.push(Found { sig: "walfault:wal-open-failed".into(), detail: format!("TxWal::open after the crash failed: {}", e) });
                return;
            }
        };
        self.coord = DistributedTxCoordinator::new(ConsensusManager::default_config(), coordinator_config()).with_wal(wal);
        if let Err(e) = self.coord.recover_from_wal() {
            self.found.push(Found { sig: "walfault:recovery-error".into(), detail: format!("recover_from_wal after the crash failed: {}", e) });
            return;
        }
        self.bump("coordinator_restarts");
        if was_refusing {
            self.bump("recoveries_after_refusal");
        }
        if rng.bool() {
            let _ = self.coord.recover();
        }
        for i in 0..self.obs.len() {
            self.obs[i].ready = false;
        }
        // in-doubt transactions of the log
        for (id, phase) in self.coord.get_pending_decisions() {
            let Some(i) = self.tx_of_id(id) else { continue };
            match phase {
                TxPhase::Committing => {
                    if self.coord.complete_commit(id).is_ok() {
                        self.trace.push(format!("coord.complete_commit(t{})=ok", i));
                        self.decide(i, Dec::Commit, "complete_commit() returned Ok after the restart");
                        self.send_decision(i, Dec::Commit);
                    }
                }
                TxPhase::Aborting => {
                    if self.coord.complete_abort(id).is_ok() {
                        self.trace.push(format!("coord.complete_abort(t{})=ok", i));
                        self.decide(i, Dec::Abort, "complete_abort() returned Ok after the restart");
                        self.send_decision(i, Dec::Abort);
                    }
                }
                _ => {}
            }
        }
        // transactions the log knows as prepared are the driver's to commit, exactly like before
        for i in 0..self.obs.len() {
            if let Some(id) = self.obs[i].id {
                if self.coord.get(id).map(|t| t.phase == TxPhase::Prepared).unwrap_or(false) {
                    self.obs[i].ready = true;
                    self.bump("prepared_restored_after_restart");
                }
            }
        }
    }
    fn begin(&mut self, i: usize) {
        if self.obs[i].id.is_some() {
            return;
        }
        match self.coord.begin(&"coord".to_string(), &self.plan.txs[i].participants) {
            Ok(t) => {
                if self.tx_of_id(t.tx_id).is_some() {
                    return; // id collision inside one case: practically impossible; leave it unbegun
                }
                self.obs[i].id = Some(t.tx_id);
                self.trace.push(format!("begin(t{})", i));
                self.bump("ev:begin");
                for &s in &self.plan.txs[i].participants {
                    self.net.push(Msg::Prepare { tx: i, shard: s, to: s });
                }
            }
            Err(_) => self.note_refusal("TxBegin"),
        }
    }
    fn send_decision(&mut self, i: usize, d: Dec) {
        for &s in &self.plan.txs[i].participants {
            self.net.push(if d == Dec::Commit { Msg::Commit { tx: i, shard: s } } else { Msg::Abort { tx: i, shard: s } });
        }
    }
    fn coord_commit(&mut self, i: usize) {
        let Some(id) = self.obs[i].id else { return };
        let phase_before = self.coord.get(id).map(|t| t.phase);
        if phase_before.is_some() && self.wal.as_ref().map(|w| w.refusing && !w.restarted).unwrap_or(false) {
            self.bump("decisions_attempted_with_refusing_wal");
        }
        let ok = self.coord.commit(id).is_ok();
        if !ok && phase_before == Some(TxPhase::Prepared) {
            // the only reason commit() refuses a prepared transaction is that it cannot log
            self.note_refusal("the commit records");
        }
        self.trace.push(format!("coord.commit(t{})={}", i, if ok { "ok" } else { "refused" }));
        self.bump(if ok { "ev:coord-commit-ok" } else { "ev:coord-commit-refused" });
        if ok {
            self.decide(i, Dec::Commit, "commit() returned Ok");
            self.send_decision(i, Dec::Commit);
        }
    }
    fn coord_abort(&mut self, i: usize) {
        let Some(id) = self.obs[i].id else { return };
        let known_before = self.coord.get(id).is_some();
        if known_before && self.wal.as_ref().map(|w| w.refusing && !w.restarted).unwrap_or(false) {
            self.bump("decisions_attempted_with_refusing_wal");
        }
        let ok = self.coord.abort(id, "client abort").is_ok();
        if !ok && known_before {
            // the only reason abort() refuses a known transaction is that it cannot log
            self.note_refusal("the abort records");
        }
        self.trace.push(format!("coord.abort(t{})={}", i, if ok { "ok" } else { "refused" }));
        self.bump(if ok { "ev:coord-abort-ok" } else { "ev:coord-abort-refused" });
        if ok {
            self.decide(i, Dec::Abort, "abort() returned Ok");
            self.send_decision(i, Dec::Abort);
        }
    }
    fn take_aborts(&mut self) {
        for (id, _reason, shards) in self.coord.take_pending_aborts() {
            if let Some(i) = self.tx_of_id(id) {
                self.decide(i, Dec::Abort, "listed by take_pending_aborts()");
                self.bump("ev:abort-broadcast");
                for s in shards {
                    self.net.push(Msg::Abort { tx: i, shard: s });
                }
            }
        }
    }
    fn sweep(&mut self) {
        // with prepare_timeout_ms = 0 every transaction begun at least one clock millisecond ago is due
        std::thread::sleep(Duration::from_micros(1100));
        let out = self.coord.cleanup_timeouts();
        self.trace.push(format!("sweep={}", out.len()));
        self.bump("ev:timeout-sweep");
        self.faults += 1;
        for id in out {
            if let Some(i) = self.tx_of_id(id) {
                self.bump("timeouts-fired");
                self.decide(i, Dec::Abort, "listed by cleanup_timeouts()");
            }
        }
        self.take_aborts();
    }
    fn process(&mut self, m: Msg) {
        self.trace.push(msg_name(&m));
        match m {
            Msg::Prepare { tx, shard, to } => {
                let Some(id) = self.obs[tx].id else { return };
                let vote = self.parts[to].prepare(prepare_request(id, &self.plan.txs[tx].ops[&shard]));
                self.bump(if matches!(vote, PrepareVote::Yes { .. }) { "ev:prepare-yes" } else { "ev:prepare-conflict" });
                if to != shard {
                    self.bump("ev:prepare-at-non-participant");
                }
                check_shard(to, self.parts[to].store(), &self.reference[to], &self.obs, "prepare", &mut self.found);
                // the answer carries the id of the shard that produced it
                self.net.push(Msg::Vote { tx, shard: to, vote });
            }
            Msg::Vote { tx, shard, vote } => {
                let Some(id) = self.obs[tx].id else { return };
                let yes = matches!(vote, PrepareVote::Yes { .. });
                // (single-threaded schedule: nothing else records votes between these reads)
                let had_before = self.coord.get(id).map(|t| t.votes.contains_key(&shard)).unwrap_or(false);
                match self.coord.record_vote(id, shard, vote) {
                    Ok(None) if self.wal.is_some() && (had_before || !self.coord.get(id).map(|t| t.votes.contains_key(&shard)).unwrap_or(false)) => {
                        // with a log, record_vote answers Ok(None) without recording the vote
                        // when the vote cannot be logged (the refusal comes before any validation,
                        // so a duplicate of a recorded vote is answered the same way): not an
                        // accepted vote. With a log that takes the record a duplicate is an Err.
                        self.note_refusal("PrepareVote");
                    }
                    Ok(r) => {
                        self.bump("ev:vote-accepted");
                        if !self.plan.txs[tx].participants.contains(&shard) {
                            self.bump("ev:vote-of-non-participant-accepted");
                        }
                        self.obs[tx].accepted.entry(shard).or_default().push(yes);
                        match r {
                            Some(TxPhase::Prepared) => self.obs[tx].ready = true,
                            Some(TxPhase::Aborting) => self.decide(tx, Dec::Abort, "record_vote() returned Aborting"),
                            _ => {}
                        }
                    }
                    Err(_) => {
                        self.bump("ev:vote-rejected");
                        self.faults += 1;
                    }
                }
            }
            Msg::Commit { tx, shard } => {
                let Some(id) = self.obs[tx].id else { return };
                let r = self.parts[shard].commit(id);
                if r.success {
                    self.bump("ev:participant-commit-applied");
                    self.obs[tx].applied.insert(shard);
                    apply_ref(&mut self.reference[shard], &self.plan.txs[tx].ops[&shard]);
                    check_shard(shard, self.parts[shard].store(), &self.reference[shard], &self.obs, "commit-ok", &mut self.found);
                } else {
                    self.bump("ev:participant-commit-refused");
                    self.obs[tx].commit_errors.insert(shard, r.error.unwrap_or_default());
                    check_shard(shard, self.parts[shard].store(), &self.reference[shard], &self.obs, "commit-refused", &mut self.found);
                }
            }
            Msg::Abort { tx, shard } => {
                let Some(id) = self.obs[tx].id else { return };
                let before = snapshot(self.parts[shard].store());
                let _ = self.parts[shard].abort(id);
                let after = snapshot(self.parts[shard].store());
                self.bump("ev:participant-abort");
                if before != after {
                    let k = before.keys().chain(after.keys()).find(|k| before.get(*k) != after.get(*k)).cloned().unwrap_or_default();
                    let victim = before.get(&k).and_then(|t| tag_tx(t));
                    // do the transactions of this case reach this storage key under more than one lock name?
                    let names: BTreeSet<String> = self
                        .plan
                        .txs
                        .iter()
                        .filter_map(|t| t.ops.get(&shard))
                        .flatten()
                        .filter(|op| effect(op).map(|e| e.0 == k).unwrap_or(false))
                        .map(|op| op.affected_key().to_string())
                        .collect();
                    let sig = if names.len() > 1 {
                        "abort-changes-store:same-storage-key-locked-under-different-names"
                    } else {
                        match victim {
                            Some(w) if w < self.obs.len() && self.obs[w].decision() == Some(Dec::Commit) => "abort-discards-committed-write",
                            _ => "participant-abort-changed-store",
                        }
                    };
                    self.found.push(Found {
                        sig: sig.to_string(),
                        detail: format!("TxParticipant::abort(t{}) on shard {} changed key {:?} from {:?} to {:?} (the transaction's own writes are never applied before commit)", tx, shard, k, before.get(&k), after.get(&k)),
                    });
                    // keep the reference in step so that one defect is reported once
                    self.reference[shard] = after;
                } else {
                    check_shard(shard, self.parts[shard].store(), &self.reference[shard], &self.obs, "abort", &mut self.found);
                }
            }
        }
    }
}

fn sim_case(case_seed: u64, rep: &mut Report) {
    sim_case_with(case_seed, rep, None);
}

/// the sim schedule with a coordinator that logs to a TxWal refusing appends beyond a seeded size
/// (size limit reached, rotation off), a coordinator crash at a seeded event, recovery from the
/// log into a new coordinator, and the rest of the schedule on that one
fn walfault_case(case_seed: u64, rep: &mut Report, scratch: &std::path::Path) {
    let dir = Scratch::new(scratch, "c03w");
    sim_case_with(case_seed, rep, Some(dir.join("tx.wal")));
}

/// the sim schedule with persistence: the coordinator writes its state through to a store and
/// is restarted from it (load_from_store + recover() + get_pending_decisions()), sometimes after an
/// outage longer than the prepare timeout (12 ms here); participants are restarted from their own
/// persisted state in the middle of the protocol; decisions may be delayed by 35 ms
fn persist_case(case_seed: u64, rep: &mut Report) {
    sim_case_flavor(case_seed, rep, None, true);
}

fn sim_case_with(case_seed: u64, rep: &mut Report, wal_path: Option<std::path::PathBuf>) {
    sim_case_flavor(case_seed, rep, wal_path, false);
}

fn sim_case_flavor(case_seed: u64, rep: &mut Report, wal_path: Option<std::path::PathBuf>, persist: bool) {
    let case_started = Instant::now();
    let mut rng = Rng::new(case_seed);
    let plan = gen_plan(&mut rng, 3, wal_path.is_none() && !persist);
    let (mut coord, parts) = build_world(&plan);
    if persist {
        coord = DistributedTxCoordinator::new(ConsensusManager::default_config(), persist_config());
    }
    let walfault = wal_path.is_some();
    if let Some(path) = &wal_path {
        // room for a seeded number of bytes: typically enough for one or two transactions to get
        // prepared, then begin / vote / commit / abort records are refused
        let limit = 60 + rng.below(420) as u64;
        let cfg = tensor_chain::raft_wal::WalConfig { max_size_bytes: limit, auto_rotate: false, ..Default::default() };
        match tensor_chain::tx_wal::TxWal::open_with_config(path, cfg) {
            Ok(w) => coord = DistributedTxCoordinator::new(ConsensusManager::default_config(), coordinator_config()).with_wal(w),
            Err(_) => {
                rep.inconclusive("walfault: cannot open the scratch log");
                return;
            }
        }
    }
    let mut sim = Sim {
        plan: &plan,
        coord,
        parts,
        reference: plan.init.clone(),
        obs: vec![TxObs::default(); plan.txs.len()],
        net: Vec::new(),
        trace: Vec::new(),
        found: Vec::new(),
        faults: 0,
        c: BTreeMap::new(),
        wal: wal_path.map(|path| WalFault { path, refusing: false, restarted: false }),
        persist: if persist {
            Some(Persist { cstore: TensorStore::new(), restarts: 0, outages_left: 1, delays_left: 1, participant_restarts_left: 2 })
        } else {
            None
        },
        indoubt: BTreeMap::new(),
    };
    // per-case fault profile
    let p_dup = rng.below(25) as u32;
    let p_drop = rng.below(20) as u32;
    let w_sweep = [0u32, 1, 1, 3][rng.below(4)];
    let w_abort = if walfault { [1u32, 2, 4][rng.below(3)] } else { [0u32, 1, 2][rng.below(3)] };
    let w_hostile_commit = [0u32, 1, 2][rng.below(3)];
    let w_misroute = [0u32, 0, 2, 5][rng.below(4)];
    let max_events = 40 + rng.below(160);
    let crash_at = if walfault { 10 + rng.below(max_events - 10) } else { usize::MAX };
    let n = plan.txs.len();
    sim.begin(0);
    for ev in 0..max_events {
        if ev == crash_at {
            sim.crash_and_recover(&mut rng);
        }
        let unbegun: Vec<usize> = (0..n).filter(|&i| sim.obs[i].id.is_none()).collect();
        let ready: Vec<usize> = (0..n).filter(|&i| sim.obs[i].ready && sim.obs[i].decision().is_none()).collect();
        let w = [
            if sim.net.is_empty() { 0 } else { 30 },
            if unbegun.is_empty() { 0 } else { 6 },
            // with persistence, prepared transactions are left waiting more often, so that restarts find them
            if ready.is_empty() { 0 } else if persist { 3 } else { 10 },
            w_hostile_commit,
            w_abort,
            w_sweep,
            2,
            3,
            w_misroute,
            // persist part: coordinator crash, completion of a recovered decision, participant restart, delay
            if sim.persist.as_ref().map(|p| p.restarts < 3).unwrap_or(false) { 2 } else { 0 },
            if !sim.indoubt.is_empty() { 3 } else { 0 },
            if sim.persist.as_ref().map(|p| p.participant_restarts_left > 0).unwrap_or(false) { 2 } else { 0 },
            if sim.persist.as_ref().map(|p| p.delays_left > 0).unwrap_or(false) { 1 } else { 0 },
            if walfault { 3 } else { 1 },
        ];
        if w.iter().sum::<u32>() == 0 {
            break;
        }
        match rng.weighted(&w) {
            0 => {
                let k = rng.below(sim.net.len());
                if rng.chance(p_drop, 100) {
                    let m = sim.net.swap_remove(k);
                    sim.trace.push(format!("drop:{}", msg_name(&m)));
                    sim.bump("ev:msg-dropped");
                    sim.faults += 1;
                } else if rng.chance(p_dup, 100) {
                    let m = sim.net[k].clone();
                    sim.bump("ev:msg-duplicated");
                    sim.faults += 1;
                    sim.process(m);
                } else {
                    if k + 1 != sim.net.len() {
                        sim.bump("ev:msg-out-of-order");
                    }
                    let m = sim.net.swap_remove(k);
                    sim.process(m);
                }
            }
            1 => sim.begin(*rng.pick(&unbegun)),
            2 => sim.coord_commit(*rng.pick(&ready)),
            3 => sim.coord_commit(rng.below(n)),
            4 => sim.coord_abort(rng.below(n)),
            5 => sim.sweep(),
            6 => sim.take_aborts(),
            13 => sim.poll_decisions(),
            9 => {
                let outage = sim.persist.as_ref().map(|p| p.outages_left > 0).unwrap_or(false) && rng.bool();
                sim.crash_and_reload(outage);
            }
            10 => {
                let open: Vec<usize> = sim.indoubt.keys().copied().collect();
                if !open.is_empty() {
                    sim.complete_indoubt(*rng.pick(&open));
                }
            }
            11 => {
                if let Some(p) = sim.persist.as_mut() {
                    p.participant_restarts_left -= 1;
                }
                sim.restart_participant(rng.below(plan.shards));
            }
            12 => {
                // nothing happens for 35 ms (far below the 30 s lock lifetime, above the prepare timeout)
                if let Some(p) = sim.persist.as_mut() {
                    p.delays_left -= 1;
                }
                std::thread::sleep(Duration::from_millis(35));
                sim.trace.push("DELAY-35ms".to_string());
                sim.bump("persist:delays");
            }
            8 => {
                // a PREPARE (or a duplicate of it) reaches a shard that is not a participant of the
                // transaction; that shard prepares and answers like any other
                let open: Vec<usize> = (0..n).filter(|&i| sim.obs[i].id.is_some() && sim.obs[i].decision().is_none()).collect();
                let i = if open.is_empty() || rng.chance(1, 5) { rng.below(n) } else { *rng.pick(&open) };
                let outside: Vec<usize> = (0..plan.shards).filter(|s| !plan.txs[i].participants.contains(s)).collect();
                if sim.obs[i].id.is_some() && !outside.is_empty() {
                    let shard = *rng.pick(&plan.txs[i].participants);
                    sim.net.push(Msg::Prepare { tx: i, shard, to: *rng.pick(&outside) });
                    sim.bump("ev:misrouted-prepare");
                    sim.faults += 1;
                }
            }
            _ => {
                // retransmission by the driver: prepares of an undecided, decisions of a decided transaction
                let i = rng.below(n);
                if sim.obs[i].id.is_some() {
                    sim.bump("ev:retransmit");
                    sim.faults += 1;
                    match sim.obs[i].decision() {
                        None => {
                            for &s in &plan.txs[i].participants {
                                sim.net.push(Msg::Prepare { tx: i, shard: s, to: s });
                            }
                        }
                        Some(d) => sim.send_decision(i, d),
                    }
                }
            }
        }
        sim.persist_coord(); // write-through: a crash between two events loses nothing
    }
    // ---- quiescence: deliver everything, commit what is prepared, time out the rest, re-send decisions
    for _round in 0..50 {
        while !sim.net.is_empty() {
            let k = rng.below(sim.net.len());
            let m = sim.net.swap_remove(k);
            sim.process(m);
        }
        sim.take_aborts();
        let ready: Vec<usize> = (0..n).filter(|&i| sim.obs[i].ready && sim.obs[i].decision().is_none()).collect();
        for i in ready {
            sim.coord_commit(i);
            if sim.obs[i].decision().is_none() {
                sim.obs[i].ready = false; // refused (e.g. swept meanwhile); the sweep below settles it
            }
        }
        let open: Vec<usize> = sim.indoubt.keys().copied().collect();
        for i in open {
            sim.complete_indoubt(i);
        }
        if sim.net.is_empty() {
            break;
        }
    }
    if persist && (0..n).any(|i| sim.obs[i].id.is_some() && sim.obs[i].decision().is_none()) {
        // let the prepare timeout of whatever is still undecided pass
        std::thread::sleep(Duration::from_millis(PERSIST_TIMEOUT_MS + 3));
    }
    sim.sweep();
    for i in 0..n {
        if let Some(d) = sim.obs[i].decision() {
            sim.send_decision(i, d);
        }
    }
    while !sim.net.is_empty() {
        let k = rng.below(sim.net.len());
        let m = sim.net.swap_remove(k);
        sim.process(m);
    }
    // every decision has been delivered: whatever a participant still holds as prepared is a
    // leftover of a late duplicate PREPARE; the participant's stale sweep rolls it back, which
    // must not change the shard (clause d)
    for s in 0..plan.shards {
        let swept = sim.parts[s].cleanup_stale(Duration::ZERO);
        if !swept.is_empty() {
            sim.bump("ev:stale-prepared-entries-swept");
            check_shard(s, sim.parts[s].store(), &sim.reference[s], &sim.obs, "stale sweep of leftover prepared entries", &mut sim.found);
        }
    }
    final_oracle(&plan, &sim.parts, &sim.obs, &mut sim.found);

    // ---- report
    let committed = sim.obs.iter().filter(|o| o.decision() == Some(Dec::Commit)).count() as u64;
    let aborted = sim.obs.iter().filter(|o| o.decision() == Some(Dec::Abort)).count() as u64;
    rep.count(if persist { "persist_cases" } else if walfault { "walfault_cases" } else { "sim_cases" }, 1);
    rep.count(if persist { "persist:decided:commit" } else if walfault { "walfault:decided:commit" } else { "decided:commit" }, committed);
    rep.count(if persist { "persist:decided:abort" } else if walfault { "walfault:decided:abort" } else { "decided:abort" }, aborted);
    for (k, v) in &sim.c {
        rep.count(k, *v);
    }
    if plan.aliased {
        rep.count("cases_with_aliased_storage_keys", 1);
    }
    let trace = sim.trace.join(" ");
    rep.eval(hash_str(&trace), committed + aborted > 0 && (sim.faults > 0 || n > 1));
    if rep.want_sample() && committed > 0 && aborted > 0 && sim.trace.len() < 60 {
        rep.sample(json!({"mode": "sim", "case_seed": case_seed, "plan": plan_json(&plan), "trace": trace, "decisions": sim.obs.iter().map(|o| format!("{:?}", o.decision())).collect::<Vec<_>>()}));
    }
    // The oracle assumes that the participants' key locks (30 s lease) and the 5 s deadline of
    // restored transactions never run out inside a case. A case normally takes milliseconds; if
    // the machine stalled it for seconds that assumption is gone and what the shards then show is
    // legitimate lease-expiry behaviour, not evidence: the case is not judged.
    if !sim.found.is_empty() && case_started.elapsed() > Duration::from_secs(4) {
        rep.inconclusive("a simulated schedule took longer than 4 s of wall time (lock leases / restored deadlines may have run out); not judged");
        return;
    }
    let mut seen = BTreeSet::new();
    // a decision that changed across the restart is the root cause of whatever the shards show
    // afterwards (writes of an "aborted" transaction, split state): report the cause only
    let root_only = sim.found.iter().any(|f| f.sig.starts_with("decision-changed-across-coordinator-restart"));
    for f in sim.found {
        if root_only && !f.sig.starts_with("decision-changed-across-coordinator-restart") {
            continue;
        }
        if !seen.insert(f.sig.clone()) {
            continue;
        }
        rep.violation(
            f.sig,
            format!("{} | plan {} | trace: {}", f.detail, plan_json(&plan), trace),
            json!({"mode": if persist { "persist" } else if walfault { "walfault" } else { "sim" }, "case_seed": case_seed}),
        );
    }
}

// ------------------------------------------------------------------------------------------------
// threaded mode
// ------------------------------------------------------------------------------------------------

struct Shared {
    plan: Plan,
    coord: DistributedTxCoordinator,
    parts: Vec<TxParticipant>,
    obs: Mutex<Vec<TxObs>>,
    found: Mutex<Vec<Found>>,
    ops: std::sync::atomic::AtomicU64,
    dup_prepares: std::sync::atomic::AtomicU64,
    /// `Some`: a participant handles the messages of one transaction one at a time (messages of
    /// different transactions still run side by side); `None`: everything runs concurrently, also
    /// duplicates of one transaction's PREPARE with each other and with its ABORT/COMMIT
    gates: Option<Vec<Vec<Mutex<()>>>>,
}

impl Shared {
    fn decide(&self, i: usize, d: Dec, src: &'static str) {
        let mut obs = self.obs.lock();
        let mut f = Vec::new();
        observe_decision(&mut obs, &self.plan, i, d, src, &mut f);
        drop(obs);
        self.found.lock().extend(f);
    }
    fn id(&self, i: usize) -> Option<u64> {
        self.obs.lock()[i].id
    }
    fn tx_of_id(&self, id: u64) -> Option<usize> {
        self.obs.lock().iter().position(|o| o.id == Some(id))
    }
    fn vote(&self, i: usize, shard: usize, vote: PrepareVote) -> Option<TxPhase> {
        let id = self.id(i)?;
        let yes = matches!(vote, PrepareVote::Yes { .. });
        // the accepted-vote ledger is updated under the same mutex as the decision log, and before
        // a commit decision can be observed (commit needs this vote to have been recorded)
        let mut obs = self.obs.lock();
        let r = self.coord.record_vote(id, shard, vote);
        if let Ok(r) = r {
            obs[i].accepted.entry(shard).or_default().push(yes);
            drop(obs);
            if r == Some(TxPhase::Aborting) {
                self.decide(i, Dec::Abort, "record_vote() returned Aborting");
            }
            return r;
        }
        None
    }
    fn gate(&self, i: usize, s: usize) -> Option<parking_lot::MutexGuard<'_, ()>> {
        self.gates.as_ref().map(|g| g[i][s].lock())
    }
    fn p_prepare(&self, i: usize, id: u64, to: usize, ops_of: usize) -> PrepareVote {
        let _g = self.gate(i, to);
        self.parts[to].prepare(prepare_request(id, &self.plan.txs[i].ops[&ops_of]))
    }
    fn p_abort(&self, i: usize, id: u64, s: usize) {
        let _g = self.gate(i, s);
        let _ = self.parts[s].abort(id);
    }
    fn deliver_decision(&self, i: usize, d: Dec) {
        let Some(id) = self.id(i) else { return };
        for &s in &self.plan.txs[i].participants {
            if d == Dec::Commit {
                let r = {
                    let _g = self.gate(i, s);
                    self.parts[s].commit(id)
                };
                let mut obs = self.obs.lock();
                if r.success {
                    obs[i].applied.insert(s);
                } else {
                    obs[i].commit_errors.insert(s, r.error.unwrap_or_default());
                }
            } else {
                self.p_abort(i, id, s);
            }
        }
    }
    fn drain_aborts(&self) {
        for (id, _r, _shards) in self.coord.take_pending_aborts() {
            if let Some(i) = self.tx_of_id(id) {
                self.decide(i, Dec::Abort, "listed by take_pending_aborts()");
                self.deliver_decision(i, Dec::Abort);
            }
        }
    }
}

fn threaded_case(case_seed: u64, rep: &mut Report) {
    let case_started = Instant::now();
    let mut rng = Rng::new(case_seed);
    let mut plan = gen_plan(&mut rng, 4, false);
    // half of the cases use large transactions: many writes to keys of their own around the few
    // contended ones, so that applying a commit on a shard takes long enough for other messages
    // to arrive at that shard meanwhile
    let big = rng.chance(2, 3);
    if big {
        for (i, t) in plan.txs.iter_mut().enumerate() {
            for (s, ops) in t.ops.iter_mut() {
                let fill = 100 + rng.below(1400);
                let pad = [0usize, 64, 512][rng.below(3)];
                let mut v: Vec<Transaction> = (0..fill)
                    .map(|j| {
                        // fat values: applying a commit takes longer
                        let mut data = format!("t{}:s{}:f{}:", i, s, j).into_bytes();
                        data.resize(data.len() + pad, b'.');
                        Transaction::Put { key: format!("f{}_{}", i, j), data }
                    })
                    .collect();
                for op in ops.drain(..) {
                    let at = rng.below(v.len() + 1);
                    v.insert(at, op);
                }
                *ops = v;
            }
        }
    }
    let (coord, parts) = build_world(&plan);
    let n = plan.txs.len();
    let serial_per_tx = rng.chance(3, 4);
    let gates = if serial_per_tx { Some((0..n).map(|_| (0..plan.shards).map(|_| Mutex::new(())).collect()).collect()) } else { None };
    let finished = std::sync::atomic::AtomicUsize::new(0);
    struct Done<'a>(&'a std::sync::atomic::AtomicUsize);
    impl Drop for Done<'_> {
        fn drop(&mut self) {
            self.0.fetch_add(1, std::sync::atomic::Ordering::SeqCst);
        }
    }
    let sh = Arc::new(Shared { plan, coord, parts, obs: Mutex::new(vec![TxObs::default(); n]), found: Mutex::new(Vec::new()), ops: Default::default(), dup_prepares: Default::default(), gates });
    let chaos_threads = 1 + rng.below(2);
    let seeds: Vec<u64> = (0..n + chaos_threads + 1).map(|_| rng.next_u64()).collect();
    let finished = &finished;
    std::thread::scope(|sc| {
        for i in 0..n {
            let sh = sh.clone();
            let seed = seeds[i];
            sc.spawn(move || {
                let _done = Done(finished);
                let mut rng = Rng::new(seed);
                let parts_of = sh.plan.txs[i].participants.clone();
                let Ok(t) = sh.coord.begin(&"coord".to_string(), &parts_of) else { return };
                sh.obs.lock()[i].id = Some(t.tx_id);
                let mut order = parts_of.clone();
                rng.shuffle(&mut order);
                let mut prepared = false;
                for &s in &order {
                    if rng.chance(1, 6) {
                        std::thread::yield_now();
                    }
                    let v = sh.p_prepare(i, t.tx_id, s, s);
                    sh.obs.lock()[i].cast.insert(s, v.clone());
                    if rng.chance(1, 10) {
                        continue; // vote lost
                    }
                    if sh.vote(i, s, v) == Some(TxPhase::Prepared) {
                        prepared = true;
                    }
                    sh.ops.fetch_add(2, std::sync::atomic::Ordering::Relaxed);
                }
                if prepared && sh.coord.commit(t.tx_id).is_ok() {
                    sh.decide(i, Dec::Commit, "commit() returned Ok");
                    sh.deliver_decision(i, Dec::Commit);
                }
            });
        }
        for c in 0..chaos_threads {
            let sh = sh.clone();
            let seed = seeds[n + c];
            sc.spawn(move || {
                let mut rng = Rng::new(seed);
                for _ in 0..(6 + rng.below(20)) {
                    let i = rng.below(n);
                    sh.ops.fetch_add(1, std::sync::atomic::Ordering::Relaxed);
                    match rng.below(8) {
                        0 => {
                            if let Some(id) = sh.id(i) {
                                if sh.coord.abort(id, "chaos").is_ok() {
                                    sh.decide(i, Dec::Abort, "abort() returned Ok");
                                    sh.deliver_decision(i, Dec::Abort);
                                }
                            }
                        }
                        1 => {
                            if let Some(id) = sh.id(i) {
                                if sh.coord.commit(id).is_ok() {
                                    sh.decide(i, Dec::Commit, "commit() returned Ok");
                                    sh.deliver_decision(i, Dec::Commit);
                                }
                            }
                        }
                        2 => {
                            std::thread::sleep(Duration::from_micros(1100));
                            for id in sh.coord.cleanup_timeouts() {
                                if let Some(j) = sh.tx_of_id(id) {
                                    sh.decide(j, Dec::Abort, "listed by cleanup_timeouts()");
                                }
                            }
                            sh.drain_aborts();
                        }
                        3 => sh.drain_aborts(),
                        4 => {
                            // duplicate / late vote: a copy of what the participant really cast (a
                            // yes is never forged), or the "no" a handler timeout produces
                            let s = *rng.pick(&sh.plan.txs[i].participants);
                            let cast = sh.obs.lock()[i].cast.get(&s).cloned();
                            let v = match cast {
                                Some(v) if rng.bool() => v,
                                _ => PrepareVote::No { reason: "prepare timeout".into() },
                            };
                            let _ = sh.vote(i, s, v);
                        }
                        5 => {
                            // duplicate prepare reaching a participant late
                            if let Some(id) = sh.id(i) {
                                let s = *rng.pick(&sh.plan.txs[i].participants);
                                let v = sh.p_prepare(i, id, s, s);
                                sh.obs.lock()[i].cast.insert(s, v);
                            }
                        }
                        6 => {
                            // a PREPARE reaches a shard that is not a participant; it prepares and answers
                            let outside: Vec<usize> = (0..sh.plan.shards).filter(|s| !sh.plan.txs[i].participants.contains(s)).collect();
                            if let (Some(id), false) = (sh.id(i), outside.is_empty()) {
                                let to = *rng.pick(&outside);
                                let of = *rng.pick(&sh.plan.txs[i].participants);
                                let v = sh.p_prepare(i, id, to, of);
                                let _ = sh.vote(i, to, v);
                            }
                        }
                        _ => std::thread::yield_now(),
                    }
                }
            });
        }
        {
            // the network keeps re-delivering PREPAREs (duplicates arriving at any later moment)
            // and, for transactions already decided abort, the abort behind them
            let sh = sh.clone();
            let seed = seeds[n + chaos_threads];
            sc.spawn(move || {
                let mut rng = Rng::new(seed);
                let mut rounds = 0u64;
                while finished.load(std::sync::atomic::Ordering::SeqCst) < n && rounds < 20_000 {
                    rounds += 1;
                    let i = rng.below(n);
                    let Some(id) = sh.id(i) else {
                        std::thread::yield_now();
                        continue;
                    };
                    let s = *rng.pick(&sh.plan.txs[i].participants);
                    let v = sh.p_prepare(i, id, s, s);
                    sh.obs.lock()[i].cast.insert(s, v.clone());
                    if rng.chance(1, 4) {
                        let _ = sh.vote(i, s, v);
                    }
                    let aborted = sh.obs.lock()[i].decision() == Some(Dec::Abort);
                    if aborted && rng.bool() {
                        sh.p_abort(i, id, s);
                    }
                    if rng.chance(1, 3) {
                        std::thread::yield_now();
                    }
                }
                sh.ops.fetch_add(rounds, std::sync::atomic::Ordering::Relaxed);
                sh.dup_prepares.fetch_add(rounds, std::sync::atomic::Ordering::Relaxed);
            });
        }
    });
    // ---- quiescence: time out what is left, re-send every decision until acknowledged
    std::thread::sleep(Duration::from_micros(1100));
    for id in sh.coord.cleanup_timeouts() {
        if let Some(j) = sh.tx_of_id(id) {
            sh.decide(j, Dec::Abort, "listed by cleanup_timeouts()");
        }
    }
    sh.drain_aborts();
    let decisions: Vec<Option<Dec>> = sh.obs.lock().iter().map(|o| o.decision()).collect();
    for (i, d) in decisions.iter().enumerate() {
        if let Some(d) = d {
            let done = *d == Dec::Commit && {
                let o = &sh.obs.lock()[i];
                sh.plan.txs[i].participants.iter().all(|s| o.applied.contains(s))
            };
            if !done {
                sh.deliver_decision(i, *d);
            }
        }
    }
    // leftovers of late duplicate PREPAREs are rolled back by the participants' stale sweep; that
    // must not touch what committed transactions wrote (checked by the final-state clauses)
    let mut swept = 0u64;
    for p in &sh.parts {
        swept += p.cleanup_stale(Duration::ZERO).len() as u64;
    }
    rep.count("threaded:stale-prepared-entries-swept", swept);
    let obs = sh.obs.lock().clone();
    let mut found = std::mem::take(&mut *sh.found.lock());
    final_oracle(&sh.plan, &sh.parts, &obs, &mut found);
    let committed = obs.iter().filter(|o| o.decision() == Some(Dec::Commit)).count() as u64;
    let aborted = obs.iter().filter(|o| o.decision() == Some(Dec::Abort)).count() as u64;
    rep.count("threaded_cases", 1);
    rep.count("threaded:decided:commit", committed);
    rep.count("threaded:decided:abort", aborted);
    rep.count("threaded:calls", sh.ops.load(std::sync::atomic::Ordering::Relaxed));
    rep.count("threaded:duplicate-prepares-redelivered", sh.dup_prepares.load(std::sync::atomic::Ordering::Relaxed));
    if big {
        rep.count("threaded:cases-with-large-transactions", 1);
    }
    rep.count(if serial_per_tx { "threaded:cases-one-message-per-tx-at-a-time" } else { "threaded:cases-fully-concurrent" }, 1);
    rep.eval(case_seed, committed + aborted > 0);
    if !found.is_empty() && case_started.elapsed() > Duration::from_secs(4) {
        // (a case normally takes milliseconds) lock leases may have run out: not judged
        rep.inconclusive("a threaded case took longer than 4 s of wall time (lock leases may have run out); not judged");
        return;
    }
    let mut seen = BTreeSet::new();
    for f in found {
        if !seen.insert(f.sig.clone()) {
            continue;
        }
        // data lost while one participant handled several messages of the *same* transaction at
        // once is a different failure class from data lost between different transactions
        let suffix = if f.sig == "committed-write-lost" && !serial_per_tx { ":same-tx-messages-handled-concurrently" } else { "" };
        rep.violation(
            format!("threaded:{}{}", f.sig, suffix),
            format!("{} | plan {} | decisions {:?}", f.detail, plan_json(&sh.plan), obs.iter().map(|o| o.decisions.clone()).collect::<Vec<_>>()),
            json!({"mode": "threaded", "case_seed": case_seed}),
        );
    }
}

/// `c03 witness`: the defect found on the pinned tree as a hand-written minimal sequence against
/// the real participant (prints what happens; no oracle involved).
fn witness() {
    let p = TxParticipant::new(TensorStore::new());
    let a = vec![Transaction::Put { key: "table:tb".into(), data: b"A".to_vec() }];
    let b = vec![Transaction::TableInsert { table: "tb".into(), values: b"B".to_vec() }];
    println!("lock names: A = Put(table:tb) locks {:?}, B = TableInsert(tb) locks {:?}; both write storage key {:?} / {:?}", a[0].affected_key(), b[0].affected_key(), a[0].storage_key(), b[0].storage_key());
    println!("prepare(A=1) -> yes: {}", matches!(p.prepare(prepare_request(1, &a)), PrepareVote::Yes { .. }));
    println!("prepare(B=2) -> yes: {}", matches!(p.prepare(prepare_request(2, &b)), PrepareVote::Yes { .. }));
    println!("coordinator commits B: participant.commit(2) -> success {}", p.commit(2).success);
    println!("store: {:?}", snapshot(p.store()));
    println!("coordinator aborts A (e.g. timeout): participant.abort(1) -> success {}", p.abort(1).success);
    println!("store: {:?}   <- B was committed and applied, its write is gone", snapshot(p.store()));
}

/// Duplicates of one transaction's PREPARE and its ABORT handled by one participant at the same
/// moment (three threads released by a barrier), many rounds on one participant with a fresh key
/// and fresh transaction ids per round. Afterwards, sequentially: another transaction writes the
/// same key and commits, then the abort of the first is delivered once more. Clause (d): the
/// aborted transaction must leave the committed write alone.
fn burst_case(case_seed: u64, rep: &mut Report) {
    let mut rng = Rng::new(case_seed);
    let p = Arc::new(TxParticipant::new(TensorStore::new()));
    let rounds = 1500u64;
    let mut t0_committed = 0u64;
    let mut done = 0u64;
    let stall_before = (rep.violations.len(), rep.violations_total);
    let mut round_started = Instant::now();
    for it in 0..rounds {
        round_started = Instant::now();
        done += 1;
        let key = format!("k{}", it);
        let (t1, t0) = (case_seed.wrapping_mul(4096).wrapping_add(2 * it + 1), case_seed.wrapping_mul(4096).wrapping_add(2 * it + 2));
        let ops1 = vec![Transaction::Put { key: key.clone(), data: format!("t1:s0:{}", it).into_bytes() }];
        let ops0 = vec![Transaction::Put { key: key.clone(), data: format!("t0:s0:{}", it).into_bytes() }];
        let dups = 2 + rng.below(2);
        let bar = Arc::new(std::sync::Barrier::new(dups + 1));
        std::thread::scope(|sc| {
            for who in 0..=dups {
                let (p, bar, ops1) = (p.clone(), bar.clone(), ops1.clone());
                sc.spawn(move || {
                    bar.wait();
                    if who < dups {
                        let _ = p.prepare(prepare_request(t1, &ops1));
                    } else {
                        let _ = p.abort(t1);
                    }
                });
            }
        });
        // quiescent from here on
        if matches!(p.prepare(prepare_request(t0, &ops0)), PrepareVote::Yes { .. }) && p.commit(t0).success {
            t0_committed += 1;
            let _ = p.abort(t1); // the abort of T1 is delivered (again)
            let have = p.store().get(&key).ok().map(|d| tag_of(&d));
            if have.as_deref() != Some(&format!("t0:s0:{}", it)) {
                rep.violation(
                    "threaded:committed-write-lost:same-tx-messages-handled-concurrently",
                    format!(
                        "round {}: {} duplicates of PREPARE(T1) and ABORT(T1) were handled concurrently by one participant; then T0 prepared (yes) and committed a write to {:?}; after ABORT(T1) was delivered again the key holds {:?}",
                        it, dups, key, have
                    ),
                    json!({"mode": "burst", "case_seed": case_seed}),
                );
                break;
            }
        } else {
            let _ = p.abort(t0);
            let _ = p.abort(t1);
        }
    }
    drop_violations_of_a_stalled_round(rep, stall_before, round_started);
    rep.count("threaded:same-tx-burst-rounds", done);
    rep.count("threaded:same-tx-burst-rounds-with-later-commit", t0_committed);
    rep.eval(case_seed ^ 0xB0B, t0_committed > 0);
}

/// Duplicates of a transaction's PREPARE handled by one participant at the same moment as its
/// COMMIT (threads released by a barrier; the transaction writes many keys with fat values so that
/// applying takes a while). Afterwards, sequentially: the participant's stale sweep rolls back
/// whatever prepared entry is left over. Clause (c'): the writes of the committed transaction
/// must all still be there.
fn burst_commit_case(case_seed: u64, rep: &mut Report) {
    let mut rng = Rng::new(case_seed);
    let p = Arc::new(TxParticipant::new(TensorStore::new()));
    let rounds = 150u64;
    let mut committed = 0u64;
    let mut leftovers = 0u64;
    let mut done = 0u64;
    let stall_before = (rep.violations.len(), rep.violations_total);
    let mut round_started = Instant::now();
    for it in 0..rounds {
        round_started = Instant::now();
        done += 1;
        let t1 = case_seed.wrapping_mul(4096).wrapping_add(it + 1);
        let nkeys = 40 + rng.below(260);
        let pad = [64usize, 512, 2048][rng.below(3)];
        let ops: Vec<Transaction> = (0..nkeys)
            .map(|j| {
                let mut data = format!("t1:s0:{}:{}:", it, j).into_bytes();
                data.resize(data.len() + pad, b'.');
                Transaction::Put { key: format!("r{}k{}", it, j), data }
            })
            .collect();
        if !matches!(p.prepare(prepare_request(t1, &ops)), PrepareVote::Yes { .. }) {
            continue;
        }
        let dups = 1 + rng.below(2);
        let bar = Arc::new(std::sync::Barrier::new(dups + 1));
        let ok = std::sync::atomic::AtomicBool::new(false);
        std::thread::scope(|sc| {
            for who in 0..=dups {
                let (p, bar, ops, ok) = (p.clone(), bar.clone(), &ops, &ok);
                sc.spawn(move || {
                    bar.wait();
                    if who < dups {
                        if who == 1 {
                            std::thread::yield_now();
                        }
                        let _ = p.prepare(prepare_request(t1, ops));
                    } else if p.commit(t1).success {
                        ok.store(true, std::sync::atomic::Ordering::SeqCst);
                    }
                });
            }
        });
        // quiescent from here on: the commit was acknowledged; roll back leftovers of the duplicates
        if !ok.load(std::sync::atomic::Ordering::SeqCst) {
            let _ = p.abort(t1);
            continue;
        }
        committed += 1;
        leftovers += p.cleanup_stale(Duration::ZERO).len() as u64;
        let mut lost = Vec::new();
        for (j, op) in ops.iter().enumerate() {
            if let Transaction::Put { key, data } = op {
                let have = p.store().get(key).ok().map(|d| tag_of(&d));
                if have.as_deref() != Some(&String::from_utf8_lossy(data)) {
                    lost.push(j);
                }
            }
        }
        if !lost.is_empty() {
            rep.violation(
                "threaded:committed-write-lost:duplicate-prepare-during-commit-of-the-same-tx",
                format!(
                    "round {}: COMMIT(T1) ({} writes of {} bytes) and {} duplicate PREPARE(T1) were handled concurrently by one participant; the commit was acknowledged; after the stale sweep rolled back the leftover prepared entry, {} of T1's keys no longer hold its values (first: #{})",
                    it, nkeys, pad, dups, lost.len(), lost[0]
                ),
                json!({"mode": "burst-commit", "case_seed": case_seed}),
            );
            break;
        }
    }
    drop_violations_of_a_stalled_round(rep, stall_before, round_started);
    rep.count("threaded:prepare-vs-commit-burst-rounds", done);
    rep.count("threaded:prepare-vs-commit-bursts-committed", committed);
    rep.count("threaded:prepare-vs-commit-leftover-entries-swept", leftovers);
    rep.eval(case_seed ^ 0xC0B, committed > 0);
}

/// PREPARE of a second transaction T2 on keys of T1, handled by the participant at the same moment
/// as COMMIT(T1) (T1 writes many keys with fat values so that applying takes a while; T2 asks for
/// the keys T1 writes last and keeps asking until it is granted or the commit has returned).
/// Afterwards, sequentially: T2 is aborted (another shard voted no). Clauses: an aborted
/// transaction leaves the shard's data as it was, and no write of the committed T1 is discarded —
/// every key of T1 must still hold T1's value.
fn burst_other_prepare_case(case_seed: u64, rep: &mut Report) {
    let mut rng = Rng::new(case_seed);
    let p = Arc::new(TxParticipant::new(TensorStore::new()));
    let rounds = 120u64;
    let mut committed = 0u64;
    let mut granted_during = 0u64;
    let mut granted_after = 0u64;
    let mut refused = 0u64;
    let mut done = 0u64;
    let stall_before = (rep.violations.len(), rep.violations_total);
    let mut round_started = Instant::now();
    for it in 0..rounds {
        round_started = Instant::now();
        done += 1;
        let t1 = case_seed.wrapping_mul(8192).wrapping_add(2 * it + 1);
        let t2 = t1 + 1;
        let nkeys = 40 + rng.below(260);
        let pad = [64usize, 512, 2048][rng.below(3)];
        let ops: Vec<Transaction> = (0..nkeys)
            .map(|j| {
                let mut data = format!("t1:s0:{}:{}:", it, j).into_bytes();
                data.resize(data.len() + pad, b'.');
                Transaction::Put { key: format!("o{}k{}", it, j), data }
            })
            .collect();
        // half of the rounds: the keys exist before T1 (so T2's undo image is a value, not a delete)
        let preexisting = rng.bool();
        if preexisting {
            for j in 0..nkeys {
                let mut d = TensorData::new();
                d.set("data", tensor_store::TensorValue::Scalar(tensor_store::ScalarValue::Bytes(format!("init:{}:{}", it, j).into_bytes())));
                let _ = p.store().put(format!("o{}k{}", it, j), d);
            }
        }
        if !matches!(p.prepare(prepare_request(t1, &ops)), PrepareVote::Yes { .. }) {
            continue;
        }
        // T2 writes 1-3 of the keys T1 writes last (or, one round in four, first)
        let n2 = 1 + rng.below(3).min(nkeys - 1);
        let from_end = !rng.chance(1, 4);
        let ops2: Vec<Transaction> = (0..n2)
            .map(|j| {
                let idx = if from_end { nkeys - 1 - j } else { j };
                Transaction::Put { key: format!("o{}k{}", it, idx), data: format!("t2:s0:{}:{}", it, idx).into_bytes() }
            })
            .collect();
        let bar = Arc::new(std::sync::Barrier::new(2));
        let ok = std::sync::atomic::AtomicBool::new(false);
        let commit_done = std::sync::atomic::AtomicBool::new(false);
        let t2_state = std::sync::atomic::AtomicU8::new(0); // 0 refused, 1 granted while the commit ran, 2 granted after it returned
        std::thread::scope(|sc| {
            {
                let (p, bar, ok, commit_done) = (p.clone(), bar.clone(), &ok, &commit_done);
                sc.spawn(move || {
                    bar.wait();
                    if p.commit(t1).success {
                        ok.store(true, std::sync::atomic::Ordering::SeqCst);
                    }
                    commit_done.store(true, std::sync::atomic::Ordering::SeqCst);
                });
            }
            {
                let (p, bar, ops2, commit_done, t2_state) = (p.clone(), bar.clone(), &ops2, &commit_done, &t2_state);
                sc.spawn(move || {
                    bar.wait();
                    loop {
                        let finished = commit_done.load(std::sync::atomic::Ordering::SeqCst);
                        if matches!(p.prepare(prepare_request(t2, ops2)), PrepareVote::Yes { .. }) {
                            t2_state.store(if finished { 2 } else { 1 }, std::sync::atomic::Ordering::SeqCst);
                            break;
                        }
                        if finished {
                            break;
                        }
                        std::hint::spin_loop();
                    }
                });
            }
        });
        // quiescent from here on
        let st = t2_state.load(std::sync::atomic::Ordering::SeqCst);
        match st {
            1 => granted_during += 1,
            2 => granted_after += 1,
            _ => refused += 1,
        }
        // T2 is aborted whatever it was answered (ABORT for an unknown transaction is harmless)
        let _ = p.abort(t2);
        if !ok.load(std::sync::atomic::Ordering::SeqCst) {
            let _ = p.abort(t1);
            continue;
        }
        committed += 1;
        let mut lost = Vec::new();
        for (j, op) in ops.iter().enumerate() {
            if let Transaction::Put { key, data } = op {
                let have = p.store().get(key).ok().map(|d| tag_of(&d));
                if have.as_deref() != Some(&String::from_utf8_lossy(data)) {
                    lost.push((j, have));
                }
            }
        }
        if !lost.is_empty() {
            rep.violation(
                "threaded:committed-write-lost:other-tx-prepared-during-commit-then-aborted",
                format!(
                    "round {}: COMMIT(T1) ({} writes of {} bytes, keys {}) and PREPARE(T2) on {} of T1's {} keys were handled concurrently by one participant (T2 was {}); the commit was acknowledged, T2 was then aborted; {} of T1's keys no longer hold T1's value (first: #{} holds {:?})",
                    it, nkeys, pad, if preexisting { "existed before" } else { "new" }, n2, if from_end { "last" } else { "first" },
                    match st { 1 => "granted while the commit ran", 2 => "granted after the commit returned", _ => "refused" },
                    lost.len(), lost[0].0, lost[0].1.as_ref().map(|s| s.chars().take(40).collect::<String>())
                ),
                json!({"mode": "burst-other-prepare", "case_seed": case_seed}),
            );
            break;
        }
    }
    drop_violations_of_a_stalled_round(rep, stall_before, round_started);
    rep.count("threaded:other-prepare-vs-commit-rounds", done);
    rep.count("threaded:other-prepare-vs-commit-committed", committed);
    rep.count("threaded:other-prepare-granted-while-commit-ran", granted_during);
    rep.count("threaded:other-prepare-granted-after-commit", granted_after);
    rep.count("threaded:other-prepare-refused", refused);
    rep.eval(case_seed ^ 0xC0C, committed > 0);
}

/// The rollback of an aborted transaction T1 handled by a participant at the same moment as the
/// messages of a second transaction T2 that overlaps T1 on keys of that shard. Two shards: T1 is
/// prepared on both (many keys with fat pre-images on shard 0, so that rolling it back takes a
/// while; the keys exist before, do not exist, or are mixed); T2 is prepared on shard 1, its
/// PREPARE for shard 0 (1-3 of T1's keys: the first, the last or random ones; puts and deletes) was
/// refused while T1 held the keys and is re-delivered until shard 0 grants it; then every shard
/// has voted yes, T2's decision is COMMIT and both shards handle the COMMIT at once. The rollback
/// of T1 on shard 0 runs meanwhile on another thread: ABORT(T1), two duplicates of ABORT(T1), or
/// the participant's stale sweep followed by the ABORT. Oracle at quiescence (after one more
/// delivery of ABORT(T1)): clause (c') every key T2 wrote on shard 0 holds what T2 left there (so
/// the shards are not split between T2 applied on shard 1 and discarded on shard 0); clause (d)
/// every other key of the aborted T1 is exactly its pre-image, on both shards. Only rounds where
/// both `TxParticipant::commit(T2)` reported success are judged for (c').
fn burst_rollback_other_commit_case(case_seed: u64, rep: &mut Report) {
    use std::sync::atomic::{AtomicBool, AtomicU64, AtomicU8, Ordering::SeqCst};
    let mut rng = Rng::new(case_seed);
    let p0 = Arc::new(TxParticipant::new(TensorStore::new()));
    let p1 = Arc::new(TxParticipant::new(TensorStore::new()));
    let rounds = 120u64;
    let (mut done, mut committed, mut refused_first, mut granted_during, mut granted_after, mut never_granted) = (0u64, 0u64, 0u64, 0u64, 0u64, 0u64);
    let (mut by_abort, mut by_dup_abort, mut by_sweep, mut t2_deletes, mut keys_checked) = (0u64, 0u64, 0u64, 0u64, 0u64);
    let bytes_tensor = |tag: &str| {
        let mut d = TensorData::new();
        d.set("data", TensorValue::Scalar(ScalarValue::Bytes(tag.as_bytes().to_vec())));
        d
    };
    let stall_before = (rep.violations.len(), rep.violations_total);
    let mut round_started = Instant::now();
    for it in 0..rounds {
        round_started = Instant::now();
        done += 1;
        let t1 = case_seed.wrapping_mul(8192).wrapping_add(2 * it + 1);
        let t2 = t1 + 1;
        let nkeys = 40 + rng.below(260);
        let pad = [64usize, 512, 2048][rng.below(3)];
        let key = |j: usize| format!("q{}k{}", it, j);
        // pre-image of T1's keys on shard 0: all there / none there / mixed
        let pre_kind = rng.below(4); // 0 none, 1 mixed, 2-3 all
        let mut pre: Vec<Option<String>> = Vec::with_capacity(nkeys);
        for j in 0..nkeys {
            let there = match pre_kind {
                0 => false,
                1 => rng.bool(),
                _ => true,
            };
            if there {
                let mut tag = format!("init:{}:{}:", it, j);
                tag.extend(std::iter::repeat('.').take(pad));
                let _ = p0.store().put(key(j), bytes_tensor(&tag));
                pre.push(Some(tag));
            } else {
                pre.push(None);
            }
        }
        let ops1: Vec<Transaction> = (0..nkeys)
            .map(|j| {
                if rng.chance(1, 8) {
                    Transaction::Delete { key: key(j) }
                } else {
                    Transaction::Put { key: key(j), data: format!("t1:s0:{}:{}", it, j).into_bytes() }
                }
            })
            .collect();
        let ops1_s1 = vec![Transaction::Put { key: format!("a{}", it), data: format!("t1:s1:{}", it).into_bytes() }];
        if !matches!(p0.prepare(prepare_request(t1, &ops1)), PrepareVote::Yes { .. }) || !matches!(p1.prepare(prepare_request(t1, &ops1_s1)), PrepareVote::Yes { .. }) {
            let _ = p0.abort(t1);
            let _ = p1.abort(t1);
            continue;
        }
        // T2 on shard 0: 1-3 of T1's keys — those T1 lists first (rolled back last), last, or random ones
        let n2 = 1 + rng.below(3).min(nkeys - 1);
        let pick = rng.below(4); // 0-1 first, 2 last, 3 random
        let mut idx: Vec<usize> = match pick {
            0 | 1 => (0..n2).collect(),
            2 => (0..n2).map(|j| nkeys - 1 - j).collect(),
            _ => (0..n2).map(|_| rng.below(nkeys)).collect(),
        };
        idx.sort();
        idx.dedup();
        let ops2: Vec<Transaction> = idx
            .iter()
            .map(|&j| {
                if pre[j].is_some() && rng.chance(1, 4) {
                    t2_deletes += 1;
                    Transaction::Delete { key: key(j) }
                } else {
                    Transaction::Put { key: key(j), data: format!("t2:s0:{}:{}", it, j).into_bytes() }
                }
            })
            .collect();
        let ops2_s1 = vec![Transaction::Put { key: format!("b{}", it), data: format!("t2:s1:{}", it).into_bytes() }];
        let yes_s1 = matches!(p1.prepare(prepare_request(t2, &ops2_s1)), PrepareVote::Yes { .. });
        // the first delivery of T2's PREPARE to shard 0 arrives while T1 holds the keys
        let mut yes_s0 = matches!(p0.prepare(prepare_request(t2, &ops2)), PrepareVote::Yes { .. });
        if !yes_s0 {
            refused_first += 1;
        }
        // how T1 is rolled back on shard 0
        let how = [0usize, 0, 0, 0, 0, 1, 1, 2][rng.below(8)]; // 0 ABORT, 1 two duplicates of ABORT, 2 stale sweep then ABORT
        match how {
            0 => by_abort += 1,
            1 => by_dup_abort += 1,
            _ => by_sweep += 1,
        }
        let rollers = if how == 1 { 2 } else { 1 };
        let bar = Arc::new(std::sync::Barrier::new(rollers + 1));
        let rollers_done = AtomicU64::new(0);
        let t2_state = AtomicU8::new(if yes_s0 { 3 } else { 0 }); // 0 never granted, 1 granted while the rollback ran, 2 granted after it returned, 3 granted at once
        let (ok0, ok1) = (AtomicBool::new(false), AtomicBool::new(false));
        std::thread::scope(|sc| {
            for _ in 0..rollers {
                let (p0, bar, rollers_done) = (p0.clone(), bar.clone(), &rollers_done);
                sc.spawn(move || {
                    bar.wait();
                    if how == 2 {
                        let _ = p0.cleanup_stale(Duration::ZERO);
                    }
                    let _ = p0.abort(t1);
                    rollers_done.fetch_add(1, SeqCst);
                });
            }
            {
                let (p0, p1, bar, ops2, rollers_done, t2_state, ok0, ok1) = (p0.clone(), p1.clone(), bar.clone(), &ops2, &rollers_done, &t2_state, &ok0, &ok1);
                let granted_at_once = yes_s0;
                sc.spawn(move || {
                    bar.wait();
                    let mut granted = granted_at_once;
                    let mut tries_after = 0;
                    while !granted {
                        let finished = rollers_done.load(SeqCst) == rollers as u64;
                        if matches!(p0.prepare(prepare_request(t2, ops2)), PrepareVote::Yes { .. }) {
                            t2_state.store(if finished { 2 } else { 1 }, SeqCst);
                            granted = true;
                            break;
                        }
                        if finished {
                            // the statement does not say when a refused PREPARE must be granted: give up
                            tries_after += 1;
                            if tries_after > 3 {
                                break;
                            }
                        }
                        std::hint::spin_loop();
                    }
                    if granted && yes_s1 {
                        // every participant voted yes: the decision is COMMIT, delivered to both shards
                        if p0.commit(t2).success {
                            ok0.store(true, SeqCst);
                        }
                        if p1.commit(t2).success {
                            ok1.store(true, SeqCst);
                        }
                    }
                });
            }
        });
        // quiescent from here on
        let st = t2_state.load(SeqCst);
        yes_s0 = st != 0;
        match st {
            1 => granted_during += 1,
            2 => granted_after += 1,
            0 => never_granted += 1,
            _ => {}
        }
        // T1's ABORT reaches both shards (on shard 0 once more)
        let _ = p0.abort(t1);
        let _ = p1.abort(t1);
        let t2_committed = ok0.load(SeqCst) && ok1.load(SeqCst);
        if !(yes_s0 && yes_s1) {
            // T2 did not get every vote: its decision is ABORT
            let _ = p0.abort(t2);
            let _ = p1.abort(t2);
        }
        let read = |p: &TxParticipant, k: &str| p.store().get(k).ok().map(|d| tag_of(&d));
        let short = |v: &Option<String>| v.as_ref().map(|s| s.chars().take(32).collect::<String>());
        let how_name = ["ABORT(T1)", "two duplicates of ABORT(T1)", "the stale sweep, then ABORT(T1)"][how];
        let st_name = match st {
            1 => "granted while the rollback ran",
            2 => "granted after the rollback returned",
            3 => "granted at once",
            _ => "never granted",
        };
        let setting = format!(
            "round {}: T1 prepared on shard 0 ({} keys, pre-images {} of {} bytes) and shard 1, decision ABORT, rolled back on shard 0 by {}; meanwhile T2 ({:?}) was re-delivered to shard 0 ({}), had the yes of shard 1, decision COMMIT, commit acknowledged by shard 0: {}, by shard 1: {}",
            it, nkeys, ["absent", "mixed", "present", "present"][pre_kind], pad, how_name,
            ops2.iter().map(op_name).collect::<Vec<_>>(), st_name, ok0.load(SeqCst), ok1.load(SeqCst)
        );
        let mut bad = false;
        let mut t2_keys: BTreeSet<usize> = BTreeSet::new();
        if t2_committed {
            committed += 1;
            // (c') what the committed T2 left on shard 0 is still there
            for (&j, op) in idx.iter().zip(ops2.iter()) {
                t2_keys.insert(j);
                keys_checked += 1;
                let want = effect(op).and_then(|e| e.1);
                let have = read(&p0, &key(j));
                if have != want {
                    rep.violation(
                        "threaded:committed-write-lost:other-tx-rolled-back-concurrently",
                        format!(
                            "{}; shard 1 holds T2's write ({:?}) but on shard 0 key {:?} (#{} of T1's keys) holds {:?} instead of what T2 left ({:?}); its pre-image was {:?}",
                            setting, short(&read(&p1, &format!("b{}", it))), key(j), j, short(&have), short(&want), short(&pre[j])
                        ),
                        json!({"mode": "burst-rollback-other-commit", "case_seed": case_seed}),
                    );
                    bad = true;
                    break;
                }
            }
            if !bad && read(&p1, &format!("b{}", it)).as_deref() != Some(&format!("t2:s1:{}", it)) {
                rep.violation(
                    "threaded:committed-write-lost:other-tx-rolled-back-concurrently",
                    format!("{}; shard 1 does not hold T2's write: {:?}", setting, short(&read(&p1, &format!("b{}", it)))),
                    json!({"mode": "burst-rollback-other-commit", "case_seed": case_seed}),
                );
                bad = true;
            }
        } else if (ok0.load(SeqCst) || ok1.load(SeqCst)) && how != 2 {
            // one shard refused the COMMIT of a transaction it voted yes for and nobody aborted:
            // clause (c). (Not judged with the stale sweep, whose zero timeout is the harness's.)
            rep.violation(
                "threaded:committed-tx-not-applied-on-yes-voter:other-tx-rolled-back-concurrently",
                setting.clone(),
                json!({"mode": "burst-rollback-other-commit", "case_seed": case_seed}),
            );
            bad = true;
        } else if ok0.load(SeqCst) || ok1.load(SeqCst) {
            for &j in &idx {
                t2_keys.insert(j);
            }
        }
        // (d) the aborted T1 (and an aborted T2) left everything else as it was
        if !bad {
            for j in 0..nkeys {
                if t2_keys.contains(&j) {
                    continue;
                }
                keys_checked += 1;
                let have = read(&p0, &key(j));
                if have != pre[j] {
                    rep.violation(
                        "threaded:key-of-non-committed-tx-differs-from-pre-image:rollback-concurrent-with-other-tx",
                        format!("{}; shard 0 key {:?} (#{} of T1's keys, not written by a committed transaction) holds {:?}, pre-image {:?}", setting, key(j), j, short(&have), short(&pre[j])),
                        json!({"mode": "burst-rollback-other-commit", "case_seed": case_seed}),
                    );
                    bad = true;
                    break;
                }
            }
            let a = read(&p1, &format!("a{}", it));
            if !bad && a.is_some() {
                rep.violation(
                    "threaded:write-visible-without-commit-decision:aborted",
                    format!("{}; shard 1 key \"a{}\" holds {:?} written by the aborted T1", setting, it, short(&a)),
                    json!({"mode": "burst-rollback-other-commit", "case_seed": case_seed}),
                );
                bad = true;
            }
        }
        if bad {
            break;
        }
    }
    drop_violations_of_a_stalled_round(rep, stall_before, round_started);
    rep.count("threaded:rollback-vs-other-commit-rounds", done);
    rep.count("threaded:rollback-vs-other-commit-committed", committed);
    rep.count("threaded:rollback-vs-other-commit-prepare-refused-while-t1-held-keys", refused_first);
    rep.count("threaded:rollback-vs-other-commit-granted-while-rollback-ran", granted_during);
    rep.count("threaded:rollback-vs-other-commit-granted-after-rollback", granted_after);
    rep.count("threaded:rollback-vs-other-commit-never-granted", never_granted);
    rep.count("threaded:rollback-vs-other-commit-by-abort", by_abort);
    rep.count("threaded:rollback-vs-other-commit-by-duplicate-aborts", by_dup_abort);
    rep.count("threaded:rollback-vs-other-commit-by-stale-sweep", by_sweep);
    rep.count("threaded:rollback-vs-other-commit-deletes-by-t2", t2_deletes);
    rep.count("threaded:rollback-vs-other-commit-keys-compared", keys_checked);
    rep.eval(case_seed ^ 0xC0D, committed > 0);
}

/// A threaded round that was stalled for seconds (a loaded machine, a paused VM) is not judged: the
/// participants' 30 s lock leases may have run out in between, and what the shards then show is
/// lease-expiry behaviour, not evidence. The burst parts stop at the first violation of a case, so
/// the time since the start of the last round is the duration of the violating round.
fn drop_violations_of_a_stalled_round(rep: &mut Report, before: (usize, u64), round_started: Instant) {
    if rep.violations_total > before.1 && round_started.elapsed() > Duration::from_secs(4) {
        rep.violations.truncate(before.0);
        rep.violations_total = before.1;
        rep.inconclusive("a threaded round took longer than 4 s of wall time (lock leases may have run out); not judged");
    }
}

/// `c03 witness-race`: two duplicates of PREPARE(T1) and an ABORT(T1) handled at the same time by
/// one participant, repeated until the participant is left with a prepared entry for T1 whose key
/// lock is gone; then the consequence is played out sequentially. No oracle involved.
fn witness_race() {
    let p = Arc::new(TxParticipant::new(TensorStore::new()));
    for it in 0..300_000u64 {
        let key = format!("k{}", it);
        let (t1, t0) = (2 * it + 1, 2 * it + 2);
        let ops1 = vec![Transaction::Put { key: key.clone(), data: b"T1".to_vec() }];
        let bar = Arc::new(std::sync::Barrier::new(3));
        std::thread::scope(|sc| {
            for who in 0..3 {
                let (p, bar, ops1) = (p.clone(), bar.clone(), ops1.clone());
                sc.spawn(move || {
                    bar.wait();
                    if who < 2 {
                        let _ = p.prepare(prepare_request(t1, &ops1));
                    } else {
                        let _ = p.abort(t1);
                    }
                });
            }
        });
        let still_prepared = p.prepared.read().contains_key(&t1);
        let holder = p.locks.lock_holder(&key);
        if still_prepared && holder != Some(t1) {
            println!("iteration {}: after PREPARE(T1) x2 and ABORT(T1) handled concurrently: T1 still prepared = {}, lock holder of {:?} = {:?}", it, still_prepared, key, holder);
            let ops0 = vec![Transaction::Put { key: key.clone(), data: b"T0".to_vec() }];
            println!("prepare(T0 writes the same key) -> yes: {}", matches!(p.prepare(prepare_request(t0, &ops0)), PrepareVote::Yes { .. }));
            println!("commit(T0) -> success {}; key holds {:?}", p.commit(t0).success, p.store().get(&key).ok().map(|d| tag_of(&d)));
            println!("abort(T1) re-delivered -> success {}; key holds {:?}   <- T0 was committed and applied", p.abort(t1).success, p.store().get(&key).ok().map(|d| tag_of(&d)));
            return;
        }
        let _ = p.abort(t1);
    }
    println!("not reproduced in 300000 iterations");
}

/// `c03 witness-timeout --scratch <dir>`: a prepared transaction is timed out (abort broadcast
/// queued), the coordinator restarts from its log and commits it. No oracle involved.
fn witness_timeout(args: &Args) {
    let dir = args.scratch_dir("c03wt");
    let path = dir.join("tx.wal");
    let who = "coord".to_string();
    let yes = |h: u64| PrepareVote::Yes { lock_handle: h, delta: tensor_chain::consensus::DeltaVector::zero(DIM) };
    let t0;
    {
        let c = DistributedTxCoordinator::new(ConsensusManager::default_config(), coordinator_config()).with_wal(tensor_chain::tx_wal::TxWal::open(&path).unwrap());
        t0 = c.begin(&who, &[0, 1]).unwrap().tx_id;
        println!("votes: {:?} {:?}", c.record_vote(t0, 0, yes(11)), c.record_vote(t0, 1, yes(12)));
        std::thread::sleep(Duration::from_millis(2));
        println!("cleanup_timeouts() -> contains t0: {}", c.cleanup_timeouts().contains(&t0));
        println!("take_pending_aborts() -> {:?}   (ABORT is broadcast to shards 0 and 1; they roll back)", c.take_pending_aborts().iter().map(|(id, r, s)| (*id == t0, r.clone(), s.clone())).collect::<Vec<_>>());
    }
    let c = DistributedTxCoordinator::new(ConsensusManager::default_config(), coordinator_config()).with_wal(tensor_chain::tx_wal::TxWal::open(&path).unwrap());
    println!("restart: recover_from_wal -> {:?}; t0 is {:?}", c.recover_from_wal().map(|s| s.pending_prepare).map_err(|e| e.to_string()), c.get(t0).map(|t| t.phase));
    println!("commit(t0) -> {:?}   (COMMIT is now announced for a transaction whose ABORT was broadcast)", c.commit(t0));
}

/// `c03 witness-committing`: a commit decision handed out by recovery is later turned into an
/// abort by abort() and by the timeout sweeper. No oracle involved.
fn witness_committing() {
    let who = "coord".to_string();
    let yes = |h: u64| PrepareVote::Yes { lock_handle: h, delta: tensor_chain::consensus::DeltaVector::zero(DIM) };
    for variant in ["abort()", "cleanup_timeouts()"] {
        let store = TensorStore::new();
        let c = DistributedTxCoordinator::new(ConsensusManager::default_config(), persist_config());
        let t0 = c.begin(&who, &[0, 1]).unwrap().tx_id;
        println!("--- {}: votes {:?} {:?}", variant, c.record_vote(t0, 0, yes(11)), c.record_vote(t0, 1, yes(12)));
        c.save_to_store("c", &store).unwrap();
        drop(c);
        let c = DistributedTxCoordinator::load_from_store("c", &store, ConsensusManager::default_config(), persist_config()).unwrap();
        let _ = c.recover();
        println!("restart: recover(); get_pending_decisions() -> {:?}   (COMMIT is broadcast)", c.get_pending_decisions().iter().map(|(id, p)| (*id == t0, *p)).collect::<Vec<_>>());
        if variant == "abort()" {
            println!("abort(t0) -> {:?}; t0 now {:?}", c.abort(t0, "late client abort"), c.get(t0).map(|t| t.phase));
        } else {
            std::thread::sleep(Duration::from_millis(PERSIST_TIMEOUT_MS + 5));
            println!("cleanup_timeouts() contains t0: {}; take_pending_aborts() -> {:?}   (ABORT is broadcast)", c.cleanup_timeouts().contains(&t0), c.take_pending_aborts().iter().map(|(id, r, s)| (*id == t0, r.clone(), s.clone())).collect::<Vec<_>>());
        }
    }
}

fn main() {
    let args = Args::parse();
    if args.rest.iter().any(|a| a == "witness-committing") {
        witness_committing();
        return;
    }
    if args.rest.iter().any(|a| a == "witness-timeout") {
        witness_timeout(&args);
        return;
    }
    if args.rest.iter().any(|a| a == "witness-race") {
        witness_race();
        return;
    }
    if args.rest.iter().any(|a| a == "witness") {
        witness();
        return;
    }
    let started = Instant::now();
    quiet_panics();
    let mut total = Report::new();
    total.max_samples = 6;
    let mode = args.extra.get("mode").cloned().unwrap_or_else(|| "both".to_string());

    if let Some(p) = &args.replay {
        let v: Value = serde_json::from_str(&std::fs::read_to_string(p).expect("replay file")).expect("json");
        let rp = if v.get("replay").is_some() { &v["replay"] } else { &v };
        let seed = rp["case_seed"].as_u64().expect("case_seed");
        if rp["mode"].as_str() == Some("burst-commit") {
            for _ in 0..50 {
                burst_commit_case(seed, &mut total);
                if total.violations_total > 0 {
                    break;
                }
            }
        } else if rp["mode"].as_str() == Some("burst-other-prepare") {
            for _ in 0..50 {
                burst_other_prepare_case(seed, &mut total);
                if total.violations_total > 0 {
                    break;
                }
            }
        } else if rp["mode"].as_str() == Some("burst-rollback-other-commit") {
            for _ in 0..50 {
                burst_rollback_other_commit_case(seed, &mut total);
                if total.violations_total > 0 {
                    break;
                }
            }
        } else if rp["mode"].as_str() == Some("burst") {
            for _ in 0..50 {
                burst_case(seed, &mut total);
                if total.violations_total > 0 {
                    break;
                }
            }
        } else if rp["mode"].as_str() == Some("threaded") {
            // a thread schedule cannot be replayed exactly: run the same case repeatedly
            for _ in 0..200 {
                threaded_case(seed, &mut total);
                if total.violations_total > 0 {
                    break;
                }
            }
        } else if rp["mode"].as_str() == Some("persist") {
            persist_case(seed, &mut total);
        } else if rp["mode"].as_str() == Some("walfault") {
            walfault_case(seed, &mut total, &args.scratch);
        } else {
            sim_case(seed, &mut total);
        }
    } else {
        if mode == "both" || mode == "sim" {
            let n = args.extra_u64("cases", args.by_tier(7_000, 600_000));
            let rep = par_cases(args.threads, args.seed, n, args.budget(40, 600), |_i, s, r| sim_case(s, r));
            total.merge(rep);
            let n = args.extra_u64("walfault-cases", args.by_tier(2_000, 150_000));
            let scratch = args.scratch.clone();
            let rep = par_cases(args.threads, args.seed ^ 0x3C, n, args.budget(15, 240), move |_i, s, r| walfault_case(s, r, &scratch));
            total.merge(rep);
            let n = args.extra_u64("persist-cases", args.by_tier(1_600, 100_000));
            let rep = par_cases(args.threads, args.seed ^ 0x5D, n, args.budget(15, 240), |_i, s, r| persist_case(s, r));
            total.merge(rep);
        }
        if mode == "both" || mode == "threaded" {
            // each case spawns 2-6 threads of its own: run fewer cases side by side
            let n = args.extra_u64("threaded-cases", args.by_tier(2_400, 60_000));
            let rep = par_cases((args.threads / 3).max(1), args.seed ^ 0x7A, n, args.budget(25, 240), |_i, s, r| threaded_case(s, r));
            total.merge(rep);
            let n = args.extra_u64("burst-cases", args.by_tier(12, 200));
            let rep = par_cases((args.threads / 4).max(1), args.seed ^ 0x7B, n, args.budget(10, 60), |_i, s, r| burst_case(s, r));
            total.merge(rep);
            let n = args.extra_u64("burst-commit-cases", args.by_tier(12, 200));
            let rep = par_cases((args.threads / 4).max(1), args.seed ^ 0x7C, n, args.budget(10, 60), |_i, s, r| burst_commit_case(s, r));
            total.merge(rep);
            let n = args.extra_u64("burst-other-prepare-cases", args.by_tier(12, 200));
            let rep = par_cases((args.threads / 4).max(1), args.seed ^ 0x7D, n, args.budget(10, 60), |_i, s, r| burst_other_prepare_case(s, r));
            total.merge(rep);
            let n = args.extra_u64("burst-rollback-other-commit-cases", args.by_tier(16, 400));
            let rep = par_cases((args.threads / 4).max(1), args.seed ^ 0x7E, n, args.budget(10, 90), |_i, s, r| burst_rollback_other_commit_case(s, r));
            total.merge(rep);
        }
    }

    let mut floors: Vec<(&'static str, u64)> = Vec::new();
    if args.replay.is_none() {
        if mode == "both" || mode == "sim" {
            floors.extend([
                ("sim_cases", 1_000u64),
                ("decided:commit", 200),
                ("decided:abort", 500),
                ("ev:participant-commit-applied", 400),
                ("ev:participant-abort", 1_000),
                ("ev:msg-duplicated", 500),
                ("ev:msg-dropped", 500),
                ("ev:msg-out-of-order", 2_000),
                ("ev:vote-rejected", 300),
                ("timeouts-fired", 200),
                ("ev:coord-commit-refused", 100),
                ("walfault_cases", 500),
                ("wal_append_refusals_injected", 500),
                ("decisions_attempted_with_refusing_wal", 200),
                ("recoveries_after_refusal", 200),
                ("prepared_restored_after_restart", 30),
                ("persist_cases", 300),
                ("persist:coordinator-restarts", 300),
                ("persist:coordinator-restarts-after-long-outage", 50),
                ("persist:commit-handed-out-by-recovery", 30),
                ("persist:abort-handed-out-by-recovery", 100),
                ("persist:participant-restarts", 300),
                ("persist:delays", 100),
                ("ev:decision-poll", 1_000),
            ]);
        }
        if mode == "both" || mode == "threaded" {
            floors.extend([("threaded_cases", 40u64), ("threaded:decided:commit", 15), ("threaded:decided:abort", 20), ("threaded:same-tx-burst-rounds-with-later-commit", 100), ("threaded:prepare-vs-commit-bursts-committed", 200), ("threaded:prepare-vs-commit-leftover-entries-swept", 20), ("threaded:other-prepare-vs-commit-committed", 200), ("threaded:rollback-vs-other-commit-committed", 200), ("threaded:rollback-vs-other-commit-prepare-refused-while-t1-held-keys", 200), ("threaded:rollback-vs-other-commit-granted-while-rollback-ran", 100)]);
        }
    }
    let meta = Meta {
        property: "C03",
        rule: "one evaluation = one complete schedule (sim: seeded message-level schedule over 1 real coordinator, 2-3 real participants, 1-3 transactions, <=4 keys per shard, run to quiescence; threaded: one run of 1-4 transaction threads plus 1-2 chaos threads on shared objects; burst parts: one case = 120-1500 rounds of one barrier-released message race on a participant, judged at quiescence after every round). Distinct by the hash of the executed event trace (sim) / the case seed (threaded); non-trivial if at least one transaction reached a decision and the schedule contained a fault (loss, duplication, rejected vote, retransmission, timeout sweep) or more than one transaction.",
        assumptions: vec![
            "participant key locks keep their 30 s default expiry, which never fires within a case; a simulated schedule, threaded case or burst round that took more than 4 s of wall time (a stalled machine, a paused VM) and shows a violation is counted inconclusive instead of being judged".into(),
            "a timeout event = sleep 1.1 ms + cleanup_timeouts() with prepare_timeout_ms = 0; the list it returns is the observation, the clock is not judged".into(),
            "re-delivery of a commit that was already applied is not judged (the statement is silent); the reference state follows every successful TxParticipant::commit".into(),
            "one case in six also uses typed operations (NodeCreate/NodeDelete/TableInsert) next to Put/Delete on the same storage keys (node:n0, table:tb), i.e. overlapping data under different lock names".into(),
            "walfault part: the participants do not crash; messages in flight survive the coordinator crash; a vote counts as accepted only if the coordinator recorded it (with a log, record_vote answers Ok(None) without recording when the vote cannot be logged); transactions restored as Prepared keep the 5 s default timeout, which never fires within a case".into(),
            "persist part: the coordinator's state is saved after every event (write-through), so a restart never sees stale state; the prepare timeout is 12 ms there and outages / pauses are real sleeps of 17 / 35 ms — what the coordinator then decides is observed, the clock is not judged; a participant's persisted protocol state (keys _dtx:*) is not shard data".into(),
            "a vote is attributed to the shard that produced it; a shard outside the participant list that receives a mis-routed PREPARE answers like any other, and its vote is not a participant's vote: commit still needs an accepted yes of every participant".into(),
            "rollback-vs-other-commit burst part: the harness plays the coordinator for two transactions on two participants (T1: decision ABORT after both shards voted yes; T2: decision COMMIT only after both shards voted yes, its PREPARE for the contended shard being re-delivered until granted); judged at quiescence only: keys written by T2 on a shard that acknowledged COMMIT(T2) hold what T2 left, every other key T1 touched equals its pre-image; when a refused PREPARE is granted is not judged".into(),
            "threaded final-state clause: a key written by committed-and-applied transactions must hold what one of them left (order between them not judged); sound because a transaction's undo image is captured and re-applied under its own key lock".into(),
        ],
        floors,
        exhaustive: false,
    };
    write_result(&args, &meta, &total, started);
}
