//! C10 — a Raft node restarted from its write-ahead log never forgets a vote, a term or an
//! acknowledged entry; wherever the crash interrupted a log write; also after further restarts.
//!
//! What runs: one real `RaftNode::with_wal` ("n0") on a real `RaftWal` file, driven through its
//! public surface (`handle_message`, `start_election_async`, `start_pre_vote_async`,
//! `send_heartbeats`, `propose`, `install_snapshot`) by a seeded hostile environment (candidates,
//! leaders of different terms with diverging logs, stale and future terms, overlapping / conflicting
//! / gapped appends, step-downs).
//!
//! Oracle = promise ledger. Every reply returned by the node, every message it put on the wire and
//! every `propose` result adds obligations, stamped with the length of the WAL file *on disk* at the
//! moment the call returned (the ack boundary):
//!     term >= t            (any term the node put into a reply or a request)
//!     voted_for(t) = c     (a granted RequestVoteResponse, or its own candidacy for t)
//!     entry(i) = (t, bytes) (entries carried by an AppendEntries it answered with success, entries it
//!                           returned from `propose`, entries it replicated as leader)
//! An entry obligation ends when the node later accepts a conflicting entry at or below that index
//! from a newer leader (the Raft conflict rule), or when a snapshot install replaces the log with
//! entries that differ from it there (entries the snapshot repeats stay promised at every byte of
//! the install's own WAL writes); nothing else ends an obligation.
//! A crash at byte b is the WAL file cut to b bytes. `RaftNode::with_wal` on that image must succeed
//! and satisfy every obligation stamped <= b. Chains: the real file is cut at b, the real node is
//! restarted on it, driven further, and all truncations of the grown file are judged again (up to
//! three crashes) — so records appended behind a torn tail are exercised.
//! Because obligations are stamped with the on-disk length, "answered before the record reached the
//! file" (ack before write/flush) shows up as a violated image at exactly the ack boundary.
//!
//! parts:  main      elections, votes, appends, conflict truncations, leadership, proposals,
//!                   commitment + log compaction behind a snapshot (finalize_to + tick_async, or
//!                   create_snapshot + truncate_log), deposition of a leader with a compacted log
//!         concurrent-votes  2-3 threads released on a barrier deliver RequestVotes of one term from
//!                   different candidates to one real node (real WAL): at most one grant per term,
//!                   and every byte prefix of the WAL restarts with the granted vote
//!         snapshot  the same plus `install_snapshot` (direct and via SnapshotResponse) of snapshots
//!                   from leaders with full and with compacted logs (snapshot starts after index 1)

use common::*;
use h_chain::CaptureTransport;
use serde_json::{json, Value};
use std::collections::{BTreeMap, BTreeSet};
use std::path::{Path, PathBuf};
use std::sync::Arc;
use std::time::Instant;
use tensor_chain::block::{Block, BlockHeader};
use tensor_chain::network::{
    AppendEntries, AppendEntriesResponse, LogEntry, Message, PreVote, PreVoteResponse, RequestVote, RequestVoteResponse,
    SnapshotResponse, TimeoutNow,
};
use tensor_chain::raft::{RaftConfig, RaftNode};
use tensor_chain::raft_wal::{RaftRecoveryState, RaftWal};
use tensor_store::SparseVector;

/// The transport of the node under test. Every message handed to it has left the node: it is
/// recorded together with the length of the WAL file at that very moment (what the message
/// announces must already be in the file then). `fail_next_broadcast` makes one broadcast reach
/// the first peer only and return an error.
struct StampTransport {
    local: String,
    peers: Vec<String>,
    wal: PathBuf,
    outbox: parking_lot::Mutex<Vec<(String, Message, u64)>>,
    fail_next_broadcast: std::sync::atomic::AtomicBool,
}

impl StampTransport {
    fn new(local: &str, peers: &[String], wal: &Path) -> Arc<Self> {
        Arc::new(Self {
            local: local.to_string(),
            peers: peers.to_vec(),
            wal: wal.to_path_buf(),
            outbox: parking_lot::Mutex::new(Vec::new()),
            fail_next_broadcast: std::sync::atomic::AtomicBool::new(false),
        })
    }
    fn drain(&self) -> Vec<(String, Message, u64)> {
        std::mem::take(&mut *self.outbox.lock())
    }
}

#[async_trait::async_trait]
impl tensor_chain::network::Transport for StampTransport {
    async fn send(&self, to: &String, msg: Message) -> tensor_chain::error::Result<()> {
        let at = file_len(&self.wal);
        self.outbox.lock().push((to.clone(), msg, at));
        Ok(())
    }
    async fn broadcast(&self, msg: Message) -> tensor_chain::error::Result<()> {
        let at = file_len(&self.wal);
        let fail = self.fail_next_broadcast.swap(false, std::sync::atomic::Ordering::SeqCst);
        let mut o = self.outbox.lock();
        for p in &self.peers {
            o.push((p.clone(), msg.clone(), at));
            if fail {
                return Err(tensor_chain::error::ChainError::NetworkError("connection to the second peer lost during broadcast".into()));
            }
        }
        Ok(())
    }
    async fn recv(&self) -> tensor_chain::error::Result<(String, Message)> {
        std::future::pending().await
    }
    async fn connect(&self, _peer: &tensor_chain::network::PeerConfig) -> tensor_chain::error::Result<()> {
        Ok(())
    }
    async fn disconnect(&self, _peer_id: &String) -> tensor_chain::error::Result<()> {
        Ok(())
    }
    fn peers(&self) -> Vec<String> {
        self.peers.clone()
    }
    fn local_id(&self) -> &String {
        &self.local
    }
}

#[global_allocator]
static A: common::alloc::Counting = common::alloc::Counting;

const NODE: &str = "n0";

fn cfg() -> RaftConfig {
    RaftConfig {
        auto_heartbeat: false,
        // wall clock never decides anything here: pre-votes are only granted after
        // `reset_heartbeat_for_election` (10 s in the past) against a 1 s threshold
        election_timeout: (1_000, 2_000),
        // log compaction must be reachable with logs of a handful of entries
        snapshot_threshold: 3,
        snapshot_trailing_logs: 1,
        compaction_check_interval: 1,
        compaction_cooldown_ms: 0,
        ..RaftConfig::default()
    }
}

// ------------------------------------------------------------------------------------------------
// deterministic entry contents: (index, term) -> block  (one leader per term, so (index, term)
// identifies an entry, as in Raft)
// ------------------------------------------------------------------------------------------------

thread_local! {
    /// cases with occasional large (1-3 MiB) incompressible blocks; entry content stays a function
    /// of (index, term) within the case
    static BIG_BLOCKS: std::cell::Cell<bool> = const { std::cell::Cell::new(false) };
}

fn mk_block(index: u64, term: u64) -> Block {
    let k = hash_combine(index.wrapping_mul(0x9E37), term.wrapping_add(77));
    let mut h = BlockHeader::default();
    if BIG_BLOCKS.with(|b| b.get()) && (k >> 20) % 8 == 0 {
        let len = (1usize << 20) + 4096 + ((k >> 8) as usize % (2 << 20));
        h.signature = Rng::new(k).bytes(len);
    }
    h.height = index;
    h.timestamp = term;
    h.proposer = format!("L{}", term);
    h.prev_hash[..8].copy_from_slice(&k.to_le_bytes());
    h.quantized_codes = (0..(k % 20) as u16).collect();
    Block::new(h, Vec::new())
}
fn mk_entry(index: u64, term: u64) -> LogEntry {
    LogEntry::new(term, index, mk_block(index, term))
}
fn entry_bytes(e: &LogEntry) -> Vec<u8> {
    bitcode::serialize(e).unwrap_or_default()
}

/// (first held index, last_log_index, last_log_term); an empty log holds nothing: first = last + 1
fn held_range(n: &RaftNode) -> (u64, u64, u64) {
    let li = n.last_log_index();
    (li.saturating_sub(n.log_length() as u64) + 1, li, n.last_log_term())
}

fn file_len(p: &Path) -> u64 {
    std::fs::metadata(p).map(|m| m.len()).unwrap_or(0)
}

// ------------------------------------------------------------------------------------------------
// promise ledger
// ------------------------------------------------------------------------------------------------

#[derive(Clone, Debug)]
struct EntryObl {
    from: u64,
    /// obligation applies to images x with from <= x <= until (None = open)
    until: Option<u64>,
    index: u64,
    term: u64,
    bytes: Vec<u8>,
    why: &'static str,
    /// created while the live node held a snapshot-installed log (which the WAL does not describe)
    snap: bool,
}

#[derive(Default)]
struct Ledger {
    /// (stamp, term, why) — only strictly increasing terms are kept (the obligation is the maximum)
    terms: Vec<(u64, u64, String)>,
    /// (stamp, term, candidate)
    votes: Vec<(u64, u64, String)>,
    entries: Vec<EntryObl>,
    /// ack boundary -> (log_length, last_log_index, last_log_term) the live node reported there
    shape: BTreeMap<u64, (u64, u64, u64, Option<Vec<u64>>)>,
}

impl Ledger {
    fn term(&mut self, stamp: u64, term: u64, why: &str) {
        if self.terms.last().map_or(true, |l| term > l.1) {
            self.terms.push((stamp, term, why.to_string()));
        }
    }
    fn vote(&mut self, stamp: u64, term: u64, cand: &str) {
        if !self.votes.iter().any(|v| v.1 == term && v.2 == cand) {
            self.votes.push((stamp, term, cand.to_string()));
        }
    }
    fn entry(&mut self, stamp: u64, index: u64, term: u64, bytes: Vec<u8>, why: &'static str, snap: bool) {
        if self.entries.iter().any(|e| e.until.is_none() && e.index == index && e.term == term) {
            return; // the earlier stamp is the stronger obligation
        }
        self.entries.push(EntryObl { from: stamp, until: None, index, term, bytes, why, snap });
    }
    /// the node accepted a conflicting entry at `index` in a call that started at file length `pre`
    fn supersede_from(&mut self, index: u64, pre: u64) {
        for e in self.entries.iter_mut() {
            if e.until.is_none() && e.index >= index {
                e.until = Some(pre);
            }
        }
    }
    /// an installed snapshot starts at `first`: what precedes it is covered by the snapshot and
    /// compacted on the live node from that call on
    fn supersede_below(&mut self, first: u64, pre: u64) {
        for e in self.entries.iter_mut() {
            if e.until.is_none() && e.index < first {
                e.until = Some(pre);
            }
        }
    }
    /// the world after byte b never happened
    fn crash(&mut self, b: u64) {
        self.terms.retain(|t| t.0 <= b);
        self.votes.retain(|v| v.0 <= b);
        self.entries.retain(|e| e.from <= b);
        for e in self.entries.iter_mut() {
            if let Some(u) = e.until {
                if u >= b {
                    e.until = None; // the superseding call never started writing
                }
            }
        }
        // obligations whose superseding call was in progress at b stay closed (don't care)
        self.shape.retain(|k, _| *k <= b);
    }
    fn applicable(&self, x: u64) -> usize {
        self.terms.iter().filter(|t| t.0 <= x).count()
            + self.votes.iter().filter(|v| v.0 <= x).count()
            + self.entries.iter().filter(|e| e.from <= x && e.until.map_or(true, |u| x <= u)).count()
    }
}

// ------------------------------------------------------------------------------------------------
// simulation
// ------------------------------------------------------------------------------------------------

#[derive(Clone, Copy, PartialEq, Eq, Debug)]
enum Part {
    Main,
    Snapshot,
}
impl Part {
    fn name(self) -> &'static str {
        match self {
            Part::Main => "main",
            Part::Snapshot => "snapshot",
        }
    }
}

struct Sim {
    part: Part,
    seed: u64,
    rng: Rng,
    dir: Scratch,
    wal: PathBuf,
    img: PathBuf,
    peers: Vec<String>,
    transport: Arc<StampTransport>,
    node: Option<RaftNode>,
    rt: tokio::runtime::Runtime,
    // environment: log (entry terms, index = position + 1) of the leader of each term
    leaders: BTreeMap<u64, Vec<u64>>,
    /// terms in which n0 campaigned (so the environment never invents another leader for them)
    node_terms: BTreeSet<u64>,
    /// reference model of the node's in-memory log (entry terms), by the Raft follower rule
    model_log: Vec<u64>,
    led: Ledger,
    /// ends of complete records written so far (file offsets)
    bounds: BTreeSet<u64>,
    /// file length after each call (ack boundaries)
    calls: BTreeSet<u64>,
    /// offset at which records were appended behind an unrepaired partial record
    garbage_from: Option<u64>,
    /// file length before the first successful snapshot install still reflected in the file
    snapshot_at: Option<u64>,
    /// entries the live node has compacted away behind a snapshot (its log_base_index, observed as
    /// last_log_index - log_length); 0 after every restart and snapshot install
    base: u64,
    /// length of the prefix of `model_log` the live node regards as committed (commit_index); the
    /// environment honours it (Leader Completeness): every later leader's log starts with it
    committed: usize,
    force_win: bool,
    force_hb_success: bool,
    /// the live log stopped following the reference model (see check_model)
    diverged: bool,
    /// a case with occasional 1-3 MiB incompressible blocks (crash images are sampled sparsely)
    big: bool,
    crashes: Vec<u64>,
    trace: Vec<String>,
    seen: BTreeSet<String>,
    stop: bool,
    quick: bool,
    /// `child-ack` mode (strace leg): write an `ACK n what` line to fd 1 whenever the node has
    /// just emitted something that carries a promise
    ack_out: Option<std::fs::File>,
    acks: u64,
}

impl Sim {
    fn new(part: Part, seed: u64, base: &Path, quick: bool) -> Sim {
        let mut rng = Rng::new(seed);
        let n_peers = if rng.chance(2, 3) { 2 } else { 4 };
        let peers: Vec<String> = (1..=n_peers).map(|i| format!("n{}", i)).collect();
        let dir = Scratch::new(base, "c10");
        let wal = dir.join("n0.wal");
        let img = dir.join("image.wal");
        let transport = StampTransport::new(NODE, &peers, &wal);
        let rt = tokio::runtime::Builder::new_current_thread().build().expect("tokio runtime");
        Sim {
            part,
            seed,
            rng,
            dir,
            wal,
            img,
            peers,
            transport,
            node: None,
            rt,
            leaders: BTreeMap::new(),
            node_terms: BTreeSet::new(),
            model_log: Vec::new(),
            led: Ledger::default(),
            bounds: BTreeSet::new(),
            calls: BTreeSet::new(),
            garbage_from: None,
            snapshot_at: None,
            base: 0,
            committed: 0,
            force_win: false,
            force_hb_success: false,
            diverged: false,
            big: false,
            crashes: Vec::new(),
            trace: Vec::new(),
            seen: BTreeSet::new(),
            stop: false,
            quick,
            ack_out: None,
            acks: 0,
        }
    }

    fn replay(&self) -> Value {
        json!({"part": self.part.name(), "case_seed": self.seed, "quick": self.quick, "big": self.big})
    }

    fn ctx(&self, x: u64, snap: bool) -> &'static str {
        if self.garbage_from.map_or(false, |g| x > g) {
            "append-after-torn-tail"
        } else if snap || self.snapshot_at.map_or(false, |s| x > s) {
            "after-snapshot-install"
        } else {
            "clean-wal"
        }
    }

    fn violation(&mut self, r: &mut Report, what: &str, x: u64, detail: String) {
        self.violation_ctx(r, what, x, false, detail)
    }

    fn violation_ctx(&mut self, r: &mut Report, what: &str, x: u64, snap: bool, detail: String) {
        let sig = format!("{}:{}", what, self.ctx(x, snap));
        self.stop = true;
        if !self.seen.insert(sig.clone()) {
            return;
        }
        let tail: Vec<&String> = self.trace.iter().rev().take(30).rev().collect();
        let d = format!(
            "{} | image = first {} bytes of a {}-byte WAL; earlier crashes in this chain at bytes {:?}; peers {:?}; last steps: {:?}",
            detail,
            x,
            file_len(&self.wal),
            self.crashes,
            self.peers,
            tail
        );
        r.violation(sig, d, self.replay());
    }

    fn node(&self) -> &RaftNode {
        self.node.as_ref().expect("live node")
    }

    fn open_node(&mut self, r: &mut Report) -> bool {
        self.transport = StampTransport::new(NODE, &self.peers, &self.wal);
        match RaftNode::with_wal(NODE.to_string(), self.peers.clone(), self.transport.clone(), cfg(), &self.wal) {
            Ok(n) => {
                self.node = Some(n);
                true
            }
            Err(e) => {
                // the same image was judged by eval_one just before; reaching this means the image
                // check and the real restart disagree
                let x = file_len(&self.wal);
                self.violation(r, &format!("restart-fails-{}", err_class(&e.to_string())), x, format!("RaftNode::with_wal failed on the chain restart: {}", e));
                false
            }
        }
    }

    // ---- bookkeeping around every call into the node ------------------------------------------

    /// after a call: on-disk length, record boundaries of what was written, live log shape
    fn after_call(&mut self, pre: u64, r: &mut Report) -> u64 {
        let post = file_len(&self.wal);
        if post > pre {
            match std::fs::read(&self.wal) {
                Ok(bytes) => {
                    let mut p = pre as usize;
                    let end = post as usize;
                    let mut ok = bytes.len() >= end;
                    while ok && p < end {
                        if p + 8 > end {
                            ok = false;
                            break;
                        }
                        let len = u32::from_le_bytes([bytes[p], bytes[p + 1], bytes[p + 2], bytes[p + 3]]) as usize;
                        p += 8 + len;
                        if p > end {
                            ok = false;
                            break;
                        }
                        self.bounds.insert(p as u64);
                        r.count("wal_records_written", 1);
                        if len > (1 << 20) {
                            r.count("wal_records_larger_than_1MiB", 1);
                        }
                    }
                    if !ok {
                        // bytes on disk at an ack boundary are not a whole number of records
                        // (not judged here: the image at this boundary is judged by the ledger)
                        r.count("ack_boundary_with_partial_record_on_disk", 1);
                    }
                }
                Err(_) => {
                    r.inconclusive("cannot read the WAL file back");
                    self.stop = true;
                }
            }
        } else if post < pre {
            r.inconclusive("WAL shrank during a protocol call");
            self.stop = true;
        }
        self.calls.insert(post);
        r.count("ack_boundaries", 1);
        let (first, li, lt) = self.live_shape();
        if self.node().log_length() > 0 {
            self.base = first - 1;
        }
        // the model is attached at the end of the step (it is updated after the reply is read)
        self.led.shape.insert(post, (first, li, lt, None));
        post
    }

    /// (first held index, last_log_index, last_log_term) of the live node. The first held index is
    /// last_log_index - log_length + 1: what precedes it was compacted behind a snapshot.
    fn live_shape(&self) -> (u64, u64, u64) {
        held_range(self.node())
    }

    /// at the end of a step: the ack boundary the file is at now describes the current model
    fn attach_model(&mut self) {
        if self.stop || self.node.is_none() {
            return;
        }
        let l = file_len(&self.wal);
        let (first, li, lt) = self.live_shape();
        self.led.shape.insert(l, (first, li, lt, Some(self.model_log.clone())));
    }

    fn cur_term(&self) -> u64 {
        self.node().current_term()
    }

    fn model_last(&self) -> (u64, u64) {
        (self.model_log.len() as u64, self.model_log.last().copied().unwrap_or(0))
    }

    /// the live node's log shape must follow the reference model; otherwise the harness cannot
    /// tell which obligations were superseded -> stop the case (never a verdict)
    fn check_model(&mut self, r: &mut Report) {
        let n = self.node();
        let (ml, mt) = self.model_last();
        if n.log_length() as u64 > ml || n.last_log_index() != ml || n.last_log_term() != mt {
            // no more steps for this case (the harness can no longer tell which promises a later
            // call supersedes) — but every promise made so far came from the node's own replies,
            // so the crash images up to here are still judged (run_case)
            r.count("live_log_left_the_model", 1);
            self.diverged = true;
            self.stop = true;
        }
    }

    /// hand a message to the node: through handle_message (the reply is the return value; its
    /// promises are stamped with the WAL length at return) or, one time in three, through
    /// handle_message_async (the node sends the reply through its transport; stamped at send time).
    /// Returns (reply, WAL length before the call, stamp of the reply's promises).
    fn deliver(&mut self, from: &String, msg: &Message, r: &mut Report) -> (Option<Message>, u64, u64) {
        let pre = file_len(&self.wal);
        if self.rng.chance(1, 3) {
            let _ = self.rt.block_on(self.node().handle_message_async(from, msg.clone()));
            let post = self.after_call(pre, r);
            r.count("messages_handled_through_handle_message_async", 1);
            let mut reply = None;
            let mut at = post;
            for (to, m, sent_at) in self.transport.drain() {
                if &to == from && reply.is_none() {
                    reply = Some(m);
                    at = sent_at;
                }
            }
            (reply, pre, at)
        } else {
            let reply = self.node().handle_message(from, msg);
            let post = self.after_call(pre, r);
            (reply, pre, post)
        }
    }

    fn note_term(&mut self, stamp: u64, term: u64, why: &str) {
        self.led.term(stamp, term, why);
        self.ack(why);
    }

    fn ack(&mut self, what: &str) {
        if let Some(f) = self.ack_out.as_mut() {
            use std::io::Write;
            self.acks += 1;
            let _ = f.write_all(format!("ACK {} {}\n", self.acks, what).as_bytes());
        }
    }

    fn note_grant(&mut self, r: &mut Report, stamp: u64, term: u64, cand: &str) {
        // "consequently a node never grants two different candidates its vote in one term" — over
        // the surviving history, restarts included
        if let Some(prev) = self.led.votes.iter().find(|v| v.1 == term && v.2 != cand).cloned() {
            self.violation(
                r,
                "double-vote-granted",
                stamp,
                format!("term {}: vote granted to {} (WAL length {}) and later to {} (WAL length {})", term, prev.2, prev.0, cand, stamp),
            );
        }
        self.led.vote(stamp, term, cand);
    }

    // ---- environment ----------------------------------------------------------------------------

    fn leader_id(&self, term: u64) -> String {
        self.peers[(term as usize) % self.peers.len()].clone()
    }

    fn common_prefix(&self, l: &[u64]) -> usize {
        let mut c = 0;
        while c < l.len() && c < self.model_log.len() && l[c] == self.model_log[c] {
            c += 1;
        }
        c
    }

    /// pick (or create) the leader whose AppendEntries arrives next; returns its term
    fn pick_leader(&mut self) -> u64 {
        let cur = self.cur_term();
        let roll = self.rng.below(100);
        let newest = self.leaders.keys().next_back().copied();
        if roll < 12 {
            // a deposed leader that has not noticed yet
            let stale: Vec<u64> = self.leaders.keys().copied().filter(|t| *t < cur).collect();
            if !stale.is_empty() {
                return *self.rng.pick(&stale);
            }
        }
        let committed: Vec<u64> = self.model_log[..self.committed.min(self.model_log.len())].to_vec();
        if roll < 70 {
            if let Some(t) = newest {
                if t >= cur && self.leaders[&t].starts_with(&committed) {
                    return t;
                }
            }
        }
        // a new leader with a term nobody used yet
        let mut t = cur.max(newest.unwrap_or(0)) + if self.rng.chance(1, 4) { 2 } else { 1 };
        if cur > 0 && cur > newest.unwrap_or(0) && !self.node_terms.contains(&cur) && self.rng.chance(1, 2) {
            t = cur; // won the election of the node's current term (n0 did not campaign in it)
        }
        while self.node_terms.contains(&t) || self.leaders.contains_key(&t) {
            t += 1;
        }
        // its log: a prefix of the node's log or of another leader's log, entries of older terms only
        let mut base: Vec<u64> = if self.leaders.is_empty() || self.rng.chance(3, 5) {
            let n = self.model_log.len();
            let keep = if n == 0 {
                0
            } else {
                match self.rng.below(10) {
                    0..=4 => n,
                    5..=6 => n - 1,
                    7 => n.saturating_sub(2),
                    _ => self.rng.below(n + 1),
                }
            };
            self.model_log[..keep].to_vec()
        } else {
            let ks: Vec<u64> = self.leaders.keys().copied().collect();
            let k = *self.rng.pick(&ks);
            let l = &self.leaders[&k];
            let keep = self.rng.below(l.len() + 1);
            l[..keep].to_vec()
        };
        if !base.starts_with(&committed) {
            // Leader Completeness: whoever wins an election holds every committed entry
            base = committed;
        }
        if let Some(p) = base.iter().position(|x| *x >= t) {
            base.truncate(p);
        }
        self.leaders.insert(t, base);
        t
    }

    // ---- steps ------------------------------------------------------------------------------------

    fn step_request_vote(&mut self, r: &mut Report) {
        let cur = self.cur_term();
        let term = match self.rng.below(20) {
            0..=4 => cur,
            5..=14 => cur + 1,
            15..=17 => cur + 2,
            _ => cur.saturating_sub(1),
        };
        let cand = self.rng.pick(&self.peers).clone();
        let (ml, mt) = self.model_last();
        let (lli, llt) = if self.rng.chance(7, 10) {
            (ml + self.rng.below(3) as u64, mt + self.rng.below(2) as u64)
        } else {
            (ml.saturating_sub(1 + self.rng.below(2) as u64), mt.saturating_sub(self.rng.below(2) as u64))
        };
        let msg = Message::RequestVote(RequestVote {
            term,
            candidate_id: cand.clone(),
            last_log_index: lli,
            last_log_term: llt,
            state_embedding: SparseVector::new(0),
        });
        let (reply, _pre, post) = self.deliver(&cand, &msg, r);
        if let Some(Message::RequestVoteResponse(rv)) = reply {
            self.trace.push(format!("RequestVote(term {}, from {}, last {}/{}) -> term {} granted {} @{}", term, cand, lli, llt, rv.term, rv.vote_granted, post));
            self.note_term(post, rv.term, "RequestVoteResponse");
            if rv.vote_granted {
                r.count("votes_granted", 1);
                self.note_grant(r, post, rv.term, &cand);
            } else {
                r.count("votes_denied", 1);
            }
        } else {
            self.trace.push(format!("RequestVote(term {}, from {}) -> no reply @{}", term, cand, post));
        }
    }

    fn step_pre_vote_in(&mut self, r: &mut Report) {
        let cur = self.cur_term();
        let cand = self.rng.pick(&self.peers).clone();
        let (ml, mt) = self.model_last();
        let msg = Message::PreVote(PreVote {
            term: cur + self.rng.below(2) as u64,
            candidate_id: cand.clone(),
            last_log_index: ml + self.rng.below(2) as u64,
            last_log_term: mt,
            state_embedding: SparseVector::new(0),
        });
        if self.rng.bool() {
            self.node().reset_heartbeat_for_election();
        }
        let (reply, _pre, post) = self.deliver(&cand, &msg, r);
        if let Some(Message::PreVoteResponse(pv)) = reply {
            self.trace.push(format!("PreVote(from {}) -> term {} granted {} @{}", cand, pv.term, pv.vote_granted, post));
            self.note_term(post, pv.term, "PreVoteResponse");
            r.count("pre_votes_answered", 1);
        }
    }

    fn step_append_entries(&mut self, r: &mut Report) {
        let t = self.pick_leader();
        let cur = self.cur_term();
        // the leader may have accepted new client entries since
        if t >= cur && self.rng.chance(7, 10) {
            let k = 1 + self.rng.below(3);
            let l = self.leaders.get_mut(&t).expect("leader");
            for _ in 0..k {
                l.push(t);
            }
        }
        let n = self.model_log.len();
        // a leader whose log leaves the follower's log in the MIDDLE replaces the stale suffix in
        // one request: conflicting entry plus further entries inside (and beyond) the old range
        let mut deep = false;
        {
            let common = self.common_prefix(&self.leaders[&t]);
            if t >= cur && common + 2 <= n && self.rng.chance(7, 10) {
                deep = true;
                let want = common + 2 + self.rng.below(n - common + 1); // ends inside or past the old log
                let l = self.leaders.get_mut(&t).expect("leader");
                while l.len() < want {
                    l.push(t);
                }
            }
        }
        let l = self.leaders[&t].clone();
        let common = self.common_prefix(&l);
        let next = match if deep { 0 } else { self.rng.below(20) } {
            0..=13 => common + 1,
            14..=16 => 1 + self.rng.below(common + 1),
            _ => common + 2 + self.rng.below(2),
        }
        .min(l.len() + 1)
        .max(1);
        let prev = next - 1;
        let k = if deep {
            2 + self.rng.below(4)
        } else if self.rng.chance(1, 6) {
            0
        } else {
            1 + self.rng.below(3)
        };
        let upto = (prev + k).min(l.len());
        let entries: Vec<LogEntry> = (prev..upto).map(|i| mk_entry(i as u64 + 1, l[i])).collect();
        let ae = AppendEntries {
            term: t,
            leader_id: self.leader_id(t),
            prev_log_index: prev as u64,
            prev_log_term: if prev == 0 { 0 } else { l[prev - 1] },
            entries: entries.clone(),
            // never beyond the last entry this message establishes on the follower
            leader_commit: self.rng.below(upto + 1) as u64,
            block_embedding: None,
        };
        let from = ae.leader_id.clone();
        let msg = Message::AppendEntries(ae);
        let (reply, pre, post) = self.deliver(&from, &msg, r);
        let Some(Message::AppendEntriesResponse(resp)) = reply else {
            self.trace.push(format!("AppendEntries(term {}) -> no reply @{}", t, post));
            return;
        };
        self.trace.push(format!(
            "AppendEntries(term {}, prev {}/{}, entries {:?}; node log len {}) -> term {} success {} match {} @{}",
            t,
            prev,
            if prev == 0 { 0 } else { l[prev - 1] },
            entries.iter().map(|e| (e.index, e.term)).collect::<Vec<_>>(),
            n,
            resp.term,
            resp.success,
            resp.match_index,
            post
        ));
        self.note_term(post, resp.term, "AppendEntriesResponse");
        if resp.success {
            r.count("append_success", 1);
            // match_index = prev + carried entries: the node confirmed that its log equals the
            // leader's up to prev (it checked prev itself, unless prev is a compacted position)
            if resp.match_index >= prev as u64 && prev as u64 > self.base && prev <= l.len() {
                for i in (self.base as usize + 1)..=prev {
                    if self.led.entries.iter().any(|e| e.until.is_none() && e.index == i as u64 && e.term == l[i - 1]) {
                        continue;
                    }
                    self.led.entry(post, i as u64, l[i - 1], entry_bytes(&mk_entry(i as u64, l[i - 1])), "acknowledged to a leader (covered by match_index: the node matched the leader's log up to prev)", false);
                }
            }
            let old_n = self.model_log.len() as u64;
            let mut conflicted = false;
            for e in &entries {
                if conflicted && e.index <= old_n {
                    r.count("entries_behind_a_conflict_inside_the_old_log_range", 1);
                }
                let i = e.index as usize;
                if e.index <= self.base {
                    // a position the node has compacted behind a snapshot: it answers for the
                    // snapshot, it does not hold (or promise to hold) the entry
                    r.count("entries_at_compacted_positions", 1);
                    continue;
                }
                if i > self.model_log.len() {
                    self.model_log.push(e.term);
                    r.count("entries_appended", 1);
                } else if self.model_log[i - 1] != e.term {
                    if self.base > 0 {
                        r.count("conflict_truncations_on_a_compacted_log", 1);
                    }
                    self.led.supersede_from(e.index, pre);
                    self.model_log.truncate(i - 1);
                    self.model_log.push(e.term);
                    r.count("conflict_truncations", 1);
                    conflicted = true;
                    if entries.last().map_or(false, |x| x.index > e.index) && e.index < old_n {
                        r.count("conflict_truncations_followed_by_entries_inside_the_old_range", 1);
                    }
                } else {
                    r.count("entries_already_present", 1);
                }
                self.led.entry(post, e.index, e.term, entry_bytes(e), "acknowledged to a leader (carried by an AppendEntries answered with success)", false);
            }
            self.check_model(r);
        } else {
            r.count("append_rejected", 1);
        }
    }

    fn step_election(&mut self, r: &mut Report) {
        self.node().reset_heartbeat_for_election();
        let pre = file_len(&self.wal);
        // one election in eight loses the connection in the middle of the broadcast
        let failing = !self.force_win && self.rng.chance(1, 8);
        if failing {
            self.transport.fail_next_broadcast.store(true, std::sync::atomic::Ordering::SeqCst);
        }
        let res = self.rt.block_on(self.node().start_election_async());
        self.transport.fail_next_broadcast.store(false, std::sync::atomic::Ordering::SeqCst);
        let end = self.after_call(pre, r);
        let out = self.transport.drain();
        // whatever reached the transport has left the node, whether or not the call succeeded;
        // what it announces is stamped with the WAL length at the moment it was handed over
        let mut term = 0;
        let mut post = end;
        for (_, m, sent_at) in &out {
            if let Message::RequestVote(rv) = m {
                term = rv.term;
                post = post.min(*sent_at);
                if rv.candidate_id != NODE {
                    r.inconclusive("RequestVote with a foreign candidate id");
                }
            }
        }
        if term == 0 {
            self.trace.push(format!("start_election_async -> {} , nothing sent @{}", if res.is_ok() { "Ok" } else { "Err" }, end));
            return;
        }
        r.count("elections_started", 1);
        if res.is_err() {
            r.count("elections_with_failed_broadcast", 1);
        }
        self.trace.push(format!(
            "start_election_async -> {} ; RequestVote(term {}) handed to the transport for {} peer(s) when the WAL was {} bytes long; WAL {} bytes at return",
            if res.is_ok() { "Ok" } else { "Err(broadcast failed)" },
            term,
            out.len(),
            post,
            end
        ));
        self.note_term(post, term, "own RequestVote");
        self.note_grant(r, post, term, NODE);
        let may_win = !self.leaders.contains_key(&term) && res.is_ok();
        self.node_terms.insert(term);
        let roll = self.rng.below(10);
        match if self.force_win { 0 } else { roll } {
            0..=4 if may_win => {
                let need = (self.peers.len() + 1) / 2; // with its own vote: majority
                for p in self.peers.clone().iter().take(need) {
                    let m = Message::RequestVoteResponse(RequestVoteResponse { term, vote_granted: true, voter_id: p.clone() });
                    let pre = file_len(&self.wal);
                    let _ = self.node().handle_message(p, &m);
                    self.after_call(pre, r);
                }
                if self.node().is_leader() {
                    r.count("became_leader", 1);
                    self.trace.push(format!("won election of term {}", term));
                }
            }
            5..=6 => {
                let higher = term + 1 + self.rng.below(2) as u64;
                let p = self.rng.pick(&self.peers).clone();
                let m = Message::RequestVoteResponse(RequestVoteResponse { term: higher, vote_granted: false, voter_id: p.clone() });
                let pre = file_len(&self.wal);
                let _ = self.node().handle_message(&p, &m);
                let post = self.after_call(pre, r);
                r.count("step_downs", 1);
                self.trace.push(format!("RequestVoteResponse(term {}) -> stepped down, now term {} @{}", higher, self.cur_term(), post));
            }
            _ => {}
        }
    }

    fn step_pre_vote_out(&mut self, r: &mut Report) {
        let pre = file_len(&self.wal);
        let res = self.rt.block_on(self.node().start_pre_vote_async());
        let mut post = self.after_call(pre, r);
        let out = self.transport.drain();
        let mut term = None;
        for (_, m, sent_at) in &out {
            if let Message::PreVote(pv) = m {
                term = Some(pv.term);
                post = post.min(*sent_at);
            }
        }
        if res.is_err() {
            return;
        }
        let Some(term) = term else { return };
        self.note_term(post, term, "own PreVote");
        self.trace.push(format!("start_pre_vote_async -> PreVote(term {}) @{}", term, post));
        if self.rng.chance(3, 5) {
            // a majority would vote: the node starts the real election (term + 1, self vote)
            let need = (self.peers.len() + 1) / 2;
            self.node_terms.insert(term + 1);
            for p in self.peers.clone().iter().take(need) {
                let m = Message::PreVoteResponse(PreVoteResponse { term, vote_granted: true, voter_id: p.clone() });
                let pre = file_len(&self.wal);
                let _ = self.node().handle_message(p, &m);
                self.after_call(pre, r);
            }
            r.count("pre_vote_rounds_won", 1);
            self.trace.push(format!("pre-vote majority -> node term now {}", self.cur_term()));
        } else if self.rng.bool() {
            let p = self.rng.pick(&self.peers).clone();
            let m = Message::PreVoteResponse(PreVoteResponse { term: term + 1, vote_granted: false, voter_id: p.clone() });
            let pre = file_len(&self.wal);
            let _ = self.node().handle_message(&p, &m);
            self.after_call(pre, r);
            r.count("step_downs", 1);
            self.trace.push(format!("PreVoteResponse(term {}) -> node term now {}", term + 1, self.cur_term()));
        }
    }

    fn step_timeout_now(&mut self, r: &mut Report) {
        let Some(leader) = self.node().current_leader() else { return };
        if leader == NODE {
            return;
        }
        let term = self.cur_term();
        if self.leaders.contains_key(&(term + 1)) {
            return;
        }
        self.node_terms.insert(term + 1);
        let m = Message::TimeoutNow(TimeoutNow { term, leader_id: leader.clone() });
        let pre = file_len(&self.wal);
        let _ = self.node().handle_message(&leader, &m);
        let post = self.after_call(pre, r);
        r.count("timeout_now", 1);
        self.trace.push(format!("TimeoutNow(term {}) from {} -> node term now {} @{}", term, leader, self.cur_term(), post));
    }

    fn step_leader_heartbeat(&mut self, r: &mut Report) {
        let pre = file_len(&self.wal);
        let res = self.rt.block_on(self.node().send_heartbeats());
        let post = self.after_call(pre, r);
        let out = self.transport.drain();
        if res.is_err() {
            return;
        }
        let mut sent = Vec::new();
        for (to, m, sent_at) in out {
            if let Message::AppendEntries(ae) = m {
                self.note_term(sent_at, ae.term, "own AppendEntries");
                for e in &ae.entries {
                    // what a leader replicates it has accepted; content taken from its own message
                    self.led.entry(sent_at, e.index, e.term, entry_bytes(e), "replicated by the node as leader", false);
                }
                sent.push((to, ae));
            }
        }
        if sent.is_empty() {
            return;
        }
        r.count("leader_heartbeat_rounds", 1);
        self.trace.push(format!("send_heartbeats -> {} AppendEntries(term {}) @{}", sent.len(), sent[0].1.term, post));
        let mut mode = self.rng.below(10);
        if self.force_hb_success {
            mode = 9;
        }
        // a leader of a later term exists (the node forgot it in a crash): nobody follows n0 any more
        let later = self.leaders.keys().next_back().copied().filter(|t| *t > sent[0].1.term);
        if later.is_some() {
            mode = 0;
        }
        for (to, ae) in sent {
            let resp = match mode {
                0 => AppendEntriesResponse { term: later.unwrap_or(ae.term + 1), success: false, follower_id: to.clone(), match_index: 0, used_fast_path: false },
                1 => AppendEntriesResponse { term: ae.term, success: false, follower_id: to.clone(), match_index: 0, used_fast_path: false },
                _ => AppendEntriesResponse {
                    term: ae.term,
                    success: true,
                    follower_id: to.clone(),
                    match_index: ae.prev_log_index + ae.entries.len() as u64,
                    used_fast_path: false,
                },
            };
            let m = Message::AppendEntriesResponse(resp);
            let pre = file_len(&self.wal);
            let _ = self.node().handle_message(&to, &m);
            self.after_call(pre, r);
            if mode == 0 {
                r.count("step_downs", 1);
                self.trace.push(format!("AppendEntriesResponse(term {}) -> leader stepped down, term {}", later.unwrap_or(ae.term + 1), self.cur_term()));
                break;
            }
        }
    }

    fn step_propose(&mut self, r: &mut Report) {
        let term = self.cur_term();
        let index = self.model_log.len() as u64 + 1;
        let pre = file_len(&self.wal);
        let res = self.node().propose(mk_block(index, term));
        let post = self.after_call(pre, r);
        match res {
            Ok(i) => {
                r.count("proposals_accepted", 1);
                self.trace.push(format!("propose -> Ok({}) in term {} @{}", i, term, post));
                if i != index {
                    // the live log is not where the model has it: no further steps, images still judged
                    r.count("live_log_left_the_model", 1);
                    self.diverged = true;
                    self.stop = true;
                    return;
                }
                self.model_log.push(term);
                self.ack("propose Ok");
                self.led.entry(post, index, term, entry_bytes(&mk_entry(index, term)), "accepted as leader (propose returned Ok)", false);
                self.check_model(r);
            }
            Err(_) => {
                r.count("proposals_refused", 1);
            }
        }
    }

    fn step_install_snapshot(&mut self, r: &mut Report) {
        let t = self.pick_leader();
        if t < self.cur_term() {
            return;
        }
        {
            let k = 1 + self.rng.below(3);
            let l = self.leaders.get_mut(&t).expect("leader");
            for _ in 0..k {
                l.push(t);
            }
        }
        let l = self.leaders[&t].clone();
        let s = 1 + self.rng.below(l.len());
        let entries: Vec<LogEntry> = (0..s).map(|i| mk_entry(i as u64 + 1, l[i])).collect();
        // the snapshot is produced by the real code of a leader holding that log; half of the
        // time that leader has compacted its own log before, so the snapshot starts after index 1
        let helper_t = CaptureTransport::new("helper", &self.peers);
        let helper = RaftNode::with_state("helper".into(), self.peers.clone(), helper_t, cfg(), t, None, entries);
        let mut first = 1usize;
        if s >= 2 && self.rng.bool() {
            let f = 2 + self.rng.below(s - 1); // 2..=s
            helper.set_finalized_height(f as u64);
            if let Ok((m1, _)) = helper.create_snapshot() {
                let _ = helper.truncate_log(&m1);
            }
            let (hf, hl, _) = held_range(&helper);
            if hl == s as u64 {
                first = hf as usize;
            }
        }
        helper.set_finalized_height(s as u64);
        let Ok((meta, data)) = helper.create_snapshot() else {
            r.count("snapshot_build_failed", 1);
            return;
        };
        let via_message = self.rng.chance(1, 3);
        let pre = file_len(&self.wal);
        let before = self.node().get_snapshot_metadata().map(|m| m.last_included_index);
        let ok = if via_message {
            let from = self.leader_id(t);
            let m = Message::SnapshotResponse(SnapshotResponse {
                snapshot_height: meta.last_included_index,
                snapshot_hash: meta.snapshot_hash,
                data: data.clone(),
                offset: 0,
                total_size: data.len() as u64,
                is_last: true,
            });
            let _ = self.node().handle_message(&from, &m);
            self.node().get_snapshot_metadata().map(|m| m.last_included_index) == Some(s as u64) && before != Some(s as u64)
        } else {
            self.node().install_snapshot(meta.clone(), &data).is_ok()
        };
        let base_before = self.base;
        let post = self.after_call(pre, r);
        self.trace.push(format!(
            "install_snapshot(entries {}..={}, last term {}, via {}) -> {} ; first held index {} -> {} @{}",
            first,
            s,
            l[s - 1],
            if via_message { "SnapshotResponse" } else { "install_snapshot" },
            if ok { "installed" } else { "refused" },
            base_before + 1,
            self.base + 1,
            post
        ));
        if ok {
            r.count("snapshots_installed", 1);
            let n = self.model_log.len();
            let already_held = s as u64 > base_before && s <= n && self.model_log[s - 1] == l[s - 1];
            if already_held {
                // the node holds the snapshot's last entry: by log matching the snapshot brings
                // nothing new and the log stays as it is, including what follows the snapshot
                r.count("snapshot_installs_log_kept", 1);
                self.committed = self.committed.max(s);
            } else {
                // the log becomes the snapshot's entries first..=s; what precedes `first` is
                // covered by the snapshot (compacted on the live node from now on). Entries the
                // node holds that the snapshot repeats (same index, same term = same entry) stay
                // promised throughout — a crash anywhere inside the install must not lose them;
                // promises end from the first index where the snapshot differs from the node's
                // log, behind the snapshot, and in front of its first entry
                let overlap = s.min(n);
                let first_diff = (first - 1..overlap).find(|i| self.model_log[*i] != l[*i]).map_or(s as u64 + 1, |i| i as u64 + 1);
                if first_diff <= n as u64 {
                    r.count("snapshot_installs_over_a_held_log", 1);
                }
                if first_diff > first as u64 && overlap >= first {
                    r.count("snapshot_installs_repeating_held_entries", 1);
                }
                if first > 1 {
                    r.count("snapshot_installs_from_a_compacted_leader", 1);
                }
                self.led.supersede_below(first as u64, pre);
                self.led.supersede_from(first_diff, pre);
                self.model_log = l[..s].to_vec();
                self.committed = s;
            }
            self.check_model(r);
            if self.snapshot_at.is_none() {
                self.snapshot_at = Some(pre);
            }
        } else {
            r.count("snapshots_refused", 1);
        }
    }

    fn step(&mut self, r: &mut Report) {
        let leader = self.node().is_leader();
        let snap = self.part == Part::Snapshot;
        //             rv  pv  ae  el  pvo tn  hb  prop snap compact career
        let w: [u32; 11] = if leader {
            [10, 3, 12, 2, 0, 0, 28, 36, if snap { 6 } else { 0 }, 12, 0]
        } else {
            [22, 4, 42, 10, 5, 3, 0, 0, if snap { 14 } else { 0 }, 0, 5]
        };
        match self.rng.weighted(&w) {
            0 => self.step_request_vote(r),
            1 => self.step_pre_vote_in(r),
            2 => self.step_append_entries(r),
            3 => self.step_election(r),
            4 => self.step_pre_vote_out(r),
            5 => self.step_timeout_now(r),
            6 => self.step_leader_heartbeat(r),
            7 => self.step_propose(r),
            8 => self.step_install_snapshot(r),
            9 => self.step_compact(r),
            _ => self.step_leader_career(r),
        }
        r.count("protocol_steps", 1);
        self.note_commit();
        self.attach_model();
    }

    /// what the live node regards as committed binds the environment from now on
    fn note_commit(&mut self) {
        if self.stop || self.node.is_none() {
            return;
        }
        let c = self.node().commit_index() as usize;
        self.committed = self.committed.min(self.model_log.len());
        if c > self.committed && c <= self.model_log.len() {
            self.committed = c;
        }
    }

    /// the application finalizes committed entries and the leader compacts its log behind a
    /// snapshot (through tick_async's automatic compaction, or create_snapshot + truncate_log)
    fn step_compact(&mut self, r: &mut Report) {
        if !self.node().is_leader() {
            return;
        }
        let c = self.node().commit_index();
        if c == 0 {
            r.count("compactions_skipped_nothing_committed", 1);
            return;
        }
        let h = if self.rng.chance(2, 3) { c } else { 1 + self.rng.below(c as usize) as u64 };
        if self.node().finalize_to(h).is_err() {
            return;
        }
        let via_tick = self.rng.bool();
        let old_base = self.base;
        let pre = file_len(&self.wal);
        let done = if via_tick {
            self.rt.block_on(self.node().tick_async()).is_ok()
        } else {
            match self.node().create_snapshot() {
                Ok((meta, _data)) => self.node().truncate_log(&meta).is_ok(),
                Err(_) => false,
            }
        };
        let post = self.after_call(pre, r);
        // tick_async may also have sent heartbeats
        for (_, m, sent_at) in self.transport.drain() {
            if let Message::AppendEntries(ae) = m {
                self.note_term(sent_at, ae.term, "own AppendEntries");
                for e in &ae.entries {
                    self.led.entry(sent_at, e.index, e.term, entry_bytes(e), "replicated by the node as leader", false);
                }
            }
        }
        let new_base = self.base; // observed by after_call
        self.trace.push(format!(
            "finalize_to({}) + {} -> {} ; compaction offset {} -> {} @{}",
            h,
            if via_tick { "tick_async" } else { "create_snapshot/truncate_log" },
            if done { "ok" } else { "err" },
            old_base,
            new_base,
            post
        ));
        if new_base > old_base {
            r.count("log_compactions", 1);
        }
        self.check_model(r);
    }

    /// a whole leadership: win an election, replicate and commit a few entries, accept some more,
    /// compact the log — and (usually) get deposed by a leader that never saw the uncommitted tail
    fn step_leader_career(&mut self, r: &mut Report) {
        if !self.node().is_leader() {
            self.force_win = true;
            self.step_election(r);
            self.force_win = false;
            if self.stop || !self.node().is_leader() {
                return;
            }
        }
        self.force_hb_success = true;
        self.step_leader_heartbeat(r);
        for _ in 0..(2 + self.rng.below(4)) {
            if !self.stop {
                self.step_propose(r);
            }
        }
        for _ in 0..2 {
            if !self.stop {
                self.step_leader_heartbeat(r);
            }
        }
        self.force_hb_success = false;
        if self.stop || !self.node().is_leader() {
            return;
        }
        self.note_commit();
        for _ in 0..self.rng.below(4) {
            if !self.stop {
                self.step_propose(r);
            }
        }
        if !self.stop && self.rng.chance(4, 5) {
            self.step_compact(r);
        }
        if !self.stop && self.rng.chance(3, 5) {
            self.note_commit();
            self.step_append_entries(r);
        }
        r.count("leader_careers", 1);
    }

    fn run_steps(&mut self, n: usize, r: &mut Report) {
        for _ in 0..n {
            if self.stop {
                return;
            }
            self.step(r);
        }
    }

    // ---- judging crash images ----------------------------------------------------------------------

    /// judge the image "first x bytes of `bytes`" against the ledger
    fn eval_one(&mut self, bytes: &[u8], x: u64, r: &mut Report) {
        if std::fs::write(&self.img, &bytes[..x as usize]).is_err() {
            r.inconclusive("cannot write crash image");
            self.stop = true;
            return;
        }
        r.count("images_judged", 1);
        let at_record_boundary = x == 0 || self.bounds.contains(&x);
        r.count(if at_record_boundary { "images_at_record_boundary" } else { "images_inside_a_record" }, 1);
        if self.garbage_from.map_or(false, |g| x > g) {
            r.count("images_with_records_behind_a_torn_tail", 1);
        }
        let tr = CaptureTransport::new(NODE, &self.peers);
        let node = match RaftNode::with_wal(NODE.to_string(), self.peers.clone(), tr, cfg(), &self.img) {
            Ok(n) => n,
            Err(e) => {
                let es = e.to_string();
                self.violation(r, &format!("restart-fails-{}", err_class(&es)), x, format!("RaftNode::with_wal on the crash image failed: {}", es));
                return;
            }
        };
        let rec = match RaftWal::open(&self.img).and_then(|w| RaftRecoveryState::from_wal(&w)) {
            Ok(s) => s,
            Err(_) => {
                r.inconclusive("from_wal failed on an image with_wal accepted");
                return;
            }
        };
        let rec_term = node.current_term();
        // a restarted node holds the run of consecutive indices that ends the recovered log
        let (first_r, li_r, lt_r) = held_range(&node);
        let held_len = node.log_length();
        if rec.current_term != rec_term || rec.recovered_log.len() < held_len {
            r.inconclusive("RaftRecoveryState and the restarted node disagree");
            return;
        }
        // (1) term
        if let Some(t) = self.led.terms.iter().filter(|t| t.0 <= x).last().cloned() {
            r.count("term_obligations_checked", 1);
            if rec_term < t.1 {
                self.violation(
                    r,
                    "term-regressed",
                    x,
                    format!("restarted with term {} but the node had put term {} into a message ({}) when the WAL was {} bytes long", rec_term, t.1, t.2, t.0),
                );
                return;
            }
        }
        // (2) vote of the recovered term
        let votes: Vec<(u64, u64, String)> = self.led.votes.iter().filter(|v| v.0 <= x && v.1 == rec_term).cloned().collect();
        for v in &votes {
            r.count("vote_obligations_checked", 1);
            if rec.voted_for.as_deref() != Some(v.2.as_str()) {
                self.violation(
                    r,
                    "vote-forgotten",
                    x,
                    format!("restarted in term {} with voted_for {:?}, but it had granted its vote of that term to {} when the WAL was {} bytes long", rec_term, rec.voted_for, v.2, v.0),
                );
                return;
            }
        }
        // (3) entries, positional (index i lives at position i-1: a restarted node has no compaction offset)
        let mut checked = 0u64;
        let mut bad: Option<(String, bool)> = None;
        for e in self.led.entries.iter().filter(|e| e.from <= x && e.until.map_or(true, |u| x <= u)) {
            checked += 1;
            let got = if e.index >= first_r && e.index <= li_r {
                rec.recovered_log.get(rec.recovered_log.len() - 1 - (li_r - e.index) as usize)
            } else {
                None
            };
            if got.map(|g| g.as_slice()) != Some(e.bytes.as_slice()) {
                let got_desc = match got.and_then(|g| bitcode::deserialize::<LogEntry>(g).ok()) {
                    Some(g) => format!("entry (index {}, term {})", g.index, g.term),
                    None => "nothing".to_string(),
                };
                bad = Some((format!(
                    "entry (index {}, term {}) — {}, WAL {} bytes long at that moment — is not held at index {} after restart (found {}; the restarted node holds indices {}..={}, last_log_term {})",
                    e.index,
                    e.term,
                    e.why,
                    e.from,
                    e.index,
                    got_desc,
                    first_r,
                    li_r,
                    lt_r
                ), e.snap));
                break;
            }
        }
        r.count("entry_obligations_checked", checked);
        if let Some((d, snap)) = bad {
            self.violation_ctx(r, "acked-entry-lost", x, snap, d);
            return;
        }
        // (4) at an ack boundary (no write in flight) the restarted node ends its log where the
        //     live node did and holds at least what the live node held (a prefix the live node had
        //     compacted may come back from the WAL); and nothing it holds contradicts the live log
        //     (no truncated suffix, no entry superseded by a snapshot reappears)
        if self.calls.contains(&x) {
            if let Some((first, li, lt, model)) = self.led.shape.get(&x).cloned() {
                r.count("ack_boundary_shape_checks", 1);
                if (li_r, lt_r) != (li, lt) || first_r > first {
                    self.violation(
                        r,
                        "log-differs-at-ack-boundary",
                        x,
                        format!(
                            "no write was in flight at WAL length {}: the live node held indices {}..={} (last_log_term {}), the node restarted from exactly those bytes holds {}..={} (last_log_term {})",
                            x, first, li, lt, first_r, li_r, lt_r
                        ),
                    );
                    return;
                }
                if let Some(model) = model {
                    r.count("ack_boundary_content_checks", 1);
                    for i in first_r..=li_r {
                        if held_len == 0 {
                            break;
                        }
                        let raw = &rec.recovered_log[rec.recovered_log.len() - 1 - (li_r - i) as usize];
                        let Ok(e) = bitcode::deserialize::<LogEntry>(raw) else { continue };
                        let want = model.get(i as usize - 1).copied().unwrap_or(0);
                        if want != 0 && (e.index != i || e.term != want) {
                            self.violation(
                                r,
                                "restarted-log-contradicts-live-log",
                                x,
                                format!(
                                    "no write was in flight at WAL length {}: the live node's log had term {} at index {} (it held {}..={}; what precedes was covered by a snapshot), the node restarted from exactly those bytes holds {}..={} with entry (index {}, term {}) at that index",
                                    x, want, i, first, li, first_r, li_r, e.index, e.term
                                ),
                            );
                            return;
                        }
                    }
                }
            }
        }
        // (5) behavioural probe: another candidate asks for the vote of the recovered term
        if let Some(v) = votes.first() {
            let other = self.peers.iter().find(|p| **p != v.2).cloned().unwrap_or_else(|| "n9".into());
            let m = Message::RequestVote(RequestVote {
                term: rec_term,
                candidate_id: other.clone(),
                last_log_index: 1 << 40,
                last_log_term: 1 << 40,
                state_embedding: SparseVector::new(0),
            });
            r.count("vote_probes", 1);
            if let Some(Message::RequestVoteResponse(rv)) = node.handle_message(&other, &m) {
                if rv.vote_granted {
                    self.violation(
                        r,
                        "double-vote-granted",
                        x,
                        format!("after restart the node granted its term-{} vote to {} although it had granted it to {} before the crash (WAL {} bytes long then)", rec_term, other, v.2, v.0),
                    );
                }
            }
        }
    }

    /// eval_phase, also for a case whose live log left the reference model: its promises are still
    /// the node's own, so its images are judged; only if nothing is refuted is the case reported
    /// as inconclusive
    fn judge(&mut self, lo: u64, r: &mut Report) {
        if !self.diverged {
            self.eval_phase(lo, r);
            return;
        }
        if !self.seen.is_empty() {
            return;
        }
        self.stop = false;
        r.count("cases_judged_after_the_live_log_left_the_model", 1);
        self.eval_phase(lo, r);
        if self.seen.is_empty() {
            r.inconclusive("live log shape differs from the follower-rule model; images judged, nothing refuted (case ended)");
        }
        self.stop = true;
    }

    /// judge truncations of the current WAL file from byte `lo` on
    fn eval_phase(&mut self, lo: u64, r: &mut Report) {
        if self.stop {
            return;
        }
        let Ok(bytes) = std::fs::read(&self.wal) else {
            r.inconclusive("cannot read the WAL file back");
            return;
        };
        let len = bytes.len() as u64;
        let full_limit: u64 = if self.quick { 1_400 } else { 3_000 };
        let mut pts: BTreeSet<u64> = BTreeSet::new();
        if self.big {
            // megabyte records: every record and ack boundary -1, +0, +1, +8 (bare header) and the
            // middle of every record, plus a small seeded sample
            let bs: Vec<u64> = self.bounds.iter().chain(self.calls.iter()).copied().filter(|b| *b >= lo).collect();
            let mut prev = lo;
            for b in &bs {
                for d in [0u64, 1, 8] {
                    pts.insert(b + d);
                }
                pts.insert(b.saturating_sub(1));
                if *b > prev + 16 {
                    pts.insert(prev + (*b - prev) / 2);
                }
                prev = *b;
            }
            for _ in 0..12 {
                pts.insert(lo + self.rng.below((len - lo + 1) as usize) as u64);
            }
            pts.insert(lo);
            pts.insert(len);
            pts.retain(|p| *p >= lo && *p <= len);
            r.count("phases_sampled_not_exhaustive", 1);
        } else if len - lo <= full_limit {
            pts.extend(lo..=len);
        } else {
            // every record boundary and ack boundary +-2 bytes, the 8 header bytes behind each
            // boundary, every byte of the last three records, and a seeded sample of the rest
            let bs: Vec<u64> = self.bounds.iter().chain(self.calls.iter()).copied().filter(|b| *b >= lo).collect();
            for b in &bs {
                for d in 0..=9u64 {
                    pts.insert(b + d);
                }
                pts.insert(b.saturating_sub(1));
                pts.insert(b.saturating_sub(2));
            }
            let last3 = self.bounds.iter().rev().nth(3).copied().unwrap_or(lo).max(lo);
            pts.extend(last3..=len);
            for _ in 0..(full_limit / 3) {
                pts.insert(lo + self.rng.below((len - lo + 1) as usize) as u64);
            }
            pts.insert(lo);
            pts.insert(len);
            pts.retain(|p| *p >= lo && *p <= len);
            r.count("phases_sampled_not_exhaustive", 1);
        }
        let mut torn = 0u64;
        let mut applicable = 0usize;
        for x in pts {
            if self.stop {
                break;
            }
            if x != 0 && !self.bounds.contains(&x) {
                torn += 1;
            }
            applicable = applicable.max(self.led.applicable(x));
            self.eval_one(&bytes, x, r);
        }
        r.count("phases_judged", 1);
        r.count_max("max:wal_bytes", len);
        r.eval(hash_combine(hash_bytes(&bytes), lo), applicable > 0 && torn > 0);
    }

    // ---- crash + real restart ----------------------------------------------------------------------

    fn choose_crash_point(&mut self) -> u64 {
        let len = file_len(&self.wal);
        if len == 0 {
            return 0;
        }
        let bs: Vec<u64> = self.bounds.iter().copied().collect();
        let recent_lo = bs.iter().rev().nth(3).copied().unwrap_or(0);
        match self.rng.below(20) {
            // inside one of the last three records
            0..=11 => {
                let mut x = recent_lo + 1 + self.rng.below((len - recent_lo) as usize) as u64;
                if self.bounds.contains(&x) && x > 1 {
                    x -= 1;
                }
                x.min(len)
            }
            // anywhere
            12..=14 => 1 + self.rng.below(len as usize) as u64,
            // between two records / at an ack boundary (clean)
            _ => {
                let recent: Vec<u64> = bs.iter().rev().take(4).copied().collect();
                if recent.is_empty() {
                    len
                } else {
                    *self.rng.pick(&recent)
                }
            }
        }
    }

    fn crash_and_restart(&mut self, b: u64, r: &mut Report) {
        let Ok(bytes) = std::fs::read(&self.wal) else {
            r.inconclusive("cannot read the WAL file back");
            self.stop = true;
            return;
        };
        // the process dies: user-space buffers are lost, the file keeps its first b bytes
        self.node = None;
        if std::fs::write(&self.wal, &bytes[..b as usize]).is_err() {
            r.inconclusive("cannot cut the WAL file");
            self.stop = true;
            return;
        }
        let torn = b != 0 && !self.bounds.contains(&b);
        self.crashes.push(b);
        r.count("crashes_injected", 1);
        r.count(if torn { "crashes_inside_a_record" } else { "crashes_between_records" }, 1);
        self.trace.push(format!("CRASH: WAL cut to {} of {} bytes ({}); restart", b, bytes.len(), if torn { "inside a record" } else { "between records" }));
        self.led.crash(b);
        self.bounds.retain(|x| *x <= b);
        self.calls.retain(|x| *x <= b);
        if self.garbage_from.map_or(false, |g| b <= g) {
            self.garbage_from = None;
        }
        if self.snapshot_at.map_or(false, |s| b <= s) {
            self.snapshot_at = None;
        }
        self.base = 0;
        self.committed = 0;
        if !self.open_node(r) {
            return;
        }
        r.count("chain_restarts", 1);
        let l = file_len(&self.wal);
        if l < b {
            // the code under test cut the partial record away when it opened the file
            r.count("torn_tail_repaired_on_open", 1);
            if !self.bounds.contains(&l) && l != 0 {
                r.inconclusive("file was shortened on open to something that is not a record boundary");
                self.stop = true;
                return;
            }
        } else if torn {
            r.count("torn_tail_left_in_place", 1);
            if self.garbage_from.is_none() {
                self.garbage_from = Some(b);
            }
        }
        // resynchronise the reference model with what the node actually came back with
        match RaftWal::open(&self.wal).and_then(|w| RaftRecoveryState::from_wal(&w)) {
            Ok(rec) => {
                let (first_r, li_r, _) = held_range(self.node());
                let held = self.node().log_length();
                if rec.recovered_log.len() < held {
                    r.inconclusive("RaftRecoveryState and the restarted node disagree");
                    self.stop = true;
                    return;
                }
                let mut run = Vec::new();
                for (k, raw) in rec.recovered_log[rec.recovered_log.len() - held..].iter().enumerate() {
                    match bitcode::deserialize::<LogEntry>(raw) {
                        Ok(e) if e.index == first_r + k as u64 => run.push(e.term),
                        _ => {
                            r.count("chains_ended_by_unusable_restarted_log", 1);
                            self.stop = true;
                            return;
                        }
                    }
                }
                // what precedes the first held index is covered by a snapshot: it is the prefix of
                // the log of whichever leader produced the first held entry
                let mut m: Vec<u64> = Vec::new();
                if first_r > 1 {
                    let need = first_r as usize - 1;
                    let first_term = run.first().copied().unwrap_or(0);
                    let from_leader = self.leaders.values().find(|l| l.len() > need && l[need] == first_term).map(|l| l[..need].to_vec());
                    let from_model = if self.model_log.len() > need && self.model_log[need] == first_term { Some(self.model_log[..need].to_vec()) } else { None };
                    match from_leader.or(from_model) {
                        Some(p) => m = p,
                        None => {
                            r.count("chains_ended_by_unusable_restarted_log", 1);
                            self.stop = true;
                            return;
                        }
                    }
                    r.count("restarts_with_compacted_prefix", 1);
                }
                m.extend(run);
                if m.len() as u64 != li_r {
                    r.count("chains_ended_by_unusable_restarted_log", 1);
                    self.stop = true;
                    return;
                }
                self.model_log = m;
                self.base = first_r - 1;
                self.committed = first_r as usize - 1;
            }
            Err(_) => {
                r.inconclusive("from_wal failed right after with_wal succeeded");
                self.stop = true;
                return;
            }
        }
        self.calls.insert(l);
        self.attach_model();
        self.check_model(r);
    }
}

fn err_class(e: &str) -> &'static str {
    let l = e.to_ascii_lowercase();
    if l.contains("checksum mismatch") {
        "checksum-mismatch"
    } else if l.contains("serializ") {
        "undecodable-record"
    } else {
        "io-error"
    }
}

fn run_case(part: Part, seed: u64, big: bool, base: &Path, quick: bool, r: &mut Report) {
    BIG_BLOCKS.with(|b| b.set(big));
    run_case_inner(part, seed, big, base, quick, r);
    BIG_BLOCKS.with(|b| b.set(false));
}

fn run_case_inner(part: Part, seed: u64, big: bool, base: &Path, quick: bool, r: &mut Report) {
    common::alloc::thread_mark();
    let mut sim = Sim::new(part, seed, base, quick);
    sim.big = big;
    if big {
        r.count("cases_with_large_blocks", 1);
    }
    if !sim.open_node(r) {
        return;
    }
    let l0 = file_len(&sim.wal);
    sim.calls.insert(l0);
    let crashes = if big { 1 + sim.rng.below(2) } else { 1 + sim.rng.below(3) };
    let n0 = 3 + sim.rng.below(if part == Part::Snapshot { 12 } else { 10 });
    sim.run_steps(n0, r);
    sim.judge(0, r);
    let mut done = 0;
    for _ in 0..crashes {
        if sim.stop {
            break;
        }
        let b = sim.choose_crash_point();
        sim.crash_and_restart(b, r);
        if sim.stop {
            break;
        }
        done += 1;
        let n = 2 + sim.rng.below(7);
        sim.run_steps(n, r);
        // bytes below the last record boundary <= b are unchanged and were judged in the previous phase
        let lo = sim.bounds.range(..=b).next_back().copied().unwrap_or(0);
        sim.judge(lo, r);
    }
    r.count(&format!("chains_with_{}_crashes_completed", done), 1);
    r.count_max("max:largest_single_allocation_bytes", common::alloc::thread_largest() as u64);
    if r.want_sample() && done >= 2 && !sim.stop {
        let tail: Vec<&String> = sim.trace.iter().take(40).collect();
        r.sample(json!({"part": part.name(), "case_seed": seed, "peers": sim.peers, "crashes_at_bytes": sim.crashes, "final_wal_bytes": file_len(&sim.wal), "trace": tail}));
    }
    let _ = &sim.dir;
}

/// `c10 child-ack <dir> <seed> <mode>`: the driver of the strace "persist before answering" leg
/// (/verif/legs_fsync.py). Same node, same environment, no crash images: after every reply /
/// outgoing message / accepted proposal one `ACK n what` line goes to fd 1 with a single write(2).
fn child_ack(dir: &Path, seed: u64) -> i32 {
    use std::os::fd::FromRawFd;
    let mut r = Report::new();
    let mut sim = Sim::new(Part::Main, seed, dir, true);
    // fd 1 as an unbuffered File; never closed (ManuallyDrop semantics via mem::forget at the end)
    sim.ack_out = Some(unsafe { std::fs::File::from_raw_fd(1) });
    if !sim.open_node(&mut r) {
        return 3;
    }
    let l0 = file_len(&sim.wal);
    sim.calls.insert(l0);
    sim.run_steps(60, &mut r);
    // a clean restart in the middle of the history, then more steps
    // (the harness itself must not write to the log here: a plain drop + reopen)
    if !sim.stop {
        sim.node = None;
        if sim.open_node(&mut r) {
            sim.run_steps(30, &mut r);
        }
    }
    let acks = sim.acks;
    if let Some(f) = sim.ack_out.take() {
        std::mem::forget(f);
    }
    if acks == 0 {
        4
    } else {
        0
    }
}

// ------------------------------------------------------------------------------------------------
// part concurrent-votes: RequestVote messages of one term from different candidates, delivered to
// ONE real node (real WAL) by threads released on a barrier. RaftNode is Sync and its handlers lock
// internally, so concurrent handle_message calls are part of its interface.
// ------------------------------------------------------------------------------------------------

static TICK: std::sync::atomic::AtomicU64 = std::sync::atomic::AtomicU64::new(1);
fn tick() -> u64 {
    TICK.fetch_add(1, std::sync::atomic::Ordering::SeqCst)
}

fn run_concurrent_votes_case(seed: u64, base: &Path, r: &mut Report) -> bool {
    let mut rng = Rng::new(seed);
    let dir = Scratch::new(base, "c10v");
    let wal = dir.join("n0.wal");
    let img = dir.join("image.wal");
    let peers: Vec<String> = (1..=4).map(|i| format!("n{}", i)).collect();
    let replay = json!({"part": "concurrent-votes", "case_seed": seed});
    let open = |p: &Path| RaftNode::with_wal(NODE.to_string(), peers.clone(), CaptureTransport::new(NODE, &peers), cfg(), p);
    let node = match open(&wal) {
        Ok(n) => n,
        Err(e) => {
            r.inconclusive(&format!("cannot create the node: {}", first_line(&e.to_string())));
            return false;
        }
    };
    let mut trace: Vec<String> = Vec::new();
    // some log first, so that "at least as up to date" means something
    let mut log_len = 0u64;
    let mut last_term = 0u64;
    if rng.chance(2, 3) {
        let k = 1 + rng.below(3) as u64;
        let es: Vec<LogEntry> = (1..=k).map(|i| mk_entry(i, 1)).collect();
        let m = Message::AppendEntries(AppendEntries { term: 1, leader_id: "n4".into(), prev_log_index: 0, prev_log_term: 0, entries: es, leader_commit: 0, block_embedding: None });
        if let Some(Message::AppendEntriesResponse(a)) = node.handle_message(&"n4".to_string(), &m) {
            if a.success {
                log_len = k;
                last_term = 1;
            }
        }
        trace.push(format!("AppendEntries(term 1, {} entries)", k));
    }
    // promises: (stamp = WAL length when the round was over, term) and (stamp, term, candidate)
    let mut terms: Vec<(u64, u64)> = Vec::new();
    let mut grants: Vec<(u64, u64, String)> = Vec::new();
    let mut violated = false;
    let rounds = 6 + rng.below(10);
    for _ in 0..rounds {
        let cur = node.current_term();
        let k = 2 + rng.below(2);
        let mut cands: Vec<String> = peers[..3].to_vec();
        rng.shuffle(&mut cands);
        cands.truncate(k);
        let kind = rng.below(10);
        let round_term = cur + 1 + (kind == 9) as u64;
        if kind >= 6 && kind < 9 {
            // the term is already current when the requests arrive (a heartbeat announced it)
            let m = Message::AppendEntries(AppendEntries {
                term: round_term,
                leader_id: "n4".into(),
                prev_log_index: log_len + 5,
                prev_log_term: round_term,
                entries: vec![],
                leader_commit: 0,
                block_embedding: None,
            });
            let _ = node.handle_message(&"n4".to_string(), &m);
        }
        let msgs: Vec<(String, Message)> = cands
            .iter()
            .enumerate()
            .map(|(i, c)| {
                // one request in ten asks for the next term instead (different terms: both may be granted)
                let t = if kind == 5 && i == 1 { round_term + 1 } else { round_term };
                (
                    c.clone(),
                    Message::RequestVote(RequestVote {
                        term: t,
                        candidate_id: c.clone(),
                        last_log_index: log_len + rng.below(3) as u64,
                        last_log_term: last_term + rng.below(2) as u64,
                        state_embedding: SparseVector::new(0),
                    }),
                )
            })
            .collect();
        let spins: Vec<u32> = (0..k).map(|_| if rng.bool() { 0 } else { rng.below(400) as u32 }).collect();
        let barrier = std::sync::Barrier::new(k);
        let results: Vec<(Option<Message>, u64, u64)> = std::thread::scope(|sc| {
            let hs: Vec<_> = msgs
                .iter()
                .zip(spins.iter())
                .map(|((c, m), spin)| {
                    let node = &node;
                    let barrier = &barrier;
                    sc.spawn(move || {
                        barrier.wait();
                        for _ in 0..*spin {
                            std::hint::spin_loop();
                        }
                        let t0 = tick();
                        let reply = node.handle_message(c, m);
                        let t1 = tick();
                        (reply, t0, t1)
                    })
                })
                .collect();
            hs.into_iter().map(|h| h.join().unwrap_or((None, 0, 0))).collect()
        });
        let stamp = file_len(&wal);
        r.count("concurrent_vote_rounds", 1);
        r.count("concurrent_vote_requests", k as u64);
        let max_start = results.iter().map(|x| x.1).max().unwrap_or(0);
        let min_end = results.iter().map(|x| x.2).min().unwrap_or(0);
        if max_start < min_end {
            r.count("rounds_where_all_requests_overlapped", 1);
        }
        let mut any_overlap = false;
        for a in 0..results.len() {
            for b in a + 1..results.len() {
                if results[a].1 < results[b].2 && results[b].1 < results[a].2 {
                    any_overlap = true;
                }
            }
        }
        if any_overlap {
            r.count("rounds_where_both_requests_overlapped", 1);
        }
        let mut desc = Vec::new();
        for ((c, _), (reply, t0, t1)) in msgs.iter().zip(results.iter()) {
            if let Some(Message::RequestVoteResponse(rv)) = reply {
                desc.push(format!("{}: term {} granted {} [ticks {}..{}]", c, rv.term, rv.vote_granted, t0, t1));
                if terms.last().map_or(true, |l| rv.term > l.1) {
                    terms.push((stamp, rv.term));
                }
                if rv.vote_granted {
                    r.count("concurrent_vote_grants", 1);
                    if let Some(prev) = grants.iter().find(|g| g.1 == rv.term && g.2 != *c).cloned() {
                        trace.push(format!("round(term {}): {}", round_term, desc.join("; ")));
                        r.violation(
                            "double-vote-granted:concurrent-requests",
                            format!(
                                "term {}: the node granted its vote to {} and to {} (requests delivered by {} threads released together; WAL {} bytes after the round) | rounds: {:?}",
                                rv.term, prev.2, c, k, stamp, trace
                            ),
                            replay.clone(),
                        );
                        violated = true;
                    }
                    grants.push((stamp, rv.term, c.clone()));
                }
            }
        }
        trace.push(format!("round(term {}): {}", round_term, desc.join("; ")));
        if violated {
            return true;
        }
    }
    drop(node);
    // every byte prefix of the WAL, judged against the promises stamped at the ends of the rounds
    let Ok(bytes) = std::fs::read(&wal) else {
        r.inconclusive("cannot read the WAL file back");
        return false;
    };
    let mut nontrivial = false;
    for x in 0..=bytes.len() as u64 {
        if std::fs::write(&img, &bytes[..x as usize]).is_err() {
            r.inconclusive("cannot write crash image");
            return false;
        }
        r.count("concurrent_images_judged", 1);
        let n = match open(&img) {
            Ok(n) => n,
            Err(e) => {
                let es = e.to_string();
                r.violation(
                    format!("restart-fails-{}:concurrent-requests", err_class(&es)),
                    format!("RaftNode::with_wal failed on the first {} bytes of the {}-byte WAL: {} | rounds: {:?}", x, bytes.len(), es, trace),
                    replay.clone(),
                );
                return true;
            }
        };
        let rec = match RaftWal::open(&img).and_then(|w| RaftRecoveryState::from_wal(&w)) {
            Ok(s) => s,
            Err(_) => continue,
        };
        let rec_term = n.current_term();
        if let Some(t) = terms.iter().filter(|t| t.0 <= x).last() {
            if rec_term < t.1 {
                r.violation(
                    "term-regressed:concurrent-requests",
                    format!("restarted from the first {} bytes with term {}, but the node had answered with term {} when the WAL was {} bytes long | rounds: {:?}", x, rec_term, t.1, t.0, trace),
                    replay.clone(),
                );
                return true;
            }
        }
        for g in grants.iter().filter(|g| g.0 <= x && g.1 == rec_term) {
            nontrivial = true;
            r.count("concurrent_vote_obligations_checked", 1);
            if rec.voted_for.as_deref() != Some(g.2.as_str()) {
                r.violation(
                    "vote-forgotten:concurrent-requests",
                    format!(
                        "restarted from the first {} bytes in term {} with voted_for {:?}, but it had granted its vote of that term to {} (WAL {} bytes long after that round) | rounds: {:?}",
                        x, rec_term, rec.voted_for, g.2, g.0, trace
                    ),
                    replay.clone(),
                );
                return true;
            }
            // the OTHER candidate asks again after the restart
            let other = peers.iter().find(|p| **p != g.2).cloned().unwrap_or_else(|| "n9".into());
            let m = Message::RequestVote(RequestVote { term: rec_term, candidate_id: other.clone(), last_log_index: 1 << 40, last_log_term: 1 << 40, state_embedding: SparseVector::new(0) });
            if let Some(Message::RequestVoteResponse(rv)) = n.handle_message(&other, &m) {
                if rv.vote_granted {
                    r.violation(
                        "double-vote-granted:concurrent-requests",
                        format!("after a restart from the first {} bytes the node granted its term-{} vote to {} although it had granted it to {} before | rounds: {:?}", x, rec_term, other, g.2, trace),
                        replay.clone(),
                    );
                    return true;
                }
            }
            break;
        }
    }
    r.eval(hash_combine(hash_bytes(&bytes), 0xC0), nontrivial);
    if r.want_sample() && nontrivial {
        r.sample(json!({"part": "concurrent-votes", "case_seed": seed, "rounds": trace.iter().take(8).collect::<Vec<_>>()}));
    }
    false
}

fn free_bytes(p: &Path) -> Option<u64> {
    // `df -Pk` keeps libc out of the harness; only used for a start-up sanity check
    let out = std::process::Command::new("df").arg("-Pk").arg(p).output().ok()?;
    let s = String::from_utf8_lossy(&out.stdout).to_string();
    let line = s.lines().nth(1)?;
    let avail: u64 = line.split_whitespace().nth(3)?.parse().ok()?;
    Some(avail * 1024)
}

fn main() {
    let args = Args::parse();
    let started = Instant::now();
    if args.rest.first().map(|s| s.as_str()) == Some("child-ack") {
        let dir = PathBuf::from(args.rest.get(1).cloned().unwrap_or_else(|| "/tmp".into()));
        let seed = args.rest.get(2).and_then(|s| s.parse().ok()).unwrap_or(1);
        std::process::exit(child_ack(&dir, seed));
    }
    quiet_panics();
    let mut total = Report::new();
    total.max_samples = 4;
    let base = args.scratch.clone();
    let quick = args.quick();

    // RaftWal refuses to append with < 100 MB free (WalConfig::min_free_space_bytes) and the node
    // then retries with sleeps: that would only make the run observe nothing
    let space_ok = free_bytes(&base).map_or(true, |b| b > 300 * 1024 * 1024);
    if !space_ok {
        total.inconclusive("scratch directory has < 300 MB free: RaftWal would refuse every append");
    }

    if let Some(p) = &args.replay {
        let v: Value = serde_json::from_str(&std::fs::read_to_string(p).expect("replay file")).expect("json");
        let rp = if v.get("replay").is_some() { &v["replay"] } else { &v };
        let seed = rp["case_seed"].as_u64().expect("case_seed");
        if rp["part"].as_str() == Some("concurrent-votes") {
            // thread timing is not replayable: same inputs, repeated until the refutation shows again
            for _ in 0..200 {
                if run_concurrent_votes_case(seed, &base, &mut total) {
                    break;
                }
            }
        } else {
            let part = if rp["part"].as_str() == Some("snapshot") { Part::Snapshot } else { Part::Main };
            // the case ran under the tier recorded in the replay (image sampling depends on it)
            let q = rp["quick"].as_bool().unwrap_or(quick);
            run_case(part, seed, rp["big"].as_bool().unwrap_or(false), &base, q, &mut total);
        }
    } else if space_ok {
        let n_main = args.by_tier(6_000u64, 400_000u64);
        let rep = par_cases(args.threads, args.seed, n_main, args.budget(36, 540), |i, s, r| run_case(Part::Main, s, i % 16 == 5 && (!quick || i < 160), &base, quick, r));
        total.count("main_cases", rep.counters.get("cases").copied().unwrap_or(0));
        total.merge(rep);
        let n_snap = args.by_tier(1_200u64, 80_000u64);
        let rep = par_cases(args.threads, args.seed ^ 0x5A, n_snap, args.budget(18, 200), |i, s, r| run_case(Part::Snapshot, s, i % 16 == 5 && (!quick || i < 80), &base, quick, r));
        total.count("snapshot_cases", rep.counters.get("cases").copied().unwrap_or(0));
        total.merge(rep);
        // each case runs 2-3 threads of its own
        let n_conc = args.by_tier(3_000u64, 60_000u64);
        let workers = (args.threads / 3).max(1);
        let rep = par_cases(workers, args.seed ^ 0xC7, n_conc, args.budget(6, 60), |_i, s, r| {
            run_concurrent_votes_case(s, &base, r);
        });
        total.count("concurrent_vote_cases", rep.counters.get("cases").copied().unwrap_or(0));
        total.merge(rep);
    }

    let meta = Meta {
        property: "C10",
        rule: "A case = one real RaftNode::with_wal driven by a seeded hostile environment for 3-12 protocol steps (one step may be a whole leadership: win an election, replicate and commit entries, accept more, compact the log behind a snapshot, get deposed by a leader that lacks the uncommitted tail), then up to 3 times: cut the real WAL file at a chosen byte (60% inside one of the last three records, 15% anywhere, 25% between records), restart the real node on it, drive 2-8 more steps. After every phase every truncation of the (new part of the) WAL file — every byte when the part is <= 1400 (quick) / 3000 (thorough) bytes, otherwise all record/ack boundaries -2..+9 bytes, every byte of the last three records and a seeded sample — is restarted with RaftNode::with_wal and judged against the promise ledger (term, vote of the recovered term, acknowledged entries by position and bytes, log shape at ack boundaries, and a probing RequestVote from another candidate). One evaluation = one phase (one WAL file with its ledger); it is distinct by the hash of the WAL bytes and non-trivial when at least one obligation applied to some judged image and at least one judged image ended inside a record.",
        assumptions: vec![
            "crashes are process crashes: the file keeps a prefix of what had reached it (write(2) level); bytes still in a user-space buffer when a call returned are lost — that is how 'answered before the record reached the file' is observed; fsync itself is not observable here".into(),
            "a message handed to the node's transport has left the node: what it announces (term, own candidacy, replicated entries) is stamped with the WAL length at the moment of the hand-over, not at the return of the call, and counts even when the call then fails (one election in eight has its broadcast fail after the first peer); one message in three is delivered through handle_message_async, whose reply leaves through the transport as well".into(),
            "every 16th of the first cases (all through in thorough) uses 1-3 MiB incompressible blocks for about an eighth of its entries (appended, proposed, replicated, in snapshots); its crash images are sampled at record/ack boundaries -1/+0/+1/+8, record middles and 12 seeded offsets".into(),
            "obligations come only from what the node emitted: replies of handle_message, messages it put on the transport, Ok results of propose; an entry obligation ends only when the node later answers success to an AppendEntries carrying a different-term entry at or below that index, or (snapshot part) when a snapshot install replaces the log with different entries from that index on (entries the snapshot repeats stay promised during the install's own WAL writes), cuts the log behind the snapshot, or covers what precedes its first entry; an install on a node that already holds the snapshot's last entry (same index and term) changes no promise; a success reply also promises the leader's entries up to prev_log_index (match_index covers them: the node checked prev itself) unless prev is a compacted position".into(),
            "when the live log stops following the reference model after a reply (last_log_index / last_log_term differ from what the Raft follower rule gives for the answered messages) the case takes no further steps, but its crash images are still judged against the promises made so far; it is reported inconclusive only if nothing is refuted".into(),
            "a restarted node holds indices (last_log_index - log_length + 1)..=last_log_index (the run of consecutive indices that ends the recovered log); a promised entry must be held there with the same bytes. Entries carried by an AppendEntries at positions the live node has compacted behind a snapshot create no promise (the node answers for the snapshot there), and promises for entries in front of an installed snapshot's first entry end with that install".into(),
            "beyond the letter of the statement, at an ack boundary (no write in flight): the restarted node's last_log_index/last_log_term equal the live node's and its first held index is <= the live node's (a prefix the live node compacted may come back from the WAL) — signature log-differs-at-ack-boundary (a truncated suffix must not reappear); and no entry it holds contradicts the live node's log at that index, the positions the live node had compacted behind an installed snapshot included (reference: the Raft follower/snapshot rules applied to the messages the node answered) — signature restarted-log-contradicts-live-log (entries superseded by a snapshot must not reappear in front of it)".into(),
            "the environment is a well-formed Raft world: one leader per term, leader logs are prefix-consistent, entry content is a function of (index, term); terms in which n0 campaigned are never given to another leader; whatever the live node regards as committed (commit_index: leader_commit of an accepted AppendEntries — never beyond the last entry that message establishes —, own majority acknowledgements, an installed snapshot) is held by every later leader; only committed entries are finalized and compacted; a leader is acknowledged by followers only while no later-term leader exists".into(),
            "part concurrent-votes: a case = one real node with a real WAL (optionally a few entries first), 6-15 rounds; in a round 2-3 threads released on one barrier (half of them after a short seeded spin) each call handle_message with a RequestVote of the round's term from a different candidate whose log is at least as up to date (variants: the term was announced by a heartbeat before; one request asks for the next term). Invocation and return of every call take a tick of one atomic counter; a round counts as overlapped when two calls' tick intervals intersect. Oracle: over all replies of the case at most one candidate is granted per term (double-vote-granted:concurrent-requests); then every byte prefix of the WAL is restarted and judged against the replies stamped with the WAL length at the end of their round: term, voted_for of the recovered term, and the OTHER candidate's re-delivered request must be refused. Thread timing is not replayable: --replay repeats the case's inputs up to 200 times".into(),
            "signature = <what>:<context>; context concurrent-requests = part concurrent-votes; context append-after-torn-tail = the image contains records the node appended behind a partial record left by an earlier crash of the chain; after-snapshot-install = the image contains records written after a snapshot install; else clean-wal".into(),
        ],
        floors: if args.replay.is_some() {
            vec![]
        } else {
            vec![
                ("images_judged", 100_000),
                ("images_inside_a_record", 80_000),
                ("phases_judged", 250),
                ("chain_restarts", 150),
                ("crashes_inside_a_record", 100),
                ("chains_with_2_crashes_completed", 15),
                ("chains_with_3_crashes_completed", 5),
                ("votes_granted", 200),
                ("vote_obligations_checked", 20_000),
                ("entry_obligations_checked", 100_000),
                ("term_obligations_checked", 50_000),
                ("conflict_truncations", 60),
                ("proposals_accepted", 100),
                ("elections_started", 200),
                ("vote_probes", 20_000),
                ("ack_boundary_shape_checks", 1_500),
                ("snapshots_installed", 30),
                ("snapshot_installs_repeating_held_entries", 15),
                ("snapshot_installs_from_a_compacted_leader", 10),
                ("snapshot_installs_log_kept", 10),
                ("ack_boundary_content_checks", 1_000),
                ("log_compactions", 40),
                ("conflict_truncations_on_a_compacted_log", 8),
                ("conflict_truncations_followed_by_entries_inside_the_old_range", 30),
                ("wal_records_larger_than_1MiB", 3),
                ("elections_with_failed_broadcast", 15),
                ("messages_handled_through_handle_message_async", 200),
                ("concurrent_vote_rounds", 500),
                ("rounds_where_both_requests_overlapped", 200),
                ("concurrent_vote_grants", 400),
                ("concurrent_vote_obligations_checked", 5_000),
            ]
        },
        exhaustive: false,
    };
    write_result(&args, &meta, &total, started);
}
