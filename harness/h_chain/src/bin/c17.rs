//! C17 — membership views converge and never move backwards.
//!
//! Monitors (all on the real `LWWMembershipState` / `GossipMembershipManager`):
//!  conv-exhaustive : every multiset of <= N updates over a small universe, every distinct
//!                    permutation x every batching (+ a re-delivery variant) must end in the same
//!                    (health, incarnation) view as the canonical delivery.
//!  conv-random     : larger random multisets, sampled permutations/batchings/repetitions, through
//!                    `merge` and through `GossipMembershipManager::handle_gossip(Sync)`.
//!  monotone        : random programs of merges and local events; after every call the Lamport time
//!                    and every recorded incarnation must not have decreased, and nobody is recorded
//!                    Failed at an incarnation above what that member announced. In half of the
//!                    manager programs the receiving node is itself one of the observed members
//!                    (a node that restarted and hears its own earlier incarnations back from its
//!                    peers, is suspected and refutes, is announced alive, is pinged, ...): its
//!                    record of itself is a recorded incarnation like any other.
//!  concurrent      : the same manager handles gossip on 2-3 threads at once (handle_gossip takes
//!                    &self; one thread mostly delivers large Sync batches, the others Alive
//!                    announcements with growing incarnations, Syncs with a growing sender clock,
//!                    suspicions and ping acks). The oracle is only this: the Lamport time and the
//!                    recorded incarnation of a member that one thread reads (each read under the
//!                    manager's own lock) never decrease from one read of that thread to its next.
//!  conv-local      : delivery interleaved with local events. One replica X (an LWW state or a
//!                    manager) runs a short program of merged batches (1-4 reports in arbitrary
//!                    order - newest first, last or in the middle -, Syncs whose sender clock is
//!                    below, at or above their timestamps) and local suspect / fail / refute /
//!                    mark_healthy events (through the manager: Suspect, Alive, PingAck, suspicion
//!                    expiry, Syncs sent by an observed member, add_peer). Everything X was
//!                    delivered and every record X held after one of its own steps (what it would
//!                    gossip) form the pool of updates X has received. Two clauses, both on
//!                    (health, incarnation) views only: (repetition) re-delivering any part of the
//!                    pool to X, in any order and grouping, leaves X's view as it was; (replica) a
//!                    fresh replica Y without local events that is delivered the whole pool in any
//!                    order / grouping / repetition ends with X's view.

use common::*;
use serde_json::{json, Value};
use std::collections::BTreeMap;
use std::sync::Arc;
use std::time::Instant;
use tensor_chain::gossip::{GossipConfig, GossipMembershipManager, GossipMessage, GossipNodeState, LWWMembershipState};
use tensor_chain::membership::NodeHealth;
use tensor_chain::network::Message;

#[derive(Clone, Copy, Debug, PartialEq, Eq, PartialOrd, Ord, Hash)]
struct Upd {
    member: u8,
    inc: u64,
    ts: u64,
    health: u8, // 0 Healthy 1 Degraded 2 Failed 3 Unknown
}

thread_local! {
    static RT: tokio::runtime::Runtime = tokio::runtime::Builder::new_current_thread().enable_time().build().expect("tokio current-thread runtime");
}

fn block_on<F: std::future::Future>(f: F) -> F::Output {
    RT.with(|rt| rt.block_on(f))
}

fn health_of(h: u8) -> NodeHealth {
    match h {
        0 => NodeHealth::Healthy,
        1 => NodeHealth::Degraded,
        2 => NodeHealth::Failed,
        _ => NodeHealth::Unknown,
    }
}
fn hname(h: NodeHealth) -> &'static str {
    match h {
        NodeHealth::Healthy => "H",
        NodeHealth::Degraded => "D",
        NodeHealth::Failed => "F",
        _ => "U",
    }
}
fn mname(m: u8) -> String {
    format!("m{}", m)
}
fn to_state(u: &Upd) -> GossipNodeState {
    GossipNodeState::with_wall_time(mname(u.member), health_of(u.health), u.ts, u.inc, 0)
}
fn upd_json(u: &Upd) -> Value {
    json!({"member": mname(u.member), "inc": u.inc, "ts": u.ts, "health": hname(health_of(u.health))})
}

type View = BTreeMap<String, (String, u64)>;

fn view_of(s: &LWWMembershipState) -> View {
    s.all_states().map(|st| (st.node_id.clone(), (hname(st.health).to_string(), st.incarnation))).collect()
}

/// deliver `order` (indices into `ups`) cut into batches by `cuts` bitmask (bit i set = cut after i)
fn deliver(ups: &[Upd], order: &[usize], cuts: u32, redeliver: bool) -> View {
    let mut s = LWWMembershipState::new();
    let mut batch: Vec<GossipNodeState> = Vec::new();
    for (pos, &i) in order.iter().enumerate() {
        batch.push(to_state(&ups[i]));
        if cuts & (1 << pos) != 0 || pos + 1 == order.len() {
            s.merge(&batch);
            batch.clear();
        }
    }
    if redeliver {
        // repetition: everything again, one by one, in reverse order
        for &i in order.iter().rev() {
            s.merge(&[to_state(&ups[i])]);
        }
    }
    view_of(&s)
}

fn next_permutation(a: &mut [usize]) -> bool {
    // lexicographic next permutation over the *values* ups[a[i]] is not needed: indices are
    // distinct, duplicates in the multiset simply repeat work on identical deliveries.
    let n = a.len();
    if n < 2 {
        return false;
    }
    let mut i = n - 1;
    while i > 0 && a[i - 1] >= a[i] {
        i -= 1;
    }
    if i == 0 {
        return false;
    }
    let mut j = n - 1;
    while a[j] <= a[i - 1] {
        j -= 1;
    }
    a.swap(i - 1, j);
    a[i..].reverse();
    true
}

fn universe(members: u8, incs: u64, tss: u64, healths: u8) -> Vec<Upd> {
    let mut u = Vec::new();
    for m in 0..members {
        for inc in 0..incs {
            for ts in 1..=tss {
                for h in 0..healths {
                    u.push(Upd { member: m, inc, ts, health: h });
                }
            }
        }
    }
    u
}

fn nontrivial(ups: &[Upd]) -> bool {
    for i in 0..ups.len() {
        for j in i + 1..ups.len() {
            if ups[i].member == ups[j].member && ups[i] != ups[j] {
                return true;
            }
        }
    }
    false
}

fn hash_multiset(ups: &[Upd]) -> u64 {
    let mut v: Vec<Upd> = ups.to_vec();
    v.sort();
    let mut h = 17u64;
    for u in v {
        h = hash_combine(h, (u.member as u64) << 48 | u.inc << 32 | u.ts << 8 | u.health as u64);
    }
    h
}

fn classify(ups: &[Upd], a: &View, b: &View) -> String {
    // which member differs, and is it the (incarnation, timestamp) tie?
    for (m, va) in a {
        if b.get(m) != Some(va) {
            let mine: Vec<&Upd> = ups.iter().filter(|u| &mname(u.member) == m).collect();
            let top = mine.iter().map(|u| (u.inc, u.ts)).max().unwrap();
            let tops: std::collections::BTreeSet<u8> =
                mine.iter().filter(|u| (u.inc, u.ts) == top).map(|u| u.health).collect();
            return if tops.len() > 1 { "convergence:tie-same-incarnation-and-timestamp".into() } else { "convergence:order-dependent".into() };
        }
    }
    "convergence:order-dependent".into()
}

/// all permutations x batchings (+ redelivery) of one multiset against the canonical delivery
fn check_multiset_exhaustive(ups: &[Upd], r: &mut Report, part: &str) {
    let n = ups.len();
    let canon: Vec<usize> = (0..n).collect();
    let reference = deliver(ups, &canon, (1 << n) - 1, false);
    let mut perm = canon.clone();
    let mut deliveries = 0u64;
    loop {
        for cuts in 0..(1u32 << (n.saturating_sub(1))) {
            for &re in &[false, true] {
                if re && cuts != 0 {
                    continue;
                }
                let v = deliver(ups, &perm, cuts, re);
                deliveries += 1;
                if v != reference {
                    r.violation(
                        classify(ups, &reference, &v),
                        format!(
                            "same updates, different views: canonical order gives {:?}, order {:?} cuts {:#b} redeliver {} gives {:?}; updates {:?}",
                            reference, perm, cuts, re, v, ups
                        ),
                        json!({"part": part, "updates": ups.iter().map(upd_json).collect::<Vec<_>>(), "order": perm, "cuts": cuts, "redeliver": re}),
                    );
                    r.count("deliveries", deliveries);
                    return;
                }
            }
        }
        if !next_permutation(&mut perm) {
            break;
        }
    }
    r.count("deliveries", deliveries);
    r.eval(hash_multiset(ups), nontrivial(ups));
    if r.want_sample() && nontrivial(ups) && n >= 3 {
        r.sample(json!({"part": part, "updates": ups.iter().map(upd_json).collect::<Vec<_>>(), "orders_x_batchings": deliveries, "view": format!("{:?}", reference)}));
    }
}

fn gen_updates(rng: &mut Rng, members: u8, n: usize, unknown: bool) -> Vec<Upd> {
    (0..n)
        .map(|_| Upd {
            member: rng.below(members as usize) as u8,
            inc: rng.below(4) as u64,
            ts: 1 + rng.below(4) as u64,
            health: if unknown && rng.chance(1, 8) { 3 } else { rng.below(3) as u8 },
        })
        .collect()
}

fn conv_random(case_seed: u64, r: &mut Report) {
    let mut rng = Rng::new(case_seed);
    let members = 2 + rng.below(3) as u8;
    let n = 3 + rng.below(8);
    let ups = gen_updates(&mut rng, members, n, true);
    let canon: Vec<usize> = (0..n).collect();
    let reference = deliver(&ups, &canon, u32::MAX, false);
    // (a) LWW state, sampled permutations / batchings / repetition
    for _ in 0..12 {
        let mut order = canon.clone();
        rng.shuffle(&mut order);
        // repetition: append some duplicates of random elements
        for _ in 0..rng.below(4) {
            let x = order[rng.below(order.len())];
            let pos = rng.below(order.len() + 1);
            order.insert(pos, x);
        }
        let cuts = rng.next_u64() as u32;
        let v = deliver(&ups, &order, cuts, rng.bool());
        r.count("deliveries", 1);
        if v != reference {
            r.violation(
                classify(&ups, &reference, &v),
                format!("same updates, different views: canonical {:?} vs order {:?} cuts {:#b}: {:?}; updates {:?}", reference, order, cuts, v, ups),
                json!({"part": "conv-random", "case_seed": case_seed}),
            );
            return;
        }
    }
    // (b) through the manager: Sync messages from an observer that is not one of the members
    let mgr_view = |order: &[usize], cuts: u32| -> View {
        let peers: Vec<String> = vec!["obs".into()];
        let t = h_chain::CaptureTransport::new("local", &peers);
        let mgr = GossipMembershipManager::new("local".into(), GossipConfig::default(), t);
        let mut batch = Vec::new();
        for (pos, &i) in order.iter().enumerate() {
            batch.push(to_state(&ups[i]));
            if cuts & (1 << (pos % 31)) != 0 || pos + 1 == order.len() {
                mgr.handle_gossip(GossipMessage::Sync { sender: "obs".into(), states: std::mem::take(&mut batch), sender_time: 1 });
            }
        }
        mgr.all_states()
            .into_iter()
            .filter(|s| s.node_id.starts_with('m'))
            .map(|s| (s.node_id.clone(), (hname(s.health).to_string(), s.incarnation)))
            .collect()
    };
    let mref = mgr_view(&canon, u32::MAX);
    if mref != reference {
        r.violation(
            "manager-vs-state",
            format!("handle_gossip(Sync) view {:?} differs from LWW merge view {:?}; updates {:?}", mref, reference, ups),
            json!({"part": "conv-random", "case_seed": case_seed}),
        );
        return;
    }
    for _ in 0..4 {
        let mut order = canon.clone();
        rng.shuffle(&mut order);
        let cuts = rng.next_u64() as u32;
        let v = mgr_view(&order, cuts);
        r.count("manager_deliveries", 1);
        if v != mref {
            r.violation(
                classify(&ups, &mref, &v),
                format!("manager: same Sync updates, different views: {:?} vs order {:?}: {:?}; updates {:?}", mref, order, v, ups),
                json!({"part": "conv-random", "case_seed": case_seed}),
            );
            return;
        }
    }
    r.eval(hash_multiset(&ups), nontrivial(&ups));
    if r.want_sample() {
        r.sample(json!({"part": "conv-random", "updates": ups.iter().map(upd_json).collect::<Vec<_>>(), "view": format!("{:?}", reference)}));
    }
}

/// monotonicity of Lamport time and incarnations, failed-incarnation bound
fn monotone(case_seed: u64, r: &mut Report) {
    // the manager's handlers may spawn tasks (a node that is suspected broadcasts its refutation):
    // the whole program runs inside the thread's runtime context
    RT.with(|rt| {
        let _ctx = rt.enter();
        monotone_program(case_seed, r)
    })
}

fn monotone_program(case_seed: u64, r: &mut Report) {
    let mut rng = Rng::new(case_seed);
    let members = 2 + rng.below(3) as u8;
    let use_mgr = rng.chance(1, 3);
    // in half of the manager programs the receiving node is one of the observed members (drawn from
    // a stream of its own, so that the programs themselves are the ones generated before)
    let local_member: Option<u8> = {
        let mut r2 = Rng::new(case_seed ^ 0x5E1F_0B5E_57ED);
        if use_mgr && r2.bool() { Some(r2.below(members as usize) as u8) } else { None }
    };
    let local_name = local_member.map(mname).unwrap_or_else(|| "local".to_string());
    let mut self_refutations = 0u64; // = the node's own incarnation counter (it starts at 0)
    let mut ann: Vec<u64> = vec![0; members as usize]; // highest incarnation each member announced
    let mut trace: Vec<String> = Vec::new();
    let mut st = LWWMembershipState::new();
    let t = h_chain::CaptureTransport::new(&local_name, &["obs".to_string()]);
    // half of the manager cases let suspicions expire at once (1 ms), so that the failure verdict of
    // expire_suspicions (run at the end of every gossip round) is part of the program
    let fast_expiry = rng.bool();
    let gcfg = if fast_expiry { GossipConfig { suspicion_timeout_ms: 1, ..GossipConfig::default() } } else { GossipConfig::default() };
    let mgr = GossipMembershipManager::new(local_name.clone(), gcfg, t.clone());
    if use_mgr {
        mgr.add_peer("obs".into());
    }
    if local_member.is_some() {
        r.count("monotone_programs_in_which_the_receiving_node_is_an_observed_member", 1);
    }
    let mut prev_time = 0u64;
    let mut prev_inc: BTreeMap<String, u64> = BTreeMap::new();
    let steps = 10 + rng.below(40);
    let mut events = 0u64;
    let mut delivered_now: Vec<(u8, u64)> = Vec::new();
    for step in 0..steps {
        let m = rng.below(members as usize) as u8;
        let op = rng.below(8);
        let desc;
        match op {
            0 | 1 => {
                // a batch of remote updates; announcements are Healthy states by the member itself
                let k = 1 + rng.below(3);
                let mut batch = Vec::new();
                for _ in 0..k {
                    let mm = rng.below(members as usize) as u8;
                    let ts = 1 + rng.below(30) as u64;
                    if rng.bool() {
                        let inc = ann[mm as usize] + rng.below(2) as u64;
                        ann[mm as usize] = ann[mm as usize].max(inc);
                        batch.push(Upd { member: mm, inc, ts, health: 0 });
                    } else {
                        let inc = rng.below(ann[mm as usize] as usize + 1) as u64;
                        batch.push(Upd { member: mm, inc, ts, health: 1 + rng.below(2) as u8 });
                    }
                }
                // through the manager the Sync comes from the outside observer or, half of the time,
                // from one of the observed members (which then often reports on itself: handle_sync
                // merges the batch *and* marks the sender alive - neither may move anything backwards)
                let sender_member: Option<u8> = if use_mgr && rng.bool() { Some(rng.below(members as usize) as u8) } else { None };
                if let Some(sm) = sender_member {
                    if rng.bool() {
                        batch[0].member = sm;
                        batch[0].inc = batch[0].inc.min(ann[sm as usize]);
                        if batch[0].health == 0 {
                            // an announcement by the sender itself
                            batch[0].inc = ann[sm as usize];
                        }
                    }
                    r.count("monotone_syncs_sent_by_an_observed_member", 1);
                    if batch.iter().any(|u| u.member == sm && u.health != 0) {
                        r.count("monotone_syncs_in_which_the_sender_reports_itself_unhealthy", 1);
                    }
                }
                desc = format!("merge {:?}{}", batch, sender_member.map(|m| format!(" sent by {}", mname(m))).unwrap_or_default());
                let states: Vec<GossipNodeState> = batch.iter().map(to_state).collect();
                delivered_now = batch.iter().map(|u| (u.member, u.inc)).collect();
                if use_mgr {
                    let sender = sender_member.map(mname).unwrap_or_else(|| "obs".to_string());
                    mgr.handle_gossip(GossipMessage::Sync { sender, states, sender_time: rng.below(40) as u64 });
                } else {
                    st.merge(&states);
                }
            }
            2 => {
                // a suspicion may name any incarnation, also one the member never announced (stale
                // or confused reporter): it must not make the replica record that incarnation
                let inc = rng.below(ann[m as usize] as usize + 3) as u64;
                desc = format!("suspect {} inc {}", mname(m), inc);
                if use_mgr {
                    let about_self = local_member == Some(m);
                    if about_self {
                        // the receiving node itself is suspected: it refutes with its own counter + 1,
                        // which after a restart is below what its peers gossiped back about it
                        r.count("monotone_suspicions_of_the_receiving_node", 1);
                        let recorded = mgr.node_state(&local_name).map_or(0, |s| s.incarnation);
                        if recorded > self_refutations + 1 {
                            r.count("monotone_suspicions_of_the_receiving_node_whose_view_of_itself_is_ahead_of_its_counter", 1);
                        }
                    }
                    mgr.handle_gossip(GossipMessage::Suspect { reporter: "obs".into(), suspect: mname(m), incarnation: inc });
                    if about_self {
                        self_refutations += 1;
                        // the refutation is an announcement by the member itself: take the
                        // incarnation it really broadcast
                        block_on(async {
                            for _ in 0..3 {
                                tokio::task::yield_now().await;
                            }
                        });
                        for (_to, msg) in t.drain() {
                            if let Message::Gossip(GossipMessage::Alive { node_id, incarnation }) = msg {
                                if node_id == local_name {
                                    ann[m as usize] = ann[m as usize].max(incarnation);
                                    r.count("monotone_refutation_messages_broadcast_by_the_receiving_node", 1);
                                }
                            }
                        }
                    }
                } else {
                    st.suspect(&mname(m), inc);
                }
            }
            3 => {
                if use_mgr {
                    // late registration of a member (dynamic membership change / late connection),
                    // possibly after the member was already learned through gossip
                    desc = format!("add_peer {}", mname(m));
                    mgr.add_peer(mname(m));
                } else {
                    desc = format!("fail {}", mname(m));
                    st.fail(&mname(m));
                }
            }
            4 => {
                let inc = ann[m as usize] + rng.below(3) as u64;
                // sometimes a stale (lower) Alive arrives late
                let inc = if rng.chance(1, 4) { rng.below(inc as usize + 1) as u64 } else { inc };
                ann[m as usize] = ann[m as usize].max(inc);
                desc = format!("alive/refute {} inc {}", mname(m), inc);
                if use_mgr {
                    mgr.handle_gossip(GossipMessage::Alive { node_id: mname(m), incarnation: inc });
                } else {
                    st.refute(&mname(m), inc);
                }
            }
            5 => {
                desc = format!("mark_healthy {}", mname(m));
                if use_mgr {
                    mgr.handle_gossip(GossipMessage::PingAck { origin: "obs".into(), target: mname(m), sequence: step as u64, success: true });
                } else {
                    st.mark_healthy(&mname(m));
                }
            }
            6 => {
                let tme = rng.below(60) as u64;
                if use_mgr {
                    // a gossip round: sends a Sync to a peer and expires pending suspicions
                    desc = format!("gossip_round (suspicion timeout {} ms)", if fast_expiry { 1 } else { 5000 });
                    if fast_expiry {
                        std::thread::sleep(std::time::Duration::from_millis(2));
                    }
                    let _ = block_on(mgr.gossip_round());
                    r.count("monotone_gossip_rounds", 1);
                } else {
                    desc = format!("sync_time {}", tme);
                    st.sync_time(tme);
                }
            }
            _ => {
                // the member announces itself locally (own incarnation never decreases)
                let inc = ann[m as usize] + rng.below(2) as u64;
                ann[m as usize] = inc;
                desc = format!("update_local {} inc {}", mname(m), inc);
                if !use_mgr {
                    let cur = st.get(&mname(m)).map(|s| s.incarnation).unwrap_or(0);
                    if inc >= cur {
                        st.update_local(mname(m), NodeHealth::Healthy, inc);
                    }
                }
            }
        }
        trace.push(desc);
        events += 1;
        let delivered: Vec<(u8, u64)> = std::mem::take(&mut delivered_now);
        let (time, states): (u64, Vec<GossipNodeState>) = if use_mgr {
            (mgr.lamport_time(), mgr.all_states())
        } else {
            (st.lamport_time(), st.all_states().cloned().collect())
        };
        let mut bad: Option<(String, String)> = None;
        if time < prev_time {
            bad = Some(("monotone:lamport-time-decreased".into(), format!("lamport time {} -> {}", prev_time, time)));
        }
        prev_time = time;
        for s in &states {
            if !s.node_id.starts_with('m') {
                continue;
            }
            let p = prev_inc.get(&s.node_id).copied().unwrap_or(0);
            if s.incarnation < p {
                bad = Some(("monotone:incarnation-decreased".into(), format!("{} incarnation {} -> {}", s.node_id, p, s.incarnation)));
            }
            prev_inc.insert(s.node_id.clone(), s.incarnation);
            let idx: usize = s.node_id[1..].parse().unwrap();
            if s.health == NodeHealth::Failed && s.incarnation > ann[idx] {
                bad = Some((
                    "monotone:failed-above-announced-incarnation".into(),
                    format!("{} recorded Failed at incarnation {} but announced at most {}", s.node_id, s.incarnation, ann[idx]),
                ));
            }
        }
        // an update delivered in this call carries an incarnation the replica has now seen: whatever
        // else the call did (merge order inside the batch, marking the sender alive), the member
        // cannot be recorded below it afterwards - incarnations only move forward
        for (mm, inc) in &delivered {
            let rec = states.iter().find(|s| s.node_id == mname(*mm)).map(|s| s.incarnation);
            r.count("monotone_delivered_incarnations_checked", 1);
            if rec.map_or(true, |x| x < *inc) {
                bad = Some((
                    "monotone:delivered-incarnation-not-retained".into(),
                    format!("{} was delivered at incarnation {} in this call but is recorded at {:?} after it", mname(*mm), inc, rec),
                ));
            }
        }
        if let Some((sig, d)) = bad {
            r.violation(sig, format!("{} after step {} of {:?} (mgr={}, receiving node={})", d, step, trace, use_mgr, local_name), json!({"part": "monotone", "case_seed": case_seed}));
            return;
        }
    }
    r.count("monotone_events", events);
    r.eval(hash_str(&trace.join(";")), true);
    if r.want_sample() {
        r.sample(json!({"part": "monotone", "manager": use_mgr, "receiving_node": local_name, "trace": trace.iter().take(12).collect::<Vec<_>>()}));
    }
}

/// The hybrid logical clock behind the membership timestamps: every timestamp a clock issues
/// (now / receive) is strictly greater than the one it issued before, and a receive result is
/// strictly greater than the received timestamp - whatever wall times and logical counters the
/// received timestamps carry and whatever clock jumps are injected.
fn hlc_case(case_seed: u64, r: &mut Report) {
    use tensor_chain::hlc::{HLCTimestamp, HybridLogicalClock};
    let mut rng = Rng::new(case_seed);
    let clock = match HybridLogicalClock::new(rng.next_u64()) {
        Ok(c) => c,
        Err(_) => {
            r.inconclusive("hlc: system clock unavailable");
            return;
        }
    };
    // pin the clock's wall component far in the future so that the run does not depend on real
    // time: afterwards "same wall time" situations are produced at will
    let mut frontier = clock.estimated_wall_ms() + 1_000_000_000 + rng.below(1000) as u64;
    let mut last: Option<(u64, u64)> = None;
    let mut trace: Vec<String> = Vec::new();
    let steps = 10 + rng.below(40);
    for step in 0..steps {
        let issued: (u64, u64);
        match rng.weighted(&[35, 55, 10]) {
            0 if step > 0 => {
                match clock.now() {
                    Ok(t) => issued = (t.wall_ms(), t.logical()),
                    Err(_) => continue,
                }
                trace.push(format!("now -> {:?}", issued));
            }
            2 => {
                let j = rng.range(-5_000, 5_000);
                clock.inject_clock_jump(j);
                trace.push(format!("clock jump {}", j));
                continue;
            }
            _ => {
                let wall = match rng.below(if step == 0 { 1 } else { 6 }) {
                    0 => {
                        frontier += rng.below(3) as u64;
                        frontier
                    }
                    1 | 2 => last.map(|l| l.0).unwrap_or(frontier),
                    3 => last.map(|l| l.0.saturating_sub(1 + rng.below(5) as u64)).unwrap_or(frontier),
                    4 => last.map(|l| l.0 + 1).unwrap_or(frontier),
                    _ => rng.below(1000) as u64,
                };
                let logical = match rng.below(4) {
                    0 => 0,
                    1 => last.map(|l| l.1.saturating_sub(rng.below(4) as u64)).unwrap_or(0),
                    2 => last.map(|l| l.1 + rng.below(4) as u64).unwrap_or(3),
                    _ => rng.below(50) as u64,
                };
                let recv = HLCTimestamp::new(wall, logical, 7);
                match clock.receive(&recv) {
                    Ok(t) => {
                        issued = (t.wall_ms(), t.logical());
                        trace.push(format!("receive ({}, {}) -> {:?}", wall, logical, issued));
                        if issued <= (wall, logical) {
                            r.violation(
                                "hlc:receive-result-not-after-received-timestamp",
                                format!("receive(({}, {})) returned {:?}; trace {:?}", wall, logical, issued, trace),
                                json!({"part": "hlc", "case_seed": case_seed}),
                            );
                            return;
                        }
                    }
                    Err(_) => continue,
                }
            }
        }
        r.count("hlc_timestamps_checked", 1);
        if let Some(prev) = last {
            if issued <= prev {
                r.violation(
                    "hlc:clock-went-backwards",
                    format!("issued {:?} after {:?}; trace {:?}", issued, prev, trace),
                    json!({"part": "hlc", "case_seed": case_seed}),
                );
                return;
            }
            if issued.0 == prev.0 {
                r.count("hlc_same_wall_steps", 1);
            }
        }
        last = Some(issued);
    }
    r.eval(hash_str(&trace.join(";")), true);
    if r.want_sample() {
        r.sample(json!({"part": "hlc", "trace": trace.iter().take(8).collect::<Vec<_>>()}));
    }
}

/// What one thread has read so far from a manager that several threads deliver gossip to. The only
/// thing judged: a value this thread reads (Lamport time, recorded incarnation of a member; every
/// read is one call of an accessor, i.e. taken under the manager's own lock) is never below the
/// value the same thread read before.
struct Reader {
    who: String,
    time: u64,
    incs: Vec<Option<u64>>,
    reads: u64,
    advances: u64,
}

impl Reader {
    fn new(who: String, members: usize) -> Reader {
        Reader { who, time: 0, incs: vec![None; members], reads: 0, advances: 0 }
    }
    fn read(&mut self, mgr: &GossipMembershipManager, xs: &[String]) -> Option<(String, String)> {
        let mut bad = None;
        let t = mgr.lamport_time();
        self.reads += 1;
        if t < self.time {
            bad = Some((
                "concurrent:lamport-time-decreased-between-reads".to_string(),
                format!("{} read Lamport time {} and, at its next read, {}", self.who, self.time, t),
            ));
        }
        if t > self.time {
            self.advances += 1;
        }
        self.time = t;
        for (j, x) in xs.iter().enumerate() {
            let inc = mgr.node_state(x).map(|s| s.incarnation);
            if let (Some(before), Some(now)) = (self.incs[j], inc) {
                if now < before {
                    bad = Some((
                        "concurrent:incarnation-decreased-between-reads".to_string(),
                        format!("{} read {} at incarnation {} and, at its next read, at incarnation {}", self.who, x, before, now),
                    ));
                }
            }
            if inc.is_some() {
                self.incs[j] = inc;
            }
        }
        bad
    }
}

/// Gossip handled on several threads of one manager (see the header). `steps` bounds the pacing
/// thread (mostly large Sync batches); the other deliverers work until it is done (hard cap on
/// their number of calls), a pure observer reads all the time. No clock is involved anywhere.
fn concurrent_case(case_seed: u64, r: &mut Report, steps: usize) -> bool {
    use std::sync::atomic::{AtomicBool, AtomicU64, Ordering};
    let mut rng = Rng::new(case_seed);
    let n_del = 2 + rng.below(2);
    let n_x = 1 + rng.below(3);
    let batch_max = 64 + rng.below(400);
    let t = h_chain::CaptureTransport::new("local", &["obs".to_string()]);
    let mgr = GossipMembershipManager::new("local".into(), GossipConfig::default(), t);
    let xs: Vec<String> = (0..n_x).map(|i| format!("x{}", i)).collect();
    mgr.handle_gossip(GossipMessage::Sync {
        sender: "obs".into(),
        states: xs.iter().map(|x| GossipNodeState::with_wall_time(x.clone(), NodeHealth::Healthy, 1, 0, 0)).collect(),
        sender_time: 1,
    });
    let next_inc: Vec<AtomicU64> = (0..n_x).map(|_| AtomicU64::new(0)).collect();
    let next_time = AtomicU64::new(100);
    let pacer_inside = AtomicBool::new(false);
    let pacer_done = AtomicBool::new(false);
    let stop = AtomicBool::new(false);
    let bad: std::sync::Mutex<Option<(String, String)>> = std::sync::Mutex::new(None);
    let calls = AtomicU64::new(0);
    let overlapping = AtomicU64::new(0);
    let reads = AtomicU64::new(0);
    let observer_advances = AtomicU64::new(0);
    let report_bad = |b: Option<(String, String)>| {
        if let Some(b) = b {
            let mut g = bad.lock().unwrap_or_else(|e| e.into_inner());
            if g.is_none() {
                *g = Some(b);
            }
            stop.store(true, Ordering::SeqCst);
        }
    };
    std::thread::scope(|sc| {
        for d in 0..n_del {
            let (mgr, xs, next_inc, next_time) = (&mgr, &xs, &next_inc, &next_time);
            let (pacer_inside, pacer_done, stop, calls, overlapping, reads) = (&pacer_inside, &pacer_done, &stop, &calls, &overlapping, &reads);
            let report_bad = &report_bad;
            sc.spawn(move || RT.with(|rt| {
                // handlers may spawn tasks (broadcasts): give the thread a runtime context
                let _ctx = rt.enter();
                let mut rng = Rng::new(case_seed ^ (d as u64 + 1).wrapping_mul(0x9E37_79B9_7F4A_7C15));
                let mut me = Reader::new(format!("delivering thread {}", d), xs.len());
                let pacer = d == 0;
                let weights: [u32; 6] = if pacer { [60, 10, 10, 10, 5, 5] } else { [4, 36, 25, 20, 8, 7] };
                let cap = if pacer { steps } else { steps * 400 };
                let mut my_calls = 0u64;
                let mut my_overlaps = 0u64;
                for step in 0..cap {
                    if stop.load(Ordering::Relaxed) || (!pacer && pacer_done.load(Ordering::Acquire)) {
                        break;
                    }
                    let j = rng.below(xs.len());
                    let msg = match rng.weighted(&weights) {
                        0 => {
                            // a large batch about many other members: a long stay inside handle_sync
                            let k = 16 + rng.below(batch_max);
                            let states: Vec<GossipNodeState> = (0..k)
                                .map(|i| GossipNodeState::with_wall_time(format!("b{}", i), health_of(rng.below(3) as u8), 1 + rng.below(60) as u64, rng.below(3) as u64, 0))
                                .collect();
                            GossipMessage::Sync { sender: format!("p{}", d), states, sender_time: rng.below(60) as u64 }
                        }
                        1 => GossipMessage::Alive { node_id: xs[j].clone(), incarnation: next_inc[j].fetch_add(1, Ordering::SeqCst) + 1 },
                        2 => GossipMessage::Sync { sender: format!("q{}", d), states: Vec::new(), sender_time: next_time.fetch_add(7, Ordering::SeqCst) + 7 },
                        3 => {
                            let inc = next_inc[j].fetch_add(1, Ordering::SeqCst) + 1;
                            let ts = next_time.fetch_add(3, Ordering::SeqCst) + 3;
                            GossipMessage::Sync {
                                sender: format!("q{}", d),
                                states: vec![GossipNodeState::with_wall_time(xs[j].clone(), NodeHealth::Healthy, ts, inc, 0)],
                                sender_time: rng.below(60) as u64,
                            }
                        }
                        4 => {
                            let inc = mgr.node_state(&xs[j]).map_or(0, |s| s.incarnation);
                            GossipMessage::Suspect { reporter: "obs".into(), suspect: xs[j].clone(), incarnation: inc }
                        }
                        _ => GossipMessage::PingAck { origin: "obs".into(), target: xs[j].clone(), sequence: step as u64, success: true },
                    };
                    if pacer {
                        pacer_inside.store(true, Ordering::SeqCst);
                    } else if pacer_inside.load(Ordering::SeqCst) {
                        my_overlaps += 1;
                    }
                    mgr.handle_gossip(msg);
                    if pacer {
                        pacer_inside.store(false, Ordering::SeqCst);
                    }
                    my_calls += 1;
                    let b = me.read(mgr, xs);
                    if b.is_some() {
                        report_bad(b);
                        break;
                    }
                }
                if pacer {
                    pacer_done.store(true, Ordering::Release);
                }
                calls.fetch_add(my_calls, Ordering::Relaxed);
                overlapping.fetch_add(my_overlaps, Ordering::Relaxed);
                reads.fetch_add(me.reads, Ordering::Relaxed);
            }));
        }
        // the pure observer
        let (mgr, xs, pacer_done, stop, reads, observer_advances) = (&mgr, &xs, &pacer_done, &stop, &reads, &observer_advances);
        let report_bad = &report_bad;
        sc.spawn(move || {
            let mut me = Reader::new("the observing thread".to_string(), xs.len());
            loop {
                let finished = pacer_done.load(Ordering::Acquire) || stop.load(Ordering::Relaxed);
                let b = me.read(mgr, xs);
                if b.is_some() {
                    report_bad(b);
                    break;
                }
                if finished {
                    break;
                }
            }
            reads.fetch_add(me.reads, Ordering::Relaxed);
            observer_advances.fetch_add(me.advances, Ordering::Relaxed);
        });
    });
    let overlaps = overlapping.load(Ordering::Relaxed);
    r.count("concurrent_handler_calls", calls.load(Ordering::Relaxed));
    r.count("concurrent_handler_calls_begun_while_another_thread_was_inside_a_handler", overlaps);
    r.count("concurrent_reads_checked", reads.load(Ordering::Relaxed));
    r.count("concurrent_clock_advances_seen_by_the_observing_thread", observer_advances.load(Ordering::Relaxed));
    let found = bad.lock().unwrap_or_else(|e| e.into_inner()).take();
    if let Some((sig, d)) = found {
        r.violation(
            sig,
            format!(
                "{} ({} threads delivering gossip to one manager, {} tracked members, Sync batches of up to {} states; {} handler calls so far, {} of them begun while another thread was inside a handler; the thread schedule is not reproducible, --replay repeats the workload)",
                d, n_del, n_x, 16 + batch_max, calls.load(Ordering::Relaxed), overlaps
            ),
            json!({"part": "concurrent", "case_seed": case_seed, "steps": steps}),
        );
        return true;
    }
    r.eval(hash_combine(case_seed, 0xC0C0), overlaps > 0);
    if r.want_sample() {
        r.sample(json!({"part": "concurrent", "delivering_threads": n_del, "tracked_members": n_x, "handler_calls": calls.load(Ordering::Relaxed), "overlapping_calls": overlaps, "reads_checked": reads.load(Ordering::Relaxed), "final_lamport_time": mgr.lamport_time()}));
    }
    false
}

/// One replica of the conv-local part: the LWW state itself or a manager around it.
enum Replica {
    State(LWWMembershipState),
    Mgr(GossipMembershipManager),
}

impl Replica {
    fn new(rng_mgr: bool, name: &str, fast_expiry: bool) -> Replica {
        if rng_mgr {
            let t = h_chain::CaptureTransport::new(name, &["obs".to_string()]);
            let cfg = if fast_expiry { GossipConfig { suspicion_timeout_ms: 1, ..GossipConfig::default() } } else { GossipConfig::default() };
            let m = GossipMembershipManager::new(name.to_string(), cfg, t);
            m.add_peer("obs".into());
            Replica::Mgr(m)
        } else {
            Replica::State(LWWMembershipState::new())
        }
    }
    /// the records of the observed members, sorted by member
    fn member_states(&self) -> Vec<GossipNodeState> {
        let mut v: Vec<GossipNodeState> = match self {
            Replica::State(s) => s.all_states().filter(|s| s.node_id.starts_with('m')).cloned().collect(),
            Replica::Mgr(m) => m.all_states().into_iter().filter(|s| s.node_id.starts_with('m')).collect(),
        };
        v.sort_by(|a, b| a.node_id.cmp(&b.node_id));
        v
    }
    fn view(&self) -> View {
        self.member_states().into_iter().map(|s| (s.node_id.clone(), (hname(s.health).to_string(), s.incarnation))).collect()
    }
    fn deliver(&mut self, batch: Vec<GossipNodeState>, sender: &str, sender_time: u64) {
        match self {
            Replica::State(s) => {
                s.merge(&batch);
            }
            Replica::Mgr(m) => m.handle_gossip(GossipMessage::Sync { sender: sender.to_string(), states: batch, sender_time }),
        }
    }
    /// deliver `items` in this order, cut into groups at random, from the outside observer
    fn deliver_grouped(&mut self, items: &[GossipNodeState], rng: &mut Rng, ts_span: u64) -> Vec<usize> {
        let mut groups = Vec::new();
        let mut batch: Vec<GossipNodeState> = Vec::new();
        for (pos, s) in items.iter().enumerate() {
            batch.push(s.clone());
            if pos + 1 == items.len() || rng.bool() {
                groups.push(batch.len());
                self.deliver(std::mem::take(&mut batch), "obs", rng.below(ts_span as usize + 5) as u64);
            }
        }
        groups
    }
}

fn st_str(s: &GossipNodeState) -> String {
    format!("{}:{}@inc{},ts{}", s.node_id, hname(s.health), s.incarnation, s.timestamp)
}
fn sts_str(v: &[GossipNodeState]) -> String {
    format!("[{}]", v.iter().map(st_str).collect::<Vec<_>>().join(", "))
}

/// Delivery interleaved with local events (see the header): repetition and replica clauses.
fn conv_local(case_seed: u64, r: &mut Report, deep: bool) {
    // manager handlers may spawn tasks: run inside the thread's runtime context
    RT.with(|rt| {
        let _ctx = rt.enter();
        conv_local_program(case_seed, r, deep)
    })
}

fn conv_local_program(case_seed: u64, r: &mut Report, deep: bool) {
    let mut rng = Rng::new(case_seed);
    let members = 2 + rng.below(3) as u8;
    let use_mgr = rng.chance(1, 3);
    let fast_expiry = use_mgr && rng.chance(1, 4);
    // small timestamp ranges (ties, timestamps at and below the receiver's clock) and wider ones
    // (reports far ahead of the receiver's clock)
    let ts_span: u64 = *rng.pick(&[4u64, 12, 40]);
    let mut x = Replica::new(use_mgr, "local", fast_expiry);
    // everything X has received: reports delivered to it and the records it held after its own steps
    let mut pool: Vec<GossipNodeState> = Vec::new();
    let mut last_snap: BTreeMap<String, GossipNodeState> = BTreeMap::new();
    let mut trace: Vec<String> = Vec::new();
    let mut local_applied = 0u64;
    let mut expiries = 0u32;
    let replay = json!({"part": "conv-local", "case_seed": case_seed, "deep": deep});
    let steps = 3 + rng.below(if deep { 28 } else { 10 });
    for step in 0..=steps {
        let m = rng.below(members as usize) as u8;
        let name = mname(m);
        let before = x.member_states();
        let recorded_inc = before.iter().find(|s| s.node_id == name).map(|s| s.incarnation);
        let mut local = false;
        // the last step is always a repetition check
        let op = if step == steps { 5 } else { rng.weighted(&[38, 14, 10, 10, 14, 14]) };
        match op {
            0 => {
                let k = 1 + rng.below(4);
                let batch: Vec<GossipNodeState> = gen_updates(&mut rng, members, k, true)
                    .iter()
                    .map(|u| to_state(&Upd { ts: 1 + rng.below(ts_span as usize) as u64, inc: u.inc.min(2), ..*u }))
                    .collect();
                if batch.len() >= 2 {
                    r.count("local_batches_of_two_or_more_reports", 1);
                    let newest = batch.iter().map(|s| s.timestamp).max().unwrap_or(0);
                    if batch[0].timestamp < newest {
                        r.count("local_batches_whose_newest_report_is_not_the_first", 1);
                    }
                }
                // through the manager a third of the Syncs is sent by an observed member: handle_sync
                // then also marks that member alive, a local event whose result enters the pool below
                let sender = if use_mgr && rng.chance(1, 3) { mname(rng.below(members as usize) as u8) } else { "obs".to_string() };
                let sender_time = rng.below(ts_span as usize + 5) as u64;
                if sender != "obs" {
                    r.count("local_syncs_sent_by_an_observed_member", 1);
                }
                trace.push(format!("deliver {}{}", sts_str(&batch), if use_mgr { format!(" from {} at sender time {}", sender, sender_time) } else { String::new() }));
                pool.extend(batch.iter().cloned());
                x.deliver(batch, &sender, sender_time);
            }
            1 => {
                let inc = match recorded_inc {
                    Some(i) if !rng.chance(1, 5) => i,
                    _ => rng.below(4) as u64,
                };
                trace.push(format!("suspect {} inc {}", name, inc));
                local = true;
                match &mut x {
                    Replica::State(s) => {
                        s.suspect(&name, inc);
                    }
                    Replica::Mgr(g) => g.handle_gossip(GossipMessage::Suspect { reporter: "obs".into(), suspect: name.clone(), incarnation: inc }),
                }
            }
            2 => {
                local = true;
                match &mut x {
                    Replica::State(s) => {
                        trace.push(format!("fail {}", name));
                        s.fail(&name);
                    }
                    Replica::Mgr(g) => {
                        if fast_expiry && expiries < 2 {
                            // a gossip round expires the pending suspicions (1 ms timeout): members fail
                            expiries += 1;
                            trace.push("gossip_round (suspicion timeout 1 ms)".to_string());
                            std::thread::sleep(std::time::Duration::from_millis(2));
                            let _ = block_on(g.gossip_round());
                        } else {
                            trace.push(format!("add_peer {}", name));
                            g.add_peer(name.clone());
                        }
                    }
                }
            }
            3 => {
                let inc = recorded_inc.unwrap_or(0) + rng.below(3) as u64;
                trace.push(format!("alive/refute {} inc {}", name, inc));
                local = true;
                match &mut x {
                    Replica::State(s) => {
                        s.refute(&name, inc);
                    }
                    Replica::Mgr(g) => g.handle_gossip(GossipMessage::Alive { node_id: name.clone(), incarnation: inc }),
                }
            }
            4 => {
                trace.push(format!("mark_healthy {}", name));
                local = true;
                match &mut x {
                    Replica::State(s) => {
                        s.mark_healthy(&name);
                    }
                    Replica::Mgr(g) => g.handle_gossip(GossipMessage::PingAck { origin: "obs".into(), target: name.clone(), sequence: step as u64, success: true }),
                }
            }
            _ => {
                // repetition: any part of what X has received arrives again, in any order and grouping
                if !pool.is_empty() {
                    let mut items: Vec<GossipNodeState> = pool.iter().filter(|_| rng.bool()).cloned().collect();
                    for _ in 0..1 + rng.below(3) {
                        items.push(rng.pick(&pool).clone());
                    }
                    rng.shuffle(&mut items);
                    let view_before = x.view();
                    let groups = x.deliver_grouped(&items, &mut rng, ts_span);
                    let view_after = x.view();
                    r.count("local_redeliveries_checked", 1);
                    if local_applied > 0 {
                        r.count("local_redeliveries_checked_after_a_local_event", 1);
                    }
                    trace.push(format!("re-deliver {} in groups of {:?}", sts_str(&items), groups));
                    if view_after != view_before {
                        r.violation(
                            if local_applied > 0 { "convergence:redelivery-after-local-event-changed-the-view" } else { "convergence:redelivery-changed-the-view" },
                            format!(
                                "re-delivery of reports the replica had already received changed its view from {:?} to {:?}; records before {}; steps {:?} (mgr={})",
                                view_before,
                                view_after,
                                sts_str(&before),
                                trace,
                                use_mgr
                            ),
                            replay.clone(),
                        );
                        return;
                    }
                }
            }
        }
        // what X holds after its step is what it would gossip: part of what X has received
        let after = x.member_states();
        if local && after != before {
            local_applied += 1;
            r.count("local_events_applied", 1);
        }
        for s in after {
            if last_snap.get(&s.node_id) != Some(&s) {
                pool.push(s.clone());
                last_snap.insert(s.node_id.clone(), s);
            }
        }
    }
    // replica: the same updates, no local events, any order / grouping / repetition
    let xview = x.view();
    if !pool.is_empty() {
        for _ in 0..if deep { 6 } else { 3 } {
            let mut items = pool.clone();
            for _ in 0..rng.below(4) {
                items.push(rng.pick(&pool).clone());
            }
            rng.shuffle(&mut items);
            let y_mgr = rng.chance(1, 4);
            let mut y = Replica::new(y_mgr, "other", false);
            let groups = y.deliver_grouped(&items, &mut rng, ts_span);
            let yview = y.view();
            r.count("local_replica_comparisons", 1);
            if yview != xview {
                r.violation(
                    if local_applied > 0 { "convergence:replica-with-same-updates-differs-after-local-events" } else { "convergence:order-dependent" },
                    format!(
                        "replica X ran {:?} and holds {:?} (records {}); replica Y (mgr={}) was delivered everything X received and held, {} in groups of {:?}, and holds {:?} (X mgr={})",
                        trace,
                        xview,
                        sts_str(&x.member_states()),
                        y_mgr,
                        sts_str(&items),
                        groups,
                        yview,
                        use_mgr
                    ),
                    replay.clone(),
                );
                return;
            }
        }
    }
    r.eval(hash_str(&trace.join(";")), local_applied > 0 && !pool.is_empty());
    if r.want_sample() && local_applied > 0 {
        r.sample(json!({"part": "conv-local", "manager": use_mgr, "steps": trace.iter().take(10).collect::<Vec<_>>(), "view": format!("{:?}", xview), "pool_size": pool.len()}));
    }
}

fn main() {
    let args = Args::parse();
    let started = Instant::now();
    quiet_panics();
    let mut total = Report::new();
    total.max_samples = 12;

    let only_local = args.extra.get("only").map(|s| s.as_str()) == Some("conv-local");
    if let Some(p) = &args.replay {
        let v: Value = serde_json::from_str(&std::fs::read_to_string(p).expect("replay file")).expect("json");
        let rp = &v["replay"];
        match rp["part"].as_str().unwrap_or("") {
            "conv-random" => conv_random(rp["case_seed"].as_u64().unwrap(), &mut total),
            "monotone" => monotone(rp["case_seed"].as_u64().unwrap(), &mut total),
            "hlc" => hlc_case(rp["case_seed"].as_u64().unwrap(), &mut total),
            "conv-local" => conv_local(rp["case_seed"].as_u64().unwrap(), &mut total, rp["deep"].as_bool().unwrap_or(false)),
            "concurrent" => {
                // the schedule is the machine's: repeat the workload a bounded number of times
                let steps = rp["steps"].as_u64().unwrap_or(250) as usize;
                for _ in 0..50 {
                    if concurrent_case(rp["case_seed"].as_u64().unwrap(), &mut total, steps) {
                        break;
                    }
                }
            }
            _ => {
                let ups: Vec<Upd> = rp["updates"]
                    .as_array()
                    .unwrap()
                    .iter()
                    .map(|u| Upd {
                        member: u["member"].as_str().unwrap()[1..].parse().unwrap(),
                        inc: u["inc"].as_u64().unwrap(),
                        ts: u["ts"].as_u64().unwrap(),
                        health: match u["health"].as_str().unwrap() {
                            "H" => 0,
                            "D" => 1,
                            "F" => 2,
                            _ => 3,
                        },
                    })
                    .collect();
                check_multiset_exhaustive(&ups, &mut total, "conv-exhaustive");
            }
        }
    } else if only_local {
        // development aid (`--only conv-local`): the conv-local part alone at the tier's budgets
        let n_local = args.by_tier(120_000u64, 3_000_000u64);
        let deep = !args.quick();
        let rep = par_cases(args.threads, args.seed ^ 0xE5, n_local, args.budget(60, 600), move |_i, s, r| conv_local(s, r, deep));
        total.count("local_programs", rep.evaluations);
        total.merge(rep);
    } else {
        // ---- exhaustive part: every multiset of size <= N over the small universe
        let uni = Arc::new(universe(2, 3, 2, 3));
        let n_max = args.by_tier(4usize, 5usize);
        let u = uni.len();
        // cases = first element index (multisets are non-decreasing index tuples)
        let pairs: Vec<(usize, usize)> = (0..u).flat_map(|a| (a..u).map(move |b| (a, b))).collect();
        let pairs = Arc::new(pairs);
        let uni2 = uni.clone();
        let pr = pairs.clone();
        let rep = par_cases(args.threads, args.seed, pairs.len() as u64, args.budget(600, 3600), move |i, _s, r| {
            let (a, b) = pr[i as usize];
            let uni = &uni2;
            if b == a {
                check_multiset_exhaustive(&[uni[a]], r, "conv-exhaustive");
            }
            check_multiset_exhaustive(&[uni[a], uni[b]], r, "conv-exhaustive");
            if n_max >= 3 {
                for c in b..uni.len() {
                    check_multiset_exhaustive(&[uni[a], uni[b], uni[c]], r, "conv-exhaustive");
                    if n_max >= 4 {
                        for d in c..uni.len() {
                            check_multiset_exhaustive(&[uni[a], uni[b], uni[c], uni[d]], r, "conv-exhaustive");
                            if n_max >= 5 {
                                for e in d..uni.len() {
                                    check_multiset_exhaustive(&[uni[a], uni[b], uni[c], uni[d], uni[e]], r, "conv-exhaustive");
                                }
                            }
                        }
                    }
                }
            }
        });
        let exhaustive_done = rep.counters.get("budget_stops").copied().unwrap_or(0) == 0;
        total.count("exhaustive_multisets", rep.evaluations);
        total.count("exhaustive_complete", exhaustive_done as u64);
        total.merge(rep);
        // ---- random parts
        let n_rand = args.by_tier(100_000u64, 2_000_000u64);
        let rep = par_cases(args.threads, args.seed ^ 0xA1, n_rand, args.budget(120, 900), |_i, s, r| conv_random(s, r));
        total.count("random_multisets", rep.evaluations);
        total.merge(rep);
        let n_mono = args.by_tier(150_000u64, 3_000_000u64);
        let rep = par_cases(args.threads, args.seed ^ 0xB2, n_mono, args.budget(120, 900), |_i, s, r| monotone(s, r));
        total.count("monotone_programs", rep.evaluations);
        total.merge(rep);
        let n_hlc = args.by_tier(300_000u64, 6_000_000u64);
        let rep = par_cases(args.threads, args.seed ^ 0xC7, n_hlc, args.budget(60, 600), |_i, s, r| hlc_case(s, r));
        total.count("hlc_programs", rep.evaluations);
        total.merge(rep);
        // ---- delivery interleaved with local events: repetition and replica clauses
        let n_local = args.by_tier(120_000u64, 3_000_000u64);
        let deep = !args.quick();
        let rep = par_cases(args.threads, args.seed ^ 0xE5, n_local, args.budget(60, 600), move |_i, s, r| conv_local(s, r, deep));
        total.count("local_programs", rep.evaluations);
        total.merge(rep);
        // ---- concurrent delivery: few cases at a time, every case runs 3-4 threads of its own
        let n_conc = args.by_tier(48u64, 1_500u64);
        let conc_steps = args.by_tier(250usize, 400usize);
        let rep = par_cases((args.threads / 4).max(1), args.seed ^ 0xD9, n_conc, args.budget(30, 300), move |_i, s, r| {
            concurrent_case(s, r, conc_steps);
        });
        total.count("concurrent_cases", rep.evaluations);
        total.merge(rep);
    }

    let meta = Meta {
        property: "C17",
        rule: "conv-exhaustive: every multiset of <=N (quick 4, thorough 5) updates over 2 members x incarnation{0,1,2} x timestamp{1,2} x {Healthy,Degraded,Failed}, each delivered in every permutation x every batching (+ full re-delivery) to a fresh real LWWMembershipState and compared with the canonical delivery; conv-random: 3-10 updates over 2-4 members (incl. Unknown health), sampled permutations/batchings/duplications through merge and through GossipMembershipManager::handle_gossip(Sync); monotone: random programs of merges and local events (suspicions may name incarnations nobody announced; through the manager also add_peer of members already learned through gossip, and gossip rounds that expire pending suspicions - 1 ms suspicion timeout in half of those cases) with per-call checks; in half of the manager programs the receiving node is itself one of the observed members, so that updates about the node itself arrive too (its own earlier, higher incarnations gossiped back after a restart, suspicions of itself which it refutes with its own counter, Alive / ping acks / Syncs naming it) and its record of itself is monitored like any other member's; concurrent: one manager handles gossip on 2-3 threads (a pacing thread with mostly 16-480-state Sync batches, the others with Alive announcements of growing incarnations, Syncs with a growing sender clock, small Syncs, suspicions, ping acks) while every delivering thread after each call and a pure observer thread all the time read the Lamport time and the recorded incarnations of 1-3 tracked members - a value one thread reads is never below the value the same thread read before (nothing else is judged there; a concurrent case is non-trivial if at least one handler call began while another thread was inside a handler); conv-local: delivery interleaved with local events - one replica X (LWW state, or in a third of the cases a manager) runs 4-13 (thorough 4-31) steps of merged batches of 1-4 reports in arbitrary order (timestamps 1..4 / 1..12 / 1..40 per case, so the newest report of a batch is first, last or in the middle and is below, at or far above the receiver's clock; manager Syncs carry a sender clock drawn independently of their timestamps, a third of them sent by an observed member), local suspect / fail / refute / mark_healthy (manager: Suspect, Alive, PingAck, add_peer, suspicion expiry by a gossip round with a 1 ms timeout) and repetition steps; the pool of updates X has received = every report delivered to it + every record it held after one of its own steps (what it would gossip); (repetition clause) re-delivering a random part of the pool to X in random order and grouping leaves X's (health, incarnation) view unchanged, (replica clause) a fresh replica Y (LWW state or manager) without local events that is delivered the whole pool in random order / grouping / repetition ends with X's view; a conv-local case is non-trivial if at least one local event changed a record of X; hlc: random programs of now / receive (wall before, equal to, after the clock's; arbitrary logical counters) / clock jumps on the real HybridLogicalClock, every issued timestamp compared with the previous one. A case is distinct by the hash of its update multiset / trace and non-trivial if at least two different updates concern the same member (so order can matter).",
        assumptions: vec![
            "views are compared on (health, incarnation) per member, as the statement says; timestamps and wall-clock stamps are not compared".into(),
            "manager convergence uses a sender that is not an observed member, because handle_sync additionally marks the *sender* healthy with a local timestamp (a local event, not a membership update); the monotonicity programs do send half of their Syncs from observed members (often reporting on themselves), since nothing may move backwards across any call".into(),
            "conv-local: a local suspect/fail/refute/mark_healthy on replica X produces a membership update that X gossips as its record of that member; 'the set of updates X has received' is therefore the reports delivered to X plus the records X held after each of its own steps, and a replica Y 'has received the same set' when it is delivered exactly that pool; Y has no local events of its own; re-deliveries to a manager come from a sender that is not an observed member (a Sync from a member is itself a local 'sender is alive' event)".into(),
            "update_local is only called for a member's own non-decreasing incarnation (how the manager uses it)".into(),
            "a node that refutes a suspicion of itself announces an incarnation: the highest incarnation 'announced' by the receiving node is taken from the Alive messages it really hands to its transport".into(),
            "the concurrent part goes beyond the quantifier's delivery histories (it adds thread schedules, which handle_gossip(&self) on a Sync manager permits); it therefore judges nothing but 'never decrease' on successive reads of one thread, each read being one accessor call under the manager's own lock, and involves no clock; its schedule is not reproducible (replay repeats the workload up to 50 times)".into(),
        ],
        floors: if args.replay.is_some() {
            vec![]
        } else if only_local {
            vec![("local_programs", 2_000), ("local_events_applied", 2_000), ("local_batches_whose_newest_report_is_not_the_first", 1_000), ("local_redeliveries_checked_after_a_local_event", 1_000), ("local_replica_comparisons", 3_000)]
        } else { vec![("exhaustive_multisets", 5_000), ("random_multisets", 500), ("monotone_programs", 500), ("deliveries", 100_000), ("hlc_timestamps_checked", 50_000), ("hlc_same_wall_steps", 5_000), ("monotone_syncs_sent_by_an_observed_member", 300), ("monotone_syncs_in_which_the_sender_reports_itself_unhealthy", 60), ("monotone_suspicions_of_the_receiving_node", 100), ("monotone_suspicions_of_the_receiving_node_whose_view_of_itself_is_ahead_of_its_counter", 30), ("local_programs", 2_000), ("local_events_applied", 2_000), ("local_batches_whose_newest_report_is_not_the_first", 1_000), ("local_redeliveries_checked_after_a_local_event", 1_000), ("local_replica_comparisons", 3_000), ("concurrent_cases", 8), ("concurrent_reads_checked", 20_000), ("concurrent_handler_calls_begun_while_another_thread_was_inside_a_handler", 500), ("concurrent_clock_advances_seen_by_the_observing_thread", 20)] },
        exhaustive: false,
    };
    write_result(&args, &meta, &total, started);
}
