//! C11 — concurrent store operations behave as if executed one at a time.
//!
//! Rounds of 2-8 threads hammer 1-4 contended keys per round on one real `TensorStore`
//! (put/get/delete/exists/scan, or their durable variants). Every call is recorded at the client
//! boundary with ticks of one atomic counter (call tick before invoking, return tick after the
//! reply). Values are self-describing: every field and every vector element carries the unique
//! write id, so a read that mixes two writes or was never written is recognised on the spot;
//! the per-key sub-histories are then checked for linearizability against a register-with-delete
//! model (Wing-Gong search, partitioned by key). Durable rounds additionally compare the state
//! recovered from the log after quiescence with the state readers last saw, in stress mode
//! (seeded jitter at the `put_durable:after_log` / `delete_durable:after_log` hook points) and in a
//! deterministic two-thread schedule that parks one writer between its log append and its
//! in-memory apply while the other writer runs. The `walfault` rounds put the durable log itself
//! under a fault: the store is opened with a small `max_size_bytes` and `auto_rotate = false`, so
//! that from some moment on the log REFUSES records (which ones depends on their size: keys carry
//! 0-160 padding characters, values are small or carry a 384-dim vector). 2-8 threads run the same
//! mixed workload while the log fills up and again on the (nearly) full log; a write that returned
//! an error stays open in the history (it may or may not have taken effect). At each quiescent
//! point the files a crash would leave (log + latest checkpoint) are recovered and must equal the
//! state readers see: whatever is in memory is in the log and vice versa, also for writes the log
//! refused. A sequential probe then issues one durable delete or put per contended key on the full
//! log (acknowledged => visible; refused => counted) and the comparison is repeated.
//! The `owned` rounds look at interference between DIFFERENT keys: 2-8 threads each own 1-24 keys
//! of their own (all key classes; plain, Bloom-filter or durable store) and churn them - create,
//! overwrite, delete, re-create, hundreds of times - while the others do the same with theirs, so
//! that what is contended are the structures keys share (entity-id index, slab slots, shard maps,
//! cache ring, filter, log). The sub-history of an owned key is sequential, hence the register
//! oracle is exact at every moment: each get / exists / prefix scan of the owner must show exactly
//! the owner's last completed write of that key (present with that value, or absent). At
//! quiescence every key is audited, then every key is deleted (none may stay visible through get,
//! exists or a scan) and created once more (each must hold its new value); durable rounds also
//! compare the recovered with the live state.

use common::lin::{self, Event, Op, Verdict};
use common::*;
use h_store::*;
use serde_json::{json, Value};
use std::collections::BTreeMap;
use std::sync::atomic::{AtomicU64, Ordering};
use std::sync::{Arc, Barrier};
use std::time::{Duration, Instant};
use tensor_store::{ScalarValue, SyncMode, TensorData, TensorStore, TensorValue, WalConfig};

const DIM_SLAB: usize = 384;

#[derive(Clone, Copy, PartialEq, Eq, Debug)]
enum Shape {
    Plain,
    /// `_embedding` of the slab dimension
    EmbSlab,
    /// `_embedding` of another dimension (metadata only)
    EmbOther,
    /// emb: key written without `_embedding`
    EmbNone,
}

/// number of padding fields of a "fat" value (every one carries the write id); fat values make
/// the individual steps of a put (entity index, slabs, metadata) take long enough for other
/// threads' reads to fall between them
const FAT_FIELDS: usize = 2_500;

fn make_value_fat(wid: u64, shape: Shape, fat: bool) -> TensorData {
    let mut d = make_value(wid, shape);
    if fat {
        for i in 0..FAT_FIELDS {
            d.set(format!("p{}", i), TensorValue::Scalar(ScalarValue::Int(wid as i64)));
        }
    }
    d
}

fn make_value(wid: u64, shape: Shape) -> TensorData {
    let mut d = TensorData::new();
    d.set("_wid", TensorValue::Scalar(ScalarValue::Int(wid as i64)));
    d.set("a", TensorValue::Scalar(ScalarValue::Int(wid as i64)));
    d.set("b", TensorValue::Scalar(ScalarValue::String(format!("w{}", wid))));
    match shape {
        // every other element carries the write id, the rest is exactly zero: >= 50 % zeros makes the
        // slab snapshot keep the vector bit-exactly (its sparse path), so that durable rounds with a
        // concurrent checkpoint can compare vectors exactly (the lossy tensor-train path of dense
        // >= 256-dim vectors is C07's subject, not a linearizability matter)
        Shape::EmbSlab => d.set("_embedding", TensorValue::Vector((0..DIM_SLAB).map(|i| if i % 2 == 0 { wid as f32 } else { 0.0 }).collect())),
        Shape::EmbOther => d.set("_embedding", TensorValue::Vector(vec![wid as f32; 16])),
        _ => {}
    }
    d
}

/// Ok(wid) if the value is exactly one of the values `make_value` produces, Err(description) otherwise
fn decode_value(d: &TensorData) -> Result<u64, String> {
    let wid = match d.get("_wid") {
        Some(TensorValue::Scalar(ScalarValue::Int(w))) => *w as u64,
        other => return Err(format!("no _wid field ({:?}); fields {:?}", other.map(|_| "wrong type"), d.keys().collect::<Vec<_>>())),
    };
    match d.get("a") {
        Some(TensorValue::Scalar(ScalarValue::Int(w))) if *w as u64 == wid => {}
        other => return Err(format!("field a = {:?} but _wid = {}", other, wid)),
    }
    match d.get("b") {
        Some(TensorValue::Scalar(ScalarValue::String(s))) if *s == format!("w{}", wid) => {}
        other => return Err(format!("field b = {:?} but _wid = {}", other, wid)),
    }
    let shape = shape_of(wid);
    match (d.get("_embedding"), shape) {
        (None, Shape::Plain | Shape::EmbNone) => {}
        (Some(TensorValue::Vector(v)), Shape::EmbSlab | Shape::EmbOther) => {
            let want_len = if shape == Shape::EmbSlab { DIM_SLAB } else { 16 };
            if v.len() != want_len {
                return Err(format!("_embedding has {} elements, write {} stored {}", v.len(), wid, want_len));
            }
            let w = wid as f32;
            let slab = shape == Shape::EmbSlab;
            if let Some((i, x)) = v.iter().enumerate().find(|(i, x)| **x != if slab && i % 2 == 1 { 0.0 } else { w }) {
                let first = v[0];
                return Err(format!("_embedding is not the vector of write {}: element {} = {} (element 0 = {})", wid, i, x, first));
            }
        }
        (Some(TensorValue::Vector(v)), _) => {
            return Err(format!("write {} stored no _embedding but the read has one ({} elements, first {:?})", wid, v.len(), v.first()))
        }
        (None, _) => return Err(format!("write {} stored an _embedding but the read has none", wid)),
        (Some(_), _) => return Err("unexpected _embedding type".into()),
    }
    let mut pads = 0usize;
    for k in d.keys() {
        if k.starts_with('p') && k.len() > 1 {
            match d.get(k) {
                Some(TensorValue::Scalar(ScalarValue::Int(w))) if *w as u64 == wid => pads += 1,
                other => return Err(format!("padding field {} = {:?} but _wid = {}", k, other, wid)),
            }
        } else if !["_wid", "a", "b", "_embedding"].contains(&k.as_str()) {
            return Err(format!("unexpected field {}", k));
        }
    }
    if pads != 0 && pads != FAT_FIELDS {
        return Err(format!("{} of {} padding fields of write {}", pads, FAT_FIELDS, wid));
    }
    Ok(wid)
}

// the shape is encoded in the write id so that a read can be validated without shared state
fn shape_of(wid: u64) -> Shape {
    match wid % 4 {
        0 => Shape::Plain,
        1 => Shape::EmbSlab,
        2 => Shape::EmbOther,
        _ => Shape::EmbNone,
    }
}
fn wid_for(thread: usize, ctr: u64, shape: Shape) -> u64 {
    // < 2^24 so that it is exact in f32
    let base = (thread as u64 * 400_000 + ctr) * 4;
    base + match shape {
        Shape::Plain => 0,
        Shape::EmbSlab => 1,
        Shape::EmbOther => 2,
        Shape::EmbNone => 3,
    }
}

#[derive(Clone, Debug)]
struct Rec {
    key: usize,
    ev: Event,
}

struct RoundCfg {
    keys: Vec<String>,
    threads: usize,
    ops_per_thread: usize,
    durable: Option<&'static str>,
    jitter: bool,
    /// values carry FAT_FIELDS padding fields
    fat: bool,
    /// the durable log of this round may refuse records (walfault rounds): a delete that returned an
    /// error is kept as an open operation (it may or may not have taken effect) instead of being
    /// treated as "had no effect"
    refusing: bool,
    /// durable rounds: a thread takes a checkpoint instead of an operation with probability 1/n (0 = never)
    checkpoint_one_in: u32,
    /// first write counter of every thread (keeps the write ids of two phases on one store apart)
    ctr_base: u64,
}

fn gen_round(rng: &mut Rng) -> RoundCfg {
    let classes = ["k:", "emb:", "emb:", "node:", "table:", "_cache:", "edge:"];
    let nkeys = 1 + rng.below(4);
    let keys = (0..nkeys).map(|i| format!("{}c{}", rng.pick(&classes), i)).collect();
    let durable = match rng.below(4) {
        0 => Some("manual"),
        1 => Some("immediate"),
        _ => None,
    };
    let fat = durable.is_none() && rng.chance(1, 6);
    RoundCfg { keys, threads: 2 + rng.below(7), ops_per_thread: 6 + rng.below(14), durable, jitter: rng.bool(), fat, refusing: false, checkpoint_one_in: 14, ctr_base: 0 }
}

fn shapes_for(key: &str, rng: &mut Rng) -> Shape {
    if key.starts_with("emb:") {
        *rng.pick(&[Shape::EmbSlab, Shape::EmbSlab, Shape::EmbSlab, Shape::EmbOther, Shape::EmbNone])
    } else {
        Shape::Plain
    }
}

struct RoundOut {
    recs: Vec<Rec>,
    anomalies: Vec<(String, String)>,
    ops: BTreeMap<&'static str, u64>,
}

fn run_threads(store: &Arc<TensorStore>, cfg: &RoundCfg, seed: u64, snap: Option<std::path::PathBuf>) -> RoundOut {
    let clock = Arc::new(AtomicU64::new(1));
    let barrier = Arc::new(Barrier::new(cfg.threads));
    let keys = Arc::new(cfg.keys.clone());
    let durable = cfg.durable.is_some();
    let jitter = cfg.jitter;
    let fat = cfg.fat;
    let n_ops = cfg.ops_per_thread;
    let (refusing, checkpoint_one_in, ctr_base) = (cfg.refusing, cfg.checkpoint_one_in, cfg.ctr_base);
    let handles: Vec<_> = (0..cfg.threads)
        .map(|t| {
            let store = store.clone();
            let clock = clock.clone();
            let barrier = barrier.clone();
            let keys = keys.clone();
            let snap = snap.clone();
            std::thread::spawn(move || {
                let mut rng = Rng::new(seed ^ (t as u64 + 1).wrapping_mul(0x9E37_79B9));
                if jitter {
                    sched::set_thread_handler(Some(sched::jitter(rng.next_u64())));
                }
                let mut recs: Vec<Rec> = Vec::new();
                let mut anomalies: Vec<(String, String)> = Vec::new();
                let mut ops: BTreeMap<&'static str, u64> = BTreeMap::new();
                let mut ctr = ctr_base;
                barrier.wait();
                for _ in 0..n_ops {
                    let ki = rng.below(keys.len());
                    let key = &keys[ki];
                    // durable rounds: now and then a thread takes a checkpoint while the others write
                    if let Some(sp) = snap.as_ref() {
                        if checkpoint_one_in > 0 && rng.chance(1, checkpoint_one_in) {
                            let _ = store.checkpoint(sp);
                            *ops.entry("checkpoint").or_insert(0) += 1;
                            continue;
                        }
                    }
                    let which = rng.weighted(&[34, 34, 10, 10, 12]);
                    match which {
                        0 => {
                            ctr += 1;
                            let shape = shapes_for(key, &mut rng);
                            let wid = wid_for(t, ctr, shape);
                            let val = make_value_fat(wid, shape, fat);
                            let inv = clock.fetch_add(1, Ordering::SeqCst);
                            let r = if durable { store.put_durable(key.clone(), val) } else { store.put(key.clone(), val) };
                            let res = clock.fetch_add(1, Ordering::SeqCst);
                            *ops.entry("put").or_insert(0) += 1;
                            if r.is_err() {
                                *ops.entry("put_returned_error").or_insert(0) += 1;
                            }
                            // a failed put may or may not have taken effect: keep it open
                            recs.push(Rec { key: ki, ev: Event { proc_id: t as u32, op: Op::Put(wid), inv, res: if r.is_ok() { res } else { u64::MAX } } });
                        }
                        1 => {
                            let inv = clock.fetch_add(1, Ordering::SeqCst);
                            let r = store.get(key);
                            let res = clock.fetch_add(1, Ordering::SeqCst);
                            *ops.entry("get").or_insert(0) += 1;
                            match r {
                                Ok(d) => match decode_value(&d) {
                                    Ok(wid) => recs.push(Rec { key: ki, ev: Event { proc_id: t as u32, op: Op::Get(Some(wid)), inv, res } }),
                                    Err(why) => anomalies.push((
                                        if key.starts_with("emb:") { "read:mixture-or-unwritten-value:emb-key".to_string() } else { "read:mixture-or-unwritten-value".to_string() },
                                        format!("get({}) returned a value no single write produced: {}", key, why),
                                    )),
                                },
                                Err(_) => recs.push(Rec { key: ki, ev: Event { proc_id: t as u32, op: Op::Get(None), inv, res } }),
                            }
                        }
                        2 => {
                            let inv = clock.fetch_add(1, Ordering::SeqCst);
                            let r = if durable { store.delete_durable(key) } else { store.delete(key) };
                            let res = clock.fetch_add(1, Ordering::SeqCst);
                            *ops.entry("delete").or_insert(0) += 1;
                            // the statement is about what reads observe; the NotFound/Ok result of a
                            // delete is not judged (Delete(None)). A delete that reported NotFound had
                            // no effect if the key was absent, or may have raced: model it as a
                            // read of absence only when it failed.
                            match r {
                                Ok(()) => recs.push(Rec { key: ki, ev: Event { proc_id: t as u32, op: Op::Delete(None), inv, res } }),
                                // walfault rounds: the error may be a refusal by the log; such a delete
                                // may or may not have taken effect: keep it open
                                Err(_) if refusing => {
                                    *ops.entry("delete_returned_error").or_insert(0) += 1;
                                    recs.push(Rec { key: ki, ev: Event { proc_id: t as u32, op: Op::Delete(None), inv, res: u64::MAX } });
                                }
                                Err(_) => { /* no effect claimed, nothing recorded */ }
                            }
                        }
                        3 => {
                            let inv = clock.fetch_add(1, Ordering::SeqCst);
                            let b = store.exists(key);
                            let res = clock.fetch_add(1, Ordering::SeqCst);
                            *ops.entry("exists").or_insert(0) += 1;
                            recs.push(Rec { key: ki, ev: Event { proc_id: t as u32, op: Op::Exists(b), inv, res } });
                        }
                        _ => {
                            // prefix scan: each contended key's presence is a read within the scan's interval
                            let prefix = key.split('c').next().unwrap_or("").to_string();
                            let inv = clock.fetch_add(1, Ordering::SeqCst);
                            let listed = store.scan(&prefix);
                            let res = clock.fetch_add(1, Ordering::SeqCst);
                            *ops.entry("scan").or_insert(0) += 1;
                            for (kj, k) in keys.iter().enumerate() {
                                if k.starts_with(&prefix) {
                                    let present = listed.iter().any(|x| x == k);
                                    recs.push(Rec { key: kj, ev: Event { proc_id: t as u32, op: Op::Exists(present), inv, res } });
                                }
                            }
                            let mut seen = std::collections::HashSet::new();
                            for x in &listed {
                                if !seen.insert(x) {
                                    anomalies.push(("scan:duplicate-key".into(), format!("scan({:?}) listed {} twice", prefix, x)));
                                }
                                if !keys.contains(x) {
                                    anomalies.push(("scan:unknown-key".into(), format!("scan({:?}) listed {} which nobody wrote", prefix, x)));
                                }
                            }
                        }
                    }
                }
                sched::set_thread_handler(None);
                (recs, anomalies, ops)
            })
        })
        .collect();
    let mut out = RoundOut { recs: Vec::new(), anomalies: Vec::new(), ops: BTreeMap::new() };
    for h in handles {
        let (r, a, o) = h.join().expect("worker thread");
        out.recs.extend(r);
        out.anomalies.extend(a);
        for (k, v) in o {
            *out.ops.entry(k).or_insert(0) += v;
        }
    }
    out
}

fn wal_cfg(mode: &str) -> WalConfig {
    let mut c = WalConfig::default();
    if mode == "manual" {
        c.sync_mode = SyncMode::Manual;
    }
    c
}

fn order_hash(recs: &[Rec]) -> u64 {
    // the interleaving actually observed: sequence of (thread, op kind, key) ordered by call tick
    let mut v: Vec<(u64, u32, usize, u8)> = recs
        .iter()
        .map(|r| {
            (
                r.ev.inv,
                r.ev.proc_id,
                r.key,
                match r.ev.op {
                    Op::Put(_) => 0,
                    Op::Get(_) => 1,
                    Op::Delete(_) => 2,
                    Op::Exists(_) => 3,
                },
            )
        })
        .collect();
    v.sort();
    let mut h = 7u64;
    for (_, p, k, o) in v {
        h = hash_combine(h, (p as u64) << 16 | (k as u64) << 8 | o as u64);
    }
    h
}

fn overlapped(recs: &[Rec]) -> bool {
    // at least two operations of different threads on one key overlapped in time
    for (i, a) in recs.iter().enumerate() {
        for b in recs.iter().skip(i + 1) {
            if a.key == b.key && a.ev.proc_id != b.ev.proc_id && a.ev.inv < b.ev.res && b.ev.inv < a.ev.res {
                return true;
            }
        }
    }
    false
}

fn stress_round(case_seed: u64, r: &mut Report, args: &Args) {
    let mut rng = Rng::new(case_seed);
    let cfg = gen_round(&mut rng);
    let scratch = args.scratch_dir("c11");
    let wal_path = scratch.join("c11.wal");
    let store = match cfg.durable {
        Some(mode) => match TensorStore::open_durable(&wal_path, wal_cfg(mode)) {
            Ok(s) => s,
            Err(e) => {
                r.inconclusive(&format!("open_durable: {}", e));
                return;
            }
        },
        None => TensorStore::new(),
    };
    let store = Arc::new(store);
    let snap_path = scratch.join("c11.snap");
    let out = run_threads(&store, &cfg, rng.next_u64(), cfg.durable.map(|_| snap_path.clone()));
    for (k, v) in &out.ops {
        r.count(&format!("ops_{}", k), *v);
    }
    r.count("events_recorded", out.recs.len() as u64);
    let replay = json!({"part": "stress", "case_seed": case_seed});
    for (sig, d) in out.anomalies.iter().take(3) {
        r.violation(sig.clone(), format!("{} [keys {:?}, {} threads, durable {:?}]", d, cfg.keys, cfg.threads, cfg.durable), replay.clone());
    }
    // per-key linearizability
    for (ki, key) in cfg.keys.iter().enumerate() {
        let evs: Vec<Event> = out.recs.iter().filter(|x| x.key == ki).map(|x| x.ev).collect();
        if evs.is_empty() {
            continue;
        }
        if evs.len() > 128 {
            r.inconclusive("history longer than 128 ops on one key");
            continue;
        }
        match lin::check_model(&evs, None, 400_000, key.starts_with("_cache:")) {
            Verdict::Linearizable => r.count("key_histories_linearizable", 1),
            Verdict::Inconclusive => r.inconclusive("linearizability search budget exhausted"),
            Verdict::NotLinearizable => {
                let mut evs2 = evs.clone();
                evs2.sort_by_key(|e| e.inv);
                let class = if key.starts_with("emb:") { "emb-key" } else if key.starts_with("_cache:") { "cache-key" } else { "metadata-key" };
                r.violation(
                    format!("history-not-linearizable:{}", class),
                    format!("key {} ({} threads, durable {:?}): no sequential order explains {:?}", key, cfg.threads, cfg.durable, evs2),
                    replay.clone(),
                );
            }
        }
    }
    // durable: after quiescence, recovered state == state readers last saw
    if let Some(mode) = cfg.durable {
        let _ = store.sync();
        let live = view(&store);
        drop(store);
        match TensorStore::recover(&wal_path, &wal_cfg(mode), Some(&snap_path)) {
            Ok(rec) => {
                let v = view(&rec);
                r.count("durable_rounds_recovered", 1);
                if snap_path.exists() {
                    r.count("durable_rounds_with_concurrent_checkpoint", 1);
                }
                if v != live {
                    r.violation(
                        "durable-order:recovered-state-differs-from-last-seen",
                        format!("after quiescence the log replays to a different state than memory held: {} [keys {:?}, {} threads, mode {}]", trunc(&view_diff(&live, &v), 500), cfg.keys, cfg.threads, mode),
                        replay.clone(),
                    );
                }
            }
            Err(e) => r.violation("durable-order:recover-failed", format!("recover after concurrent durable writes failed: {}", e), replay.clone()),
        }
    }
    let nontrivial = overlapped(&out.recs);
    r.eval(order_hash(&out.recs), nontrivial);
    if nontrivial {
        r.count("rounds_with_overlapping_ops", 1);
    }
    if r.want_sample() && nontrivial {
        let mut evs: Vec<&Rec> = out.recs.iter().collect();
        evs.sort_by_key(|e| e.ev.inv);
        r.sample(json!({"part": "stress", "keys": cfg.keys, "threads": cfg.threads, "durable": cfg.durable,
            "history_head": evs.iter().take(14).map(|e| format!("t{} {} {:?} [{}..{}]", e.ev.proc_id, cfg.keys[e.key], e.ev.op, e.ev.inv, e.ev.res)).collect::<Vec<_>>()}));
    }
}

/// Deterministic schedule: writer A is parked between its log append and its in-memory apply,
/// writer B then performs a complete durable write of the same key, then A resumes.
fn parked_round(case_seed: u64, r: &mut Report, args: &Args) {
    let mut rng = Rng::new(case_seed);
    let scratch = args.scratch_dir("c11p");
    let wal_path = scratch.join("c11.wal");
    let key = format!("{}p0", rng.pick(&["k:", "emb:", "node:", "table:"]));
    let a_is_delete = rng.chance(1, 4);
    let store = match TensorStore::open_durable(&wal_path, wal_cfg("manual")) {
        Ok(s) => Arc::new(s),
        Err(e) => {
            r.inconclusive(&format!("open_durable: {}", e));
            return;
        }
    };
    let shape = |k: &str| if k.starts_with("emb:") { Shape::EmbSlab } else { Shape::Plain };
    let w0 = wid_for(0, 1, shape(&key));
    let _ = store.put_durable(key.clone(), make_value(w0, shape(&key)));
    let gate = sched::Gate::new();
    let (sa, ka, ga) = (store.clone(), key.clone(), gate.clone());
    let wa = wid_for(1, 1, shape(&key));
    let ta = std::thread::spawn(move || {
        let point: &'static str = if a_is_delete { "delete_durable:after_log" } else { "put_durable:after_log" };
        sched::set_thread_handler(Some(sched::park_at(point, 0, ga)));
        let ok = if a_is_delete { sa.delete_durable(&ka).is_ok() } else { sa.put_durable(ka.clone(), make_value(wa, shape(&ka))).is_ok() };
        sched::set_thread_handler(None);
        ok
    });
    if !gate.wait_parked(Duration::from_secs(10)) {
        gate.release();
        let _ = ta.join();
        r.inconclusive("writer A never reached the schedule point");
        return;
    }
    r.count("parked_at_after_log", 1);
    let (sb, kb) = (store.clone(), key.clone());
    let wb = wid_for(2, 1, shape(&key));
    let done_b = Arc::new(std::sync::atomic::AtomicBool::new(false));
    let db = done_b.clone();
    let tb = std::thread::spawn(move || {
        let ok = sb.put_durable(kb.clone(), make_value(wb, shape(&kb))).is_ok();
        db.store(true, Ordering::SeqCst);
        ok
    });
    // B either completes (the window between log and apply is open) or blocks on the log lock
    // (the code applies under the lock). Wait a bounded time, then let A go on in any case.
    let t0 = Instant::now();
    while !done_b.load(Ordering::SeqCst) && t0.elapsed() < Duration::from_millis(150) {
        std::thread::sleep(Duration::from_millis(1));
    }
    if done_b.load(Ordering::SeqCst) {
        r.count("schedule_B_completed_inside_A_window", 1);
    } else {
        r.count("schedule_B_blocked_until_A_applied", 1);
    }
    gate.release();
    let _ = ta.join();
    let _ = tb.join();
    if gate.timed_out() {
        r.inconclusive("park timed out");
        return;
    }
    let _ = store.sync();
    let live = view(&store);
    drop(store);
    match TensorStore::recover(&wal_path, &wal_cfg("manual"), None) {
        Ok(rec) => {
            let v = view(&rec);
            if v != live {
                r.violation(
                    "durable-order:recovered-state-differs-from-last-seen",
                    format!(
                        "deterministic schedule (A logs, parks before apply; B logs+applies; A applies): memory holds {:?} but the log replays to {:?}",
                        live, v
                    ),
                    json!({"part": "parked", "case_seed": case_seed}),
                );
            }
        }
        Err(e) => r.violation("durable-order:recover-failed", format!("{}", e), json!({"part": "parked", "case_seed": case_seed})),
    }
    r.eval(hash_combine(case_seed, 0xC11), true);
    if r.want_sample() {
        r.sample(json!({"part": "parked", "key": key, "A": if a_is_delete { "delete_durable" } else { "put_durable" }, "B": "put_durable", "live_after": format!("{:?}", live)}));
    }
}

/// sync() is an acknowledgement too: once it has returned Ok, every durable write that returned
/// before sync() was called must be in what a crash leaves on disk - also when another writer is
/// in the middle of its own durable write (parked at put_durable:after_log) while sync() runs.
fn sync_round(case_seed: u64, r: &mut Report, args: &Args) {
    let mut rng = Rng::new(case_seed);
    let scratch = args.scratch_dir("c11s");
    let wal_path = scratch.join("c11s.wal");
    let replay = json!({"part": "sync", "case_seed": case_seed});
    let store = match TensorStore::open_durable(&wal_path, wal_cfg("manual")) {
        Ok(s) => Arc::new(s),
        Err(e) => {
            r.inconclusive(&format!("open_durable: {}", e));
            return;
        }
    };
    let class = *rng.pick(&["k:", "emb:", "node:", "table:"]);
    let shape = |k: &str| if k.starts_with("emb:") { Shape::EmbSlab } else { Shape::Plain };
    // 1-4 writes that have returned before sync() is called
    let n_before = 1 + rng.below(4);
    let mut acked: Vec<(String, u64)> = Vec::new();
    for i in 0..n_before {
        let k = format!("{}s{}", class, i);
        let w = wid_for(0, i as u64 + 1, shape(&k));
        if store.put_durable(k.clone(), make_value(w, shape(&k))).is_ok() {
            acked.push((k, w));
        }
    }
    // writer A parks in the middle of its own durable write
    let gate = sched::Gate::new();
    let (sa, ga) = (store.clone(), gate.clone());
    let ka = format!("{}sA", class);
    let wa = wid_for(1, 1, shape(&ka));
    let ka2 = ka.clone();
    let ta = std::thread::spawn(move || {
        sched::set_thread_handler(Some(sched::park_at("put_durable:after_log", 0, ga)));
        let ok = sa.put_durable(ka2.clone(), make_value(wa, shape(&ka2))).is_ok();
        sched::set_thread_handler(None);
        ok
    });
    if !gate.wait_parked(Duration::from_secs(10)) {
        gate.release();
        let _ = ta.join();
        r.inconclusive("writer A never reached the schedule point");
        return;
    }
    let done = Arc::new(std::sync::atomic::AtomicBool::new(false));
    let (ss, ds) = (store.clone(), done.clone());
    let ts = std::thread::spawn(move || {
        let res = ss.sync();
        ds.store(true, Ordering::SeqCst);
        res.is_ok()
    });
    let t0 = Instant::now();
    while !done.load(Ordering::SeqCst) && t0.elapsed() < Duration::from_millis(120) {
        std::thread::sleep(Duration::from_millis(1));
    }
    let returned_while_parked = done.load(Ordering::SeqCst);
    let image = scratch.join("image.wal");
    let mut took_image_while_parked = false;
    if returned_while_parked {
        // sync() has returned while A still holds its place: what is on disk NOW is what a crash leaves
        let _ = std::fs::copy(&wal_path, &image);
        took_image_while_parked = true;
        r.count("sync_returned_while_other_writer_parked", 1);
    } else {
        r.count("sync_blocked_until_other_writer_finished", 1);
    }
    gate.release();
    let _ = ta.join();
    let sync_ok = ts.join().unwrap_or(false);
    if gate.timed_out() {
        r.inconclusive("park timed out");
        return;
    }
    if !sync_ok {
        // a sync that reports an error acknowledges nothing
        r.count("sync_reported_error", 1);
        r.eval(hash_combine(case_seed, 0x5C), true);
        return;
    }
    if !took_image_while_parked {
        let _ = std::fs::copy(&wal_path, &image);
    }
    r.count("sync_rounds", 1);
    match TensorStore::recover(&image, &wal_cfg("manual"), None) {
        Ok(rec) => {
            for (k, w) in &acked {
                match rec.get(k).map(|d| decode_value(&d)) {
                    Ok(Ok(x)) if x == *w => {}
                    other => {
                        r.violation(
                            if took_image_while_parked { "sync:ok-but-earlier-write-not-on-disk:sync-returned-while-another-writer-held-the-log" } else { "sync:ok-but-earlier-write-not-on-disk" },
                            format!(
                                "manual sync mode: put_durable({}) returned, then sync() returned Ok ({}); the log file as it was right after sync() returned recovers {} = {:?}, expected write {}",
                                k, if took_image_while_parked { "while another writer was parked at put_durable:after_log" } else { "after the other writer had finished" }, k, other.map(|x| x.map_err(|e| trunc(&e, 120))).map_err(|_| "NotFound"), w
                            ),
                            replay.clone(),
                        );
                        return;
                    }
                }
            }
        }
        Err(e) => {
            r.violation("sync:image-after-sync-does-not-recover", format!("{}", e), replay);
            return;
        }
    }
    r.eval(hash_combine(case_seed, 0x5C), true);
}

/// WAL configuration of the walfault rounds: the log refuses every record that would make it
/// larger than `limit` bytes (no rotation).
fn wal_cfg_limited(mode: &str, limit: u64) -> WalConfig {
    let mut c = wal_cfg(mode);
    c.max_size_bytes = limit;
    c.auto_rotate = false;
    c
}

/// Crash at quiescence while the store stays open: sync, read the live state, copy the files a
/// crash would leave (log, latest checkpoint) and recover from the copy.
/// Ok(None) = recovered state equals the live state, Ok(Some(diff)) = it differs, Err = recover failed.
fn crash_image_differs(store: &TensorStore, wal_path: &std::path::Path, snap_path: &std::path::Path, image_dir: &std::path::Path, cfg: &WalConfig) -> Result<Option<String>, String> {
    let _ = store.sync();
    let live = view(store);
    let _ = std::fs::create_dir_all(image_dir);
    let (iw, is) = (image_dir.join("image.wal"), image_dir.join("image.snap"));
    let _ = std::fs::remove_file(&iw);
    let _ = std::fs::remove_file(&is);
    if wal_path.exists() {
        std::fs::copy(wal_path, &iw).map_err(|e| format!("#harness: copy log: {}", e))?;
    }
    if snap_path.exists() {
        std::fs::copy(snap_path, &is).map_err(|e| format!("#harness: copy snapshot: {}", e))?;
    }
    match TensorStore::recover(&iw, cfg, Some(&is)) {
        Ok(rec) => {
            let v = view(&rec);
            Ok(if v == live { None } else { Some(view_diff(&live, &v)) })
        }
        Err(e) => Err(format!("{}", e)),
    }
}

/// The durable log under a fault it can report: a size limit without rotation, so that from some
/// moment on appends are refused (which ones depends on the record size). Concurrent mixed
/// workload while the log fills, again on the (nearly) full log, then a sequential probe; at every
/// quiescent point what a crash would leave must recover to the state readers see.
fn walfault_round(case_seed: u64, r: &mut Report, args: &Args) {
    let mut rng = Rng::new(case_seed);
    let scratch = args.scratch_dir("c11w");
    let wal_path = scratch.join("c11w.wal");
    let snap_path = scratch.join("c11w.snap");
    let image_dir = scratch.join("image");
    let replay = json!({"part": "walfault", "case_seed": case_seed});
    // contended keys of the classes that are logged; half of them with a long name, so that the
    // records of their deletes differ in size (a nearly full log refuses the long ones first)
    let classes = ["k:", "emb:", "emb:", "node:", "table:", "edge:"];
    let nkeys = 1 + rng.below(4);
    let keys: Vec<String> = (0..nkeys)
        .map(|i| {
            let pad = if rng.bool() { 0 } else { 1 + rng.below(160) };
            format!("{}c{}{}", rng.pick(&classes), i, "x".repeat(pad))
        })
        .collect();
    let mode = if rng.bool() { "manual" } else { "immediate" };
    let limit = *rng.pick(&[300u64, 600, 1_200, 2_500, 5_000, 10_000]) + rng.below(300) as u64;
    let wcfg = wal_cfg_limited(mode, limit);
    let store = match TensorStore::open_durable(&wal_path, wcfg.clone()) {
        Ok(s) => Arc::new(s),
        Err(e) => {
            r.inconclusive(&format!("open_durable: {}", e));
            return;
        }
    };
    let describe = |keys: &Vec<String>| keys.iter().map(|k| trunc(k, 14)).collect::<Vec<_>>();
    let what = format!("[keys {:?}, log limit {} bytes without rotation, sync mode {}]", describe(&keys), limit, mode);
    // the register value of every contended key, read at a quiescent point
    let registers = |store: &TensorStore| -> Vec<Option<u64>> { keys.iter().map(|k| store.get(k).ok().and_then(|d| decode_value(&d).ok())).collect() };

    // -- prefill: most rounds start with the keys present; some move them into a checkpoint so that
    //    the log starts empty
    let mut seq_ctr = 0u64;
    if rng.chance(3, 4) {
        for k in &keys {
            seq_ctr += 1;
            let shape = shapes_for(k, &mut rng);
            let _ = store.put_durable(k.clone(), make_value(wid_for(8, seq_ctr, shape), shape));
        }
        if rng.bool() {
            let _ = store.checkpoint(&snap_path);
        }
    }

    let mut refused_writes = 0u64;
    let mut all_recs: Vec<Rec> = Vec::new();
    let compare = |store: &TensorStore, when: &str, r: &mut Report| -> bool {
        match crash_image_differs(store, &wal_path, &snap_path, &image_dir, &wcfg) {
            Ok(None) => {
                r.count("walfault_crash_images_compared", 1);
                true
            }
            Ok(Some(diff)) => {
                r.violation(
                    "durable-order:recovered-state-differs-from-last-seen:log-refused-writes",
                    format!("{}: what a crash at this quiescent point leaves (log + latest checkpoint) recovers to a different state than readers see (- only in memory, + only recovered, ~ differs): {} {}", when, trunc(&diff, 500), what),
                    replay.clone(),
                );
                false
            }
            Err(e) if e.starts_with("#harness") => {
                r.inconclusive(&format!("walfault: {}", trunc(&e, 80)));
                false
            }
            Err(e) => {
                r.violation("durable-order:recover-failed:log-refused-writes", format!("{}: recover failed: {} {}", when, e, what), replay.clone());
                false
            }
        }
    };

    // -- two concurrent phases: the log fills up; then (after filler writes, in most rounds) the
    //    same workload on the full log
    for phase in 0..2u64 {
        if phase == 1 && rng.chance(3, 4) {
            // filler: small writes of other keys until the log refuses one
            for i in 0..4_000u64 {
                let fk = format!("fill:{}{}", i, "y".repeat(rng.below(24)));
                if store.put_durable(fk, make_value(wid_for(8, 100_000 + i, Shape::Plain), Shape::Plain)).is_err() {
                    r.count("walfault_rounds_filled_until_refusal", 1);
                    break;
                }
            }
        }
        let initial = registers(&store);
        let cfg = RoundCfg {
            keys: keys.clone(),
            threads: 2 + rng.below(7),
            ops_per_thread: 6 + rng.below(12),
            durable: Some(mode),
            jitter: rng.bool(),
            fat: false,
            refusing: true,
            checkpoint_one_in: *rng.pick(&[0u32, 0, 40, 14]),
            ctr_base: phase * 1_000,
        };
        let out = run_threads(&store, &cfg, rng.next_u64(), Some(snap_path.clone()));
        for (k, v) in &out.ops {
            r.count(&format!("walfault_ops_{}", k), *v);
        }
        refused_writes += out.ops.get("put_returned_error").copied().unwrap_or(0);
        r.count("walfault_events_recorded", out.recs.len() as u64);
        for (sig, d) in out.anomalies.iter().take(3) {
            r.violation(sig.clone(), format!("{} {}", d, what), replay.clone());
        }
        for (ki, key) in keys.iter().enumerate() {
            let mut evs: Vec<Event> = out.recs.iter().filter(|x| x.key == ki).map(|x| x.ev).collect();
            if evs.is_empty() {
                continue;
            }
            if evs.len() > 128 {
                r.inconclusive("history longer than 128 ops on one key");
                continue;
            }
            // open operations first: the search then tries the completed ones first
            evs.sort_by_key(|e| (e.res != u64::MAX, e.inv));
            match lin::check_model(&evs, initial[ki], 400_000, false) {
                Verdict::Linearizable => r.count("walfault_key_histories_linearizable", 1),
                Verdict::Inconclusive => r.inconclusive("linearizability search budget exhausted (walfault)"),
                Verdict::NotLinearizable => {
                    evs.sort_by_key(|e| e.inv);
                    let class = if key.starts_with("emb:") { "emb-key" } else { "metadata-key" };
                    r.violation(
                        format!("history-not-linearizable:{}:log-refused-writes", class),
                        format!("key {} (phase {}, {} threads, register before the phase {:?}; operations that returned an error are open = may or may not have taken effect): no sequential order explains {:?} {}", trunc(key, 14), phase, cfg.threads, initial[ki], evs, what),
                        replay.clone(),
                    );
                }
            }
        }
        all_recs.extend(out.recs);
        if !compare(&store, if phase == 0 { "after the first concurrent phase" } else { "after the concurrent phase on the full log" }, r) {
            return;
        }
    }

    // -- sequential probe on the log as the threads left it: one durable write per contended key.
    //    Acknowledged => visible to the next read. Refused => only counted; whether it is in memory
    //    or not, log and memory must agree (the comparison below).
    let mut order: Vec<usize> = (0..keys.len()).collect();
    rng.shuffle(&mut order);
    let mut probe = Vec::new();
    for ki in order {
        let k = &keys[ki];
        let present = store.exists(k);
        if rng.chance(2, 3) {
            match store.delete_durable(k) {
                Ok(()) => {
                    r.count("walfault_probe_deletes_acknowledged", 1);
                    if store.exists(k) || store.get(k).is_ok() {
                        r.violation("walfault:acknowledged-durable-delete-not-visible", format!("single thread: delete_durable({}) returned Ok, the next exists/get still finds the key {}", trunc(k, 14), what), replay.clone());
                        return;
                    }
                    probe.push(format!("delete {} ok", trunc(k, 10)));
                }
                Err(_) if present => {
                    refused_writes += 1;
                    r.count("walfault_probe_deletes_of_present_key_refused", 1);
                    if !store.exists(k) {
                        r.count("walfault_probe_refused_delete_took_effect_in_memory", 1);
                    }
                    probe.push(format!("delete {} (present) refused", trunc(k, 10)));
                }
                Err(_) => r.count("walfault_probe_deletes_of_absent_key_failed", 1),
            }
        } else {
            seq_ctr += 1;
            let shape = shapes_for(k, &mut rng);
            let wid = wid_for(8, 10_000 + seq_ctr, shape);
            match store.put_durable(k.clone(), make_value(wid, shape)) {
                Ok(()) => {
                    r.count("walfault_probe_puts_acknowledged", 1);
                    match store.get(k).map(|d| decode_value(&d)) {
                        Ok(Ok(w)) if w == wid => {}
                        other => {
                            r.violation(
                                "walfault:acknowledged-durable-put-not-visible",
                                format!("single thread: put_durable({}) of write {} returned Ok, the next get returned {:?} {}", trunc(k, 14), wid, other.map(|x| x.map_err(|e| trunc(&e, 120))).map_err(|_| "NotFound"), what),
                                replay.clone(),
                            );
                            return;
                        }
                    }
                    probe.push(format!("put {} ok", trunc(k, 10)));
                }
                Err(_) => {
                    refused_writes += 1;
                    r.count("walfault_probe_puts_refused", 1);
                    probe.push(format!("put {} refused", trunc(k, 10)));
                }
            }
        }
    }
    if !compare(&store, &format!("after the sequential probe {:?}", probe), r) {
        return;
    }
    // -- and the real thing: the store is dropped, the files themselves are recovered
    let live = view(&store);
    drop(store);
    match TensorStore::recover(&wal_path, &wcfg, Some(&snap_path)) {
        Ok(rec) => {
            let v = view(&rec);
            r.count("walfault_rounds_recovered", 1);
            if v != live {
                r.violation(
                    "durable-order:recovered-state-differs-from-last-seen:log-refused-writes",
                    format!("after the round (probe {:?}) the files recover to a different state than memory held: {} {}", probe, trunc(&view_diff(&live, &v), 500), what),
                    replay.clone(),
                );
                return;
            }
        }
        Err(e) => {
            r.violation("durable-order:recover-failed:log-refused-writes", format!("recover after the round failed: {} {}", e, what), replay.clone());
            return;
        }
    }
    r.count("walfault_writes_refused", refused_writes);
    let nontrivial = refused_writes > 0 && overlapped(&all_recs);
    if refused_writes > 0 {
        r.count("walfault_rounds_with_refused_writes", 1);
    }
    r.eval(order_hash(&all_recs) ^ 0xFA17, nontrivial);
    if r.want_sample() && nontrivial && rng.chance(1, 40) {
        r.sample(json!({"part": "walfault", "keys": describe(&keys), "log_limit_bytes": limit, "sync_mode": mode, "writes_refused": refused_writes, "probe": probe}));
    }
}

/// Sequential sanity of the register semantics the linearizability model assumes (one thread):
/// a get after a put returns exactly that put, whatever was stored before.
fn sequential_round(case_seed: u64, r: &mut Report) {
    let mut rng = Rng::new(case_seed);
    let store = TensorStore::new();
    let key = format!("{}s0", rng.pick(&["k:", "emb:", "emb:", "node:", "_cache:"]));
    let mut ctr = 0;
    let mut last: Option<u64> = None;
    let mut trace = Vec::new();
    for _ in 0..12 {
        if rng.chance(3, 4) {
            ctr += 1;
            let shape = shapes_for(&key, &mut rng);
            let wid = wid_for(0, ctr, shape);
            let _ = store.put(key.clone(), make_value(wid, shape));
            last = Some(wid);
            trace.push(format!("put {:?}", shape));
        } else {
            let _ = store.delete(&key);
            last = None;
            trace.push("delete".into());
        }
        let got = store.get(&key).ok().map(|d| decode_value(&d));
        let ok = match (&got, last) {
            (None, None) => true,
            (Some(Ok(w)), Some(l)) => *w == l,
            _ => false,
        };
        r.count("sequential_reads_checked", 1);
        if !ok {
            r.violation(
                if key.starts_with("emb:") { "sequential:get-after-put-returns-other-value:emb-key" } else { "sequential:get-after-put-returns-other-value" },
                format!("single thread, key {}: after {:?} get returned {:?}, expected write {:?}", key, trace, got, last),
                json!({"part": "sequential", "case_seed": case_seed}),
            );
            return;
        }
    }
    r.eval(hash_str(&format!("{}{:?}", key, trace)), true);
}

/// Many threads create *different, new* keys at the same instant (first put of each key), then
/// every key is read back at quiescence. Per-key histories are trivially sequential here, so the
/// register oracle is simply: each key holds exactly the one value written to it. This drives the
/// slot / id allocation paths that only run on a key's first put.
fn fresh_keys_round(case_seed: u64, r: &mut Report) {
    let mut rng = Rng::new(case_seed);
    let threads = 3 + rng.below(6);
    // half of the rounds run on a store with a (deliberately small) Bloom filter: point reads
    // consult it first, and concurrent puts of different keys update shared filter words
    let bloom = rng.bool();
    let per_thread = if bloom { 40 + rng.below(80) } else { 4 + rng.below(12) };
    let store = Arc::new(if bloom { TensorStore::with_bloom_filter(64 + rng.below(2_000), 0.01) } else { TensorStore::new() });
    let barrier = Arc::new(Barrier::new(threads));
    let classes: &[&str] = if bloom { &["k:", "k:", "node:", "emb:"] } else { &["emb:", "emb:", "emb:", "k:", "node:"] };
    let handles: Vec<_> = (0..threads)
        .map(|t| {
            let (store, barrier) = (store.clone(), barrier.clone());
            let mut rng = Rng::new(case_seed ^ (t as u64 + 7).wrapping_mul(0xA24B_AED4));
            std::thread::spawn(move || {
                let mut written: Vec<(String, u64)> = Vec::new();
                let plan: Vec<(String, Shape)> = (0..per_thread)
                    .map(|i| {
                        let class = *rng.pick(classes);
                        let key = format!("{}f{}_{}", class, t, i);
                        let shape = if class == "emb:" { *rng.pick(&[Shape::EmbSlab, Shape::EmbSlab, Shape::EmbOther]) } else { Shape::Plain };
                        (key, shape)
                    })
                    .collect();
                barrier.wait();
                for (i, (key, shape)) in plan.into_iter().enumerate() {
                    let wid = wid_for(t, i as u64 + 1, shape);
                    if store.put(key.clone(), make_value(wid, shape)).is_ok() {
                        written.push((key, wid));
                    }
                }
                written
            })
        })
        .collect();
    let mut all: Vec<(String, u64)> = Vec::new();
    for h in handles {
        all.extend(h.join().expect("worker"));
    }
    let replay = json!({"part": "fresh", "case_seed": case_seed});
    for (key, wid) in &all {
        r.count("fresh_keys_read_back", 1);
        if bloom {
            r.count("fresh_keys_read_back_through_bloom_filter", 1);
        }
        match store.get(key).map(|d| decode_value(&d)) {
            Ok(Ok(w)) if w == *wid => {}
            other => {
                r.violation(
                    if bloom { "fresh-keys:key-does-not-hold-its-only-write:bloom-filter-store" } else if key.starts_with("emb:") { "fresh-keys:key-does-not-hold-its-only-write:emb-key" } else { "fresh-keys:key-does-not-hold-its-only-write" },
                    format!("{} threads each created {} new keys at once; at quiescence get({}) = {:?}, but its only write was {}", threads, per_thread, key, other.map(|x| x.map_err(|e| trunc(&e, 200))).map_err(|_| "NotFound"), wid),
                    replay.clone(),
                );
                return;
            }
        }
    }
    r.eval(hash_combine(case_seed, 0xF2E5), true);
}

/// A prefix scan over a large key population is still one operation: with two writes on keys of
/// the same class ordered in real time (the first returned before the second was invoked), a scan
/// must not show the effect of the second without the first. Writers toggle pairs of keys that
/// lie far apart in key order (`lo` first, then `hi`, removed in the opposite order - and the
/// mirror image); scanners list the whole prefix (2 200 - 3 600 passive keys in between).
fn bigscan_round(case_seed: u64, r: &mut Report) {
    use std::sync::atomic::{AtomicBool, AtomicU64, Ordering as AO};
    let mut rng = Rng::new(case_seed);
    let passive = 2_200 + rng.below(1_400);
    let writers = 1 + rng.below(3);
    let scanners = 1 + rng.below(3);
    let prefix = *rng.pick(&["bs:", "node:bs", "k:"]);
    let store = Arc::new(TensorStore::new());
    for i in 0..passive {
        let _ = store.put(format!("{}{:05}", prefix, i), make_value(wid_for(0, i as u64 + 1, Shape::Plain), Shape::Plain));
    }
    // pair w: lo in the first quarter of the key order, hi in the last quarter
    let pairs: Vec<(String, String, bool)> = (0..writers)
        .map(|w| {
            let lo = rng.below(passive / 4);
            let hi = passive - 1 - rng.below(passive / 4);
            (format!("{}{:05}w{}", prefix, lo, w), format!("{}{:05}w{}", prefix, hi, w), rng.bool())
        })
        .collect();
    let stop = Arc::new(AtomicBool::new(false));
    let cycles_done = Arc::new(AtomicU64::new(0));
    let barrier = Arc::new(Barrier::new(writers + scanners));
    let scans_each = 30 + rng.below(40) as u64;
    let scanners_done = Arc::new(AtomicU64::new(0));
    let mut handles = Vec::new();
    for w in 0..writers {
        let (store, stop, barrier, cycles_done) = (store.clone(), stop.clone(), barrier.clone(), cycles_done.clone());
        let (lo, hi, lo_first) = pairs[w].clone();
        handles.push(std::thread::spawn(move || {
            barrier.wait();
            let (first, second) = if lo_first { (lo, hi) } else { (hi, lo) };
            for c in 0..u64::MAX {
                if stop.load(AO::Relaxed) {
                    break;
                }
                let wid = wid_for(w + 1, c + 1, Shape::Plain);
                let _ = store.put(first.clone(), make_value(wid, Shape::Plain));
                let _ = store.put(second.clone(), make_value(wid, Shape::Plain));
                let _ = store.delete(&second);
                let _ = store.delete(&first);
                cycles_done.fetch_add(1, AO::Relaxed);
            }
            Vec::new()
        }));
    }
    for sc in 0..scanners {
        let (store, stop, barrier, scanners_done) = (store.clone(), stop.clone(), barrier.clone(), scanners_done.clone());
        let pairs = pairs.clone();
        let prefix = prefix.to_string();
        handles.push(std::thread::spawn(move || {
            barrier.wait();
            let mut out: Vec<(String, String)> = Vec::new();
            let (mut scans, mut partial) = (0u64, 0u64);
            while scans < scans_each && !stop.load(AO::Relaxed) {
                let listed: std::collections::HashSet<String> = store.scan(&prefix).into_iter().collect();
                scans += 1;
                let n_passive = listed.iter().filter(|k| !k.contains('w')).count();
                if n_passive != passive {
                    out.push(("bigscan:passive-keys-missing-or-duplicated".into(), format!("scan({:?}) listed {} of the {} keys that nobody touches", prefix, n_passive, passive)));
                }
                for (lo, hi, lo_first) in &pairs {
                    let (first, second) = if *lo_first { (lo, hi) } else { (hi, lo) };
                    let (f, s2) = (listed.contains(first), listed.contains(second));
                    if f && !s2 {
                        partial += 1;
                    }
                    if s2 && !f {
                        out.push((
                            "bigscan:scan-shows-later-write-without-earlier-one".into(),
                            format!(
                                "scan({:?}) over {} keys (scanner {}) listed {} but not {}: the writer always puts {} first and deletes it last, each call returning before the next starts",
                                prefix, passive, sc, second, first, first
                            ),
                        ));
                    }
                }
                if !out.is_empty() {
                    stop.store(true, AO::Relaxed);
                    break;
                }
            }
            if scanners_done.fetch_add(1, AO::SeqCst) + 1 == scanners as u64 {
                stop.store(true, AO::Relaxed);
            }
            out.push(("#stats".into(), format!("{} {}", scans, partial)));
            out
        }));
    }
    let replay = json!({"part": "bigscan", "case_seed": case_seed});
    let mut scans_total = 0u64;
    for h in handles {
        for (sig, d) in h.join().expect("worker") {
            if sig == "#stats" {
                let mut it = d.split(' ');
                let sc: u64 = it.next().unwrap().parse().unwrap();
                scans_total += sc;
                r.count("bigscan_scans", sc);
                r.count("bigscan_scans_that_saw_a_half_done_pair", it.next().unwrap().parse().unwrap());
            } else {
                r.violation(sig, d, replay.clone());
            }
        }
    }
    r.count("bigscan_rounds", 1);
    r.count("bigscan_writer_cycles", cycles_done.load(AO::Relaxed));
    r.eval(hash_combine(case_seed, scans_total ^ 0xB165), true);
}

/// Different read operations must agree on whether a key is there. One writer alternates
/// put (often a fat value, so that the steps of the put are far apart) and delete on one key;
/// observers read the key's presence through scan / exists / get in sequence. With the writer's
/// calls counted before invocation and after return, two consecutive reads of one observer may
/// only differ if a write that can explain the change overlapped or fell between them.
fn visibility_round(case_seed: u64, r: &mut Report) {
    use std::sync::atomic::{AtomicBool, AtomicU64, Ordering as AO};
    let mut rng = Rng::new(case_seed);
    let class = *rng.pick(&["emb:", "emb:", "emb:", "k:", "node:", "_cache:"]);
    let key = format!("{}v0", class);
    let fat = rng.chance(2, 3);
    let observers = 1 + rng.below(3);
    let store = Arc::new(if rng.chance(1, 4) { TensorStore::with_bloom_filter(1_000, 0.01) } else { TensorStore::new() });
    // a few neighbours under the same prefix
    for i in 0..rng.below(4) {
        let _ = store.put(format!("{}n{}", class, i), make_value(wid_for(0, i as u64 + 1, Shape::Plain), Shape::Plain));
    }
    let stop = Arc::new(AtomicBool::new(false));
    // counters of the writer's calls: started is bumped before the call, finished after it
    let put_started = Arc::new(AtomicU64::new(0));
    let put_finished = Arc::new(AtomicU64::new(0));
    let del_started = Arc::new(AtomicU64::new(0));
    let del_finished = Arc::new(AtomicU64::new(0));
    let barrier = Arc::new(Barrier::new(1 + observers));
    let cycles = 40 + rng.below(60) as u64;
    let mut handles = Vec::new();
    {
        let (store, stop, barrier, key) = (store.clone(), stop.clone(), barrier.clone(), key.clone());
        let (ps, pf, ds, df) = (put_started.clone(), put_finished.clone(), del_started.clone(), del_finished.clone());
        let mut wrng = rng.fork(3);
        handles.push(std::thread::spawn(move || {
            barrier.wait();
            for c in 0..cycles {
                if stop.load(AO::Relaxed) {
                    break;
                }
                let shape = shapes_for(&key, &mut wrng);
                let val = make_value_fat(wid_for(1, c + 1, shape), shape, fat);
                ps.fetch_add(1, AO::SeqCst);
                let _ = store.put(key.clone(), val);
                pf.fetch_add(1, AO::SeqCst);
                if wrng.chance(1, 3) {
                    // overwrite before deleting
                    let val = make_value_fat(wid_for(2, c + 1, shape), shape, fat);
                    ps.fetch_add(1, AO::SeqCst);
                    let _ = store.put(key.clone(), val);
                    pf.fetch_add(1, AO::SeqCst);
                }
                ds.fetch_add(1, AO::SeqCst);
                let _ = store.delete(&key);
                df.fetch_add(1, AO::SeqCst);
            }
            stop.store(true, AO::SeqCst);
            Vec::new()
        }));
    }
    for ob in 0..observers {
        let (store, stop, barrier, key) = (store.clone(), stop.clone(), barrier.clone(), key.clone());
        let (ps, pf, ds, df) = (put_started.clone(), put_finished.clone(), del_started.clone(), del_finished.clone());
        let prefix = class.to_string();
        let mut orng = rng.fork(10 + ob as u64);
        handles.push(std::thread::spawn(move || {
            barrier.wait();
            let mut out: Vec<(String, String)> = Vec::new();
            let (mut reads, mut flips) = (0u64, 0u64);
            let kinds = ["scan", "exists", "get"];
            // previous read: (kind, present, puts finished / deletes finished before it began)
            let mut prev: Option<(usize, bool)> = None;
            let mut before_prev = (0u64, 0u64);
            while !stop.load(AO::Relaxed) && reads < 200_000 {
                let kind = orng.below(3);
                let before = (pf.load(AO::SeqCst), df.load(AO::SeqCst));
                let present = match kind {
                    0 => store.scan(&prefix).iter().any(|k| *k == key),
                    1 => store.exists(&key),
                    _ => store.get(&key).is_ok(),
                };
                let after = (ps.load(AO::SeqCst), ds.load(AO::SeqCst));
                reads += 1;
                if let Some((pk, pp)) = prev {
                    if pp != present {
                        flips += 1;
                        // writes that can explain a change between the two reads: invoked before this
                        // read returned and not finished before the previous read began
                        let explained = if pp { after.1 > before_prev.1 } else { after.0 > before_prev.0 };
                        if !explained {
                            out.push((
                                format!("visibility:{}-then-{}-disagree-without-a-write-in-between", kinds[pk], kinds[kind]),
                                format!(
                                    "key {} (fat values: {}): {} said {} and the next read, {}, said {}, but no {} was in progress or started between the two reads ({} finished before the first read began, {} started when the second returned)",
                                    key, fat, kinds[pk], if pp { "present" } else { "absent" }, kinds[kind], if present { "present" } else { "absent" },
                                    if pp { "delete" } else { "put" }, if pp { before_prev.1 } else { before_prev.0 }, if pp { after.1 } else { after.0 }
                                ),
                            ));
                            stop.store(true, AO::SeqCst);
                            break;
                        }
                    }
                }
                prev = Some((kind, present));
                before_prev = before;
            }
            out.push(("#stats".into(), format!("{} {}", reads, flips)));
            out
        }));
    }
    let replay = json!({"part": "visibility", "case_seed": case_seed});
    let mut reads_total = 0u64;
    for h in handles {
        for (sig, d) in h.join().expect("worker") {
            if sig == "#stats" {
                let mut it = d.split(' ');
                let n: u64 = it.next().unwrap().parse().unwrap();
                reads_total += n;
                r.count("visibility_reads", n);
                r.count("visibility_presence_changes_seen", it.next().unwrap().parse().unwrap());
            } else {
                r.violation(sig, d, replay.clone());
            }
        }
    }
    r.count("visibility_rounds", 1);
    r.eval(hash_combine(case_seed, reads_total ^ 0x7151), true);
}

/// What the owner of a key knows about it (owned rounds): nobody else ever writes the key, so after
/// each of the owner's own completed calls the key's register value is known exactly.
#[derive(Clone, Copy, PartialEq, Eq, Debug)]
enum Own {
    Absent,
    Holds(u64),
    /// a durable write reported an error: it may or may not have taken effect; not judged until
    /// the next acknowledged write
    Unknown,
}

fn class_tag(key: &str) -> &'static str {
    if key.starts_with("emb:") {
        "emb-key"
    } else if key.starts_with("_cache:") {
        "cache-key"
    } else {
        "metadata-key"
    }
}

/// the class prefix of an owned-round key ("emb:o3_1_7f" -> "emb:o")
fn owned_prefix(key: &str) -> String {
    match key.find(':') {
        Some(i) => format!("{}o", &key[..=i]),
        None => String::new(),
    }
}

/// Judge one point read (get / exists) of an owned key against what its owner knows.
/// `got`: None = absent, Some(Ok(wid)) = holds that write, Some(Err(why)) = value no write produced;
/// exists() reports presence only: `Some(Ok(u64::MAX))`.
fn judge_owned_read(op: &str, when: &str, key: &str, own: Own, got: Option<Result<u64, String>>, out: &mut Vec<(String, String)>) -> bool {
    let tag = class_tag(key);
    let cache = tag == "cache-key";
    match (own, got) {
        (Own::Unknown, _) => return false,
        (_, Some(Err(why))) => out.push((
            format!("owned-keys:{}-returns-value-no-single-write-produced:{}", op, tag),
            format!("{}: {}({}) returned a value that no single write produced: {} (only its owner writes this key; what the owner last wrote: {:?})", when, op, key, trunc(&why, 200), own),
        )),
        (Own::Absent, None) => {}
        (Own::Absent, Some(Ok(w))) => out.push((
            format!("owned-keys:{}-finds-key-after-its-delete-completed:{}", op, tag),
            format!(
                "{}: {}({}) found the key{} although the last completed write of the key - only its owner writes it - was a delete (or it was never written)",
                when, op, key, if w == u64::MAX { String::new() } else { format!(" (value of write {})", w) }
            ),
        )),
        // a cache may drop an entry at any moment
        (Own::Holds(_), None) if cache => {}
        (Own::Holds(w), None) => out.push((
            format!("owned-keys:{}-misses-key-after-its-put-completed:{}", op, tag),
            format!("{}: {}({}) did not find the key although the last completed write of the key - only its owner writes it - was put of write {}", when, op, key, w),
        )),
        (Own::Holds(w), Some(Ok(g))) if g == w || g == u64::MAX => {}
        (Own::Holds(w), Some(Ok(g))) => out.push((
            format!("owned-keys:{}-returns-other-write-than-the-last-completed-put:{}", op, tag),
            format!("{}: {}({}) returned write {} but the last completed write of the key - only its owner writes it - was put of write {}", when, op, key, g, w),
        )),
    }
    true
}

/// Judge one prefix scan against what the owner(s) know about the keys in `mine`.
fn judge_owned_scan(when: &str, prefix: &str, listed: &[String], mine: &[(String, Own)], known: &std::collections::HashSet<String>, out: &mut Vec<(String, String)>) -> u64 {
    let mut seen: std::collections::HashSet<&String> = std::collections::HashSet::new();
    for x in listed {
        if !seen.insert(x) {
            out.push(("scan:duplicate-key".into(), format!("{}: scan({:?}) listed {} twice", when, prefix, x)));
        }
        if !known.contains(x) {
            out.push(("scan:unknown-key".into(), format!("{}: scan({:?}) listed {} which nobody wrote", when, prefix, x)));
        }
    }
    let mut judged = 0;
    for (k, own) in mine {
        if !k.starts_with(prefix) || *own == Own::Unknown {
            continue;
        }
        judged += 1;
        let tag = class_tag(k);
        match (own, seen.contains(k)) {
            (Own::Absent, true) => out.push((
                format!("owned-keys:scan-lists-key-after-its-delete-completed:{}", tag),
                format!("{}: scan({:?}) listed {} although the last completed write of the key - only its owner writes it - was a delete (or it was never written)", when, prefix, k),
            )),
            (Own::Holds(w), false) if tag != "cache-key" => out.push((
                format!("owned-keys:scan-misses-key-after-its-put-completed:{}", tag),
                format!("{}: scan({:?}) did not list {} although the last completed write of the key - only its owner writes it - was put of write {}", when, prefix, k, w),
            )),
            _ => {}
        }
    }
    judged
}

/// Interference between DIFFERENT keys. Every thread owns its own small set of keys (all key
/// classes; nobody else touches them) and churns them - create, overwrite, delete, re-create -
/// while the other threads do the same with theirs on the same store. The sub-history of every key
/// is sequential, so the register oracle is exact at every moment: each of the owner's reads (get,
/// exists, the key's presence in a prefix scan) must show exactly the owner's last completed
/// write. What is contended are the structures that keys share (entity-id index, slab slots,
/// shard maps, cache ring, Bloom filter, log). At quiescence all keys are audited, then all are
/// deleted (nothing may remain visible) and re-created once (each must hold its new value);
/// durable rounds finally compare the recovered with the live state.
fn owned_round(case_seed: u64, r: &mut Report, args: &Args) {
    let mut rng = Rng::new(case_seed);
    let threads = 2 + rng.below(7);
    let keys_per_thread = *rng.pick(&[1usize, 2, 3, 4, 4, 8, 24]);
    let thorough = !args.quick();
    let ops_per_thread = if thorough { 300 + rng.below(2_700) } else { 150 + rng.below(750) };
    // seeded yields move the points at which the threads' operations interleave
    let yield_one_in = *rng.pick(&[0u32, 4, 16, 64]);
    // the classes of the round: embedding keys only (entity index + slab + metadata per write),
    // keys of one metadata shard, or everything mixed
    let classes: &[&str] = match rng.below(5) {
        0 | 1 => &["emb:"],
        2 => &["k:"],
        _ => &["emb:", "emb:", "emb:", "k:", "node:", "table:", "edge:", "_cache:"],
    };
    // store flavour: plain, with a (small) Bloom filter, or with the durable log
    let flavour = rng.weighted(&[60, 15, 25]);
    let scratch = args.scratch_dir("c11o");
    let wal_path = scratch.join("c11o.wal");
    let store = match flavour {
        1 => TensorStore::with_bloom_filter(64 + rng.below(2_000), 0.01),
        2 => match TensorStore::open_durable(&wal_path, wal_cfg("manual")) {
            Ok(s) => s,
            Err(e) => {
                r.inconclusive(&format!("open_durable: {}", e));
                return;
            }
        },
        _ => TensorStore::new(),
    };
    let durable = flavour == 2;
    let store = Arc::new(store);
    let plan: Vec<Vec<String>> = (0..threads)
        .map(|t| (0..keys_per_thread).map(|i| format!("{}o{}_{}_{:x}", rng.pick(classes), t, i, rng.below(1 << 16))).collect())
        .collect();
    let known: Arc<std::collections::HashSet<String>> = Arc::new(plan.iter().flatten().cloned().collect());
    let clock = Arc::new(AtomicU64::new(1));
    let barrier = Arc::new(Barrier::new(threads));
    let flavour_name = ["plain", "with Bloom filter", "durable (manual sync)"][flavour];
    let what = format!("[{} threads x {} own keys x {} operations, classes {:?}, store {}]", threads, keys_per_thread, ops_per_thread, classes, flavour_name);

    struct ThreadOut {
        model: Vec<(String, Own)>,
        anomalies: Vec<(String, String)>,
        ops: BTreeMap<&'static str, u64>,
        order: Vec<(u64, u8, u16)>,
        interleaved: u64,
    }
    let handles: Vec<_> = (0..threads)
        .map(|t| {
            let (store, clock, barrier, known) = (store.clone(), clock.clone(), barrier.clone(), known.clone());
            let mut model: Vec<(String, Own)> = plan[t].iter().map(|k| (k.clone(), Own::Absent)).collect();
            let mut rng = Rng::new(case_seed ^ (t as u64 + 3).wrapping_mul(0x6C62_272E));
            std::thread::spawn(move || {
                let mut anomalies: Vec<(String, String)> = Vec::new();
                let mut ops: BTreeMap<&'static str, u64> = BTreeMap::new();
                let mut order: Vec<(u64, u8, u16)> = Vec::new();
                let mut bump = |name: &'static str, n: u64| *ops.entry(name).or_insert(0) += n;
                let (mut ctr, mut interleaved, mut last_tick) = (0u64, 0u64, 0u64);
                let mut created_before = vec![false; model.len()];
                // a write is followed by a read of the same key every other time
                let mut probe: Option<usize> = None;
                barrier.wait();
                for opno in 0..ops_per_thread {
                    let ki = probe.unwrap_or_else(|| rng.below(model.len()));
                    let (key, own) = (model[ki].0.clone(), model[ki].1);
                    // what to do depends on the key's state, so that creations and deletions alternate
                    let kind = if probe.take().is_some() {
                        2 + rng.below(3)
                    } else {
                        match own {
                            Own::Holds(_) => rng.weighted(&[15, 35, 20, 15, 15]),
                            _ => rng.weighted(&[70, 0, 10, 10, 10]),
                        }
                    };
                    if yield_one_in > 0 && rng.chance(1, yield_one_in) {
                        std::thread::yield_now();
                    }
                    let tick = clock.fetch_add(1, Ordering::SeqCst);
                    if opno > 0 && tick != last_tick + 1 {
                        interleaved += 1;
                    }
                    last_tick = tick;
                    order.push((tick, kind as u8, (t * 64 + ki % 64) as u16));
                    let when = format!("thread {} operation {}", t, opno);
                    match kind {
                        0 => {
                            ctr += 1;
                            let shape = shapes_for(&key, &mut rng);
                            let wid = wid_for(t, ctr, shape);
                            let val = make_value(wid, shape);
                            let res = if durable { store.put_durable(key.clone(), val) } else { store.put(key.clone(), val) };
                            bump("put", 1);
                            if !matches!(own, Own::Holds(_)) {
                                bump("creations", 1);
                            }
                            model[ki].1 = if res.is_ok() { Own::Holds(wid) } else { Own::Unknown };
                            created_before[ki] = true;
                            if rng.bool() {
                                probe = Some(ki);
                            }
                        }
                        1 => {
                            let res = if durable { store.delete_durable(&key) } else { store.delete(&key) };
                            bump("delete", 1);
                            // the Ok/NotFound result of a delete is not judged; a completed delete leaves
                            // the key absent (a durable delete that reported an error: not judged)
                            model[ki].1 = if res.is_err() && durable && own != Own::Absent { Own::Unknown } else { Own::Absent };
                            if rng.bool() {
                                probe = Some(ki);
                            }
                        }
                        2 => {
                            let got = store.get(&key).ok().map(|d| decode_value(&d));
                            bump("get", 1);
                            if judge_owned_read("get", &when, &key, own, got, &mut anomalies) {
                                bump("reads_checked", 1);
                                if own == Own::Absent && created_before[ki] {
                                    bump("reads_of_deleted_own_key", 1);
                                }
                            }
                        }
                        3 => {
                            let got = if store.exists(&key) { Some(Ok(u64::MAX)) } else { None };
                            bump("exists", 1);
                            if judge_owned_read("exists", &when, &key, own, got, &mut anomalies) {
                                bump("reads_checked", 1);
                                if own == Own::Absent && created_before[ki] {
                                    bump("reads_of_deleted_own_key", 1);
                                }
                            }
                        }
                        _ => {
                            let prefix = owned_prefix(&key);
                            let listed = store.scan(&prefix);
                            bump("scan", 1);
                            let judged = judge_owned_scan(&when, &prefix, &listed, &model, &known, &mut anomalies);
                            bump("reads_checked", judged);
                            let deleted = model.iter().zip(created_before.iter()).filter(|((k, o), c)| **c && *o == Own::Absent && k.starts_with(&prefix)).count();
                            bump("reads_of_deleted_own_key", deleted as u64);
                        }
                    }
                    if anomalies.len() >= 3 {
                        break;
                    }
                }
                ThreadOut { model, anomalies, ops, order, interleaved }
            })
        })
        .collect();
    let replay = json!({"part": "owned", "case_seed": case_seed});
    let mut model: Vec<(String, Own)> = Vec::new();
    let mut order: Vec<(u64, u8, u16)> = Vec::new();
    let (mut interleaved, mut anomalies_seen) = (0u64, 0usize);
    for h in handles {
        let o = h.join().expect("worker");
        model.extend(o.model);
        order.extend(o.order);
        interleaved += o.interleaved;
        for (k, v) in &o.ops {
            r.count(&format!("owned_keys_{}", k), *v);
        }
        for (sig, d) in o.anomalies.into_iter().take(3) {
            anomalies_seen += 1;
            r.violation(sig, format!("{} {}", d, what), replay.clone());
        }
    }
    r.count("owned_keys_rounds", 1);
    r.count("owned_keys_ops_interleaved_with_other_threads", interleaved);
    if anomalies_seen > 0 {
        return;
    }
    // -- quiescent audit (single thread): every key, through get, exists and the scans
    let prefixes: std::collections::BTreeSet<String> = model.iter().map(|(k, _)| owned_prefix(k)).collect();
    let audit = |when: &str, model: &[(String, Own)], r: &mut Report| -> bool {
        let mut out: Vec<(String, String)> = Vec::new();
        for (k, own) in model {
            let got = store.get(k).ok().map(|d| decode_value(&d));
            judge_owned_read("get", when, k, *own, got, &mut out);
            let got = if store.exists(k) { Some(Ok(u64::MAX)) } else { None };
            judge_owned_read("exists", when, k, *own, got, &mut out);
            r.count("owned_keys_quiescent_keys_audited", 1);
        }
        for p in &prefixes {
            let listed = store.scan(p);
            judge_owned_scan(when, p, &listed, model, &known, &mut out);
        }
        for (sig, d) in out.iter().take(3) {
            r.violation(sig.replacen("owned-keys:", "owned-keys:quiescent:", 1), format!("{} {}", d, what), replay.clone());
        }
        out.is_empty()
    };
    if !audit("at quiescence after the concurrent phase", &model, r) {
        return;
    }
    // -- teardown: delete every key, nothing may remain visible
    for (k, own) in model.iter_mut() {
        let res = if durable { store.delete_durable(k) } else { store.delete(k) };
        *own = if res.is_err() && durable && *own != Own::Absent { Own::Unknown } else { Own::Absent };
    }
    if !audit("single thread, after deleting every key of the round", &model, r) {
        return;
    }
    // -- and every key can be created again
    for (i, (k, own)) in model.iter_mut().enumerate() {
        let shape = shapes_for(k, &mut rng);
        let wid = wid_for(8, i as u64 + 1, shape);
        let res = if durable { store.put_durable(k.clone(), make_value(wid, shape)) } else { store.put(k.clone(), make_value(wid, shape)) };
        *own = if res.is_ok() { Own::Holds(wid) } else { Own::Unknown };
    }
    if !audit("single thread, after deleting and re-creating every key of the round", &model, r) {
        return;
    }
    if durable {
        let _ = store.sync();
        let live = view(&store);
        drop(store);
        match TensorStore::recover(&wal_path, &wal_cfg("manual"), None) {
            Ok(rec) => {
                let v = view(&rec);
                r.count("owned_keys_durable_rounds_recovered", 1);
                if v != live {
                    r.violation(
                        "durable-order:recovered-state-differs-from-last-seen:owned-keys",
                        format!("after the round the log replays to a different state than memory held (- only in memory, + only recovered, ~ differs): {} {}", trunc(&view_diff(&live, &v), 500), what),
                        replay.clone(),
                    );
                    return;
                }
            }
            Err(e) => {
                r.violation("durable-order:recover-failed:owned-keys", format!("recover after the round failed: {} {}", e, what), replay.clone());
                return;
            }
        }
    }
    order.sort();
    let mut h = 0x0B5Eu64;
    for (_, kind, who) in &order {
        h = hash_combine(h, (*who as u64) << 8 | *kind as u64);
    }
    // non-trivial: operations of different threads really interleaved
    let nontrivial = interleaved as usize * 10 >= order.len();
    r.eval(h, nontrivial);
    if nontrivial {
        r.count("owned_keys_rounds_with_interleaved_threads", 1);
    }
    if r.want_sample() && nontrivial && rng.chance(1, 30) {
        r.sample(json!({"part": "owned", "threads": threads, "own_keys_per_thread": keys_per_thread, "ops_per_thread": ops_per_thread, "classes": classes,
            "store": flavour_name, "ops_interleaved": interleaved, "keys_head": model.iter().take(4).map(|(k, o)| format!("{} {:?}", k, o)).collect::<Vec<_>>()}));
    }
}

/// Engine layered on the store: VectorEngine single-key operations on 1-3 contended keys.
/// Every stored vector is uniform (all elements = write id), so a torn or mixed read is visible.
fn engine_round(case_seed: u64, r: &mut Report) {
    use vector_engine::VectorEngine;
    let mut rng = Rng::new(case_seed);
    let ve = Arc::new(VectorEngine::with_store(TensorStore::new()));
    let nkeys = 1 + rng.below(3);
    let threads = 2 + rng.below(5);
    let n_ops = 8 + rng.below(12);
    let clock = Arc::new(AtomicU64::new(1));
    let barrier = Arc::new(Barrier::new(threads));
    let handles: Vec<_> = (0..threads)
        .map(|t| {
            let (ve, clock, barrier) = (ve.clone(), clock.clone(), barrier.clone());
            let mut rng = Rng::new(case_seed ^ (t as u64 + 1).wrapping_mul(0x51ED_270B));
            std::thread::spawn(move || {
                let mut recs: Vec<Rec> = Vec::new();
                let mut anomalies: Vec<String> = Vec::new();
                let mut ctr = 0u64;
                barrier.wait();
                for _ in 0..n_ops {
                    let ki = rng.below(nkeys);
                    let key = format!("doc{}", ki);
                    match rng.weighted(&[35, 40, 10, 15]) {
                        0 => {
                            ctr += 1;
                            let wid = (t as u64 * 400_000 + ctr) * 4;
                            let dim = *rng.pick(&[8usize, 384, 384]);
                            let inv = clock.fetch_add(1, Ordering::SeqCst);
                            let ok = ve.store_embedding(&key, vec![wid as f32; dim]).is_ok();
                            let res = clock.fetch_add(1, Ordering::SeqCst);
                            recs.push(Rec { key: ki, ev: Event { proc_id: t as u32, op: Op::Put(wid), inv, res: if ok { res } else { u64::MAX } } });
                        }
                        1 => {
                            let inv = clock.fetch_add(1, Ordering::SeqCst);
                            let got = ve.get_embedding(&key);
                            let res = clock.fetch_add(1, Ordering::SeqCst);
                            match got {
                                Ok(v) => {
                                    let w = v.first().copied().unwrap_or(-1.0);
                                    if v.iter().any(|x| *x != w) || !(v.len() == 8 || v.len() == 384) {
                                        anomalies.push(format!("get_embedding({}) returned a vector that no single store_embedding wrote: len {} first {} ...", key, v.len(), w));
                                    } else {
                                        recs.push(Rec { key: ki, ev: Event { proc_id: t as u32, op: Op::Get(Some(w as u64)), inv, res } });
                                    }
                                }
                                Err(_) => recs.push(Rec { key: ki, ev: Event { proc_id: t as u32, op: Op::Get(None), inv, res } }),
                            }
                        }
                        2 => {
                            let inv = clock.fetch_add(1, Ordering::SeqCst);
                            let ok = ve.delete_embedding(&key).is_ok();
                            let res = clock.fetch_add(1, Ordering::SeqCst);
                            if ok {
                                recs.push(Rec { key: ki, ev: Event { proc_id: t as u32, op: Op::Delete(None), inv, res } });
                            }
                        }
                        _ => {
                            let inv = clock.fetch_add(1, Ordering::SeqCst);
                            let b = ve.exists(&key);
                            let res = clock.fetch_add(1, Ordering::SeqCst);
                            recs.push(Rec { key: ki, ev: Event { proc_id: t as u32, op: Op::Exists(b), inv, res } });
                        }
                    }
                }
                (recs, anomalies)
            })
        })
        .collect();
    let mut recs = Vec::new();
    let replay = json!({"part": "engines", "case_seed": case_seed});
    for h in handles {
        let (rr, an) = h.join().expect("worker");
        recs.extend(rr);
        for a in an.into_iter().take(2) {
            r.violation("engine:vector:read-mixture-or-unwritten-vector", a, replay.clone());
        }
    }
    r.count("engine_events_recorded", recs.len() as u64);
    for ki in 0..nkeys {
        let evs: Vec<Event> = recs.iter().filter(|x| x.key == ki).map(|x| x.ev).collect();
        if evs.is_empty() || evs.len() > 128 {
            continue;
        }
        match lin::check(&evs, None, 400_000) {
            Verdict::Linearizable => r.count("engine_key_histories_linearizable", 1),
            Verdict::Inconclusive => r.inconclusive("linearizability search budget exhausted"),
            Verdict::NotLinearizable => {
                let mut e2 = evs.clone();
                e2.sort_by_key(|e| e.inv);
                r.violation("engine:vector:history-not-linearizable", format!("VectorEngine key doc{}: no sequential order explains {:?}", ki, e2), replay.clone());
            }
        }
    }
    let nt = overlapped(&recs);
    r.eval(order_hash(&recs) ^ 0xE, nt);
}

fn main() {
    let args = Args::parse();
    let started = Instant::now();
    quiet_panics();
    install_hooks();
    let mut total = Report::new();
    total.max_samples = 8;
    let part = args.extra.get("part").cloned().unwrap_or_else(|| "all".into());
    if let Some(p) = &args.replay {
        let v: Value = serde_json::from_str(&std::fs::read_to_string(p).expect("replay")).expect("json");
        let rp = &v["replay"];
        let s = rp["case_seed"].as_u64().unwrap_or(1);
        // concurrency outcomes vary from run to run: replay re-runs the same round many times
        for _ in 0..200 {
            match rp["part"].as_str().unwrap_or("stress") {
                "parked" => parked_round(s, &mut total, &args),
                "sync" => sync_round(s, &mut total, &args),
                "walfault" => walfault_round(s, &mut total, &args),
                "engines" => engine_round(s, &mut total),
                "fresh" => fresh_keys_round(s, &mut total),
                "bigscan" => bigscan_round(s, &mut total),
                "visibility" => visibility_round(s, &mut total),
                "owned" => owned_round(s, &mut total, &args),
                "sequential" => sequential_round(s, &mut total),
                _ => stress_round(s, &mut total, &args),
            }
            if total.violations_total > 0 {
                break;
            }
        }
    } else {
        // rounds spawn their own threads: run few rounds at a time so that 2-8 worker threads
        // really run in parallel
        let outer = (args.threads / 4).max(2);
        if part == "all" || part == "stress" {
            let n = args.by_tier(2_500u64, 120_000u64);
            let a2 = args.clone();
            let rep = par_cases(outer, args.seed, n, args.budget(40, 900), move |_i, s, r| stress_round(s, r, &a2));
            total.merge(rep);
        }
        if part == "all" || part == "parked" {
            let n = args.by_tier(24u64, 400u64);
            let a2 = args.clone();
            let rep = par_cases(args.threads.min(8), args.seed ^ 0x77, n, args.budget(30, 300), move |_i, s, r| parked_round(s, r, &a2));
            total.merge(rep);
        }
        if part == "all" || part == "parked" || part == "sync" {
            let n = args.by_tier(40u64, 600u64);
            let a2 = args.clone();
            let rep = par_cases(args.threads.min(8), args.seed ^ 0x5C, n, args.budget(20, 200), move |_i, s, r| sync_round(s, r, &a2));
            total.merge(rep);
        }
        if part == "all" || part == "walfault" {
            let n = args.by_tier(320u64, 16_000u64);
            let a2 = args.clone();
            let rep = par_cases(outer, args.seed ^ 0xFA, n, args.budget(15, 240), move |_i, s, r| walfault_round(s, r, &a2));
            total.merge(rep);
        }
        if part == "all" || part == "engines" {
            let n = args.by_tier(1_500u64, 60_000u64);
            let rep = par_cases(outer, args.seed ^ 0xE6, n, args.budget(25, 400), |_i, s, r| engine_round(s, r));
            total.merge(rep);
        }
        if part == "all" || part == "fresh" || part == "stress" {
            let n = args.by_tier(400u64, 20_000u64);
            let rep = par_cases(outer, args.seed ^ 0xF5, n, args.budget(20, 240), |_i, s, r| fresh_keys_round(s, r));
            total.merge(rep);
        }
        if part == "all" || part == "bigscan" || part == "stress" {
            let n = args.by_tier(60u64, 2_000u64);
            let rep = par_cases(outer, args.seed ^ 0xB5, n, args.budget(20, 200), |_i, s, r| bigscan_round(s, r));
            total.merge(rep);
        }
        if part == "all" || part == "visibility" || part == "stress" {
            let n = args.by_tier(250u64, 10_000u64);
            let rep = par_cases(outer, args.seed ^ 0x71, n, args.budget(15, 200), |_i, s, r| visibility_round(s, r));
            total.merge(rep);
        }
        if part == "all" || part == "owned" {
            let n = args.by_tier(400u64, 12_000u64);
            let a2 = args.clone();
            let rep = par_cases(outer, args.seed ^ 0x0D, n, args.budget(12, 240), move |_i, s, r| owned_round(s, r, &a2));
            total.merge(rep);
        }
        if part == "all" || part == "sequential" {
            let n = args.by_tier(300u64, 5_000u64);
            let rep = par_cases(2, args.seed ^ 0x99, n, args.budget(20, 120), |_i, s, r| sequential_round(s, r));
            total.merge(rep);
        }
    }
    let meta = Meta {
        property: "C11",
        rule: "stress round = one real TensorStore, 2-8 OS threads x 6-19 operations on 1-4 contended keys of classes plain/emb(384-dim slab vector, other dim, none)/node/table/edge/_cache, non-durable or durable (manual / immediate sync), half of the rounds with seeded jitter at the put_durable/delete_durable hook points; every call recorded at the client boundary (atomic tick before and after); values self-describing (write id in every field and vector element). Oracles: value integrity per read, Wing-Gong linearizability per key (scan decomposed per key), recovered-state (latest checkpoint + log; durable rounds take checkpoints concurrently with the writers) == live state after quiescence. Distinct = hash of the observed call order (thread, op, key by call tick); non-trivial = at least two operations of different threads on one key overlapped in time. parked rounds = the deterministic two-writer schedule at put_durable:after_log; sync rounds = 1-4 durable writes return (manual sync mode), another writer parks at put_durable:after_log, sync() is called: the log file as it is right after sync() returned Ok must recover every earlier write; walfault rounds = a durable store whose log refuses records (max_size_bytes 300-10300 bytes, auto_rotate off; manual / immediate sync), 1-4 contended keys of the logged classes plain/emb/node/table/edge, half of them with 1-160 padding characters in the name so that record sizes differ; optional prefill (+ checkpoint), then 2-8 threads x 6-17 mixed operations (checkpoints concurrent in half of the phases) while the log fills, filler writes of other keys until one is refused (3 rounds in 4), the same concurrent workload on the full log, then a single-thread probe issuing one delete_durable / put_durable per contended key. Oracles: per-key linearizability of each phase from the register value read at the preceding quiescent point, where every write that returned an error (put or delete) is an OPEN operation that may or may not have taken effect; an acknowledged probe write is visible to the next read; at the quiescent point after each phase and after the probe the files a crash would leave (copy of log + latest checkpoint; finally the files themselves after dropping the store) recover to exactly the state readers see - so a refused write that is in memory but not in the log, or in the log but not in memory, is a violation; non-trivial = at least one write was refused and operations of different threads overlapped on a key; sequential rounds = single-thread register semantics; fresh rounds = 3-8 threads creating 4-15 (on a store with a small Bloom filter: 40-119) distinct new keys each at the same instant, every key read back at quiescence; one stress round in six (non-durable) uses values with 2500 padding fields so that reads fall between the steps of a put; bigscan rounds = 1-3 writers toggling pairs of keys that lie >1000 keys apart under one prefix of 2200-3600 passive keys (first key put first and deleted last, every call returning before the next starts) against 1-3 scanners of the whole prefix: a scan must never list the second key of a pair without the first, nor miss a passive key; visibility rounds = one writer alternating put (two thirds of the rounds with 2500-field values) / delete on one key of class emb/plain/node/cache, 1-3 observers reading its presence through scan, exists and get in sequence: two consecutive reads of one observer may differ only if a put resp. delete was in progress or started between them (writer calls counted before invocation and after return); owned rounds = 2-8 threads, each the only writer of its own 1-24 keys (classes: emb only / one metadata shard / emb+plain+node+table+edge+cache mixed; store plain, with a small Bloom filter, or durable with manual sync; seeded yields), 150-899 (thorough 300-2999) state-driven operations per thread on its own keys (absent: mostly put; present: delete, overwrite or read; every other write is followed by a read of the same key through get, exists or a scan of the class prefix) while the other threads do the same with theirs: every read of the owner must show exactly the owner's last completed write of the key (get: that value; exists / scan: present iff the last write was a put; a cache key may be absent at any time), scans list no key twice and no key nobody wrote; then single-threaded: audit of every key through get, exists and the scans, delete of every key (none visible afterwards), re-creation of every key (each holds its new value), durable rounds: recovered == live state; distinct = hash of the observed order of (thread, key, op) by call tick, non-trivial = at least 10 % of the operations were invoked while operations of other threads had been invoked since the thread's previous one; engine rounds = the same history check on VectorEngine::{store_embedding,get_embedding,delete_embedding,exists} over one shared store.",
        assumptions: vec![
            "the Ok/NotFound result of delete is not judged (Delete is modelled as a blind write); a failed delete records no event".into(),
            "in stress rounds a prefix scan is judged per key (each listed/absent contended key is a read inside the scan's interval); its atomicity across keys is judged in the bigscan rounds, for keys of one class (a prefix spanning several slabs - metadata, entity index, cache ring - is assembled from one atomic listing per slab)".into(),
            "TensorStore::len/ops statistics are never part of an oracle".into(),
            "owned rounds: a key has a single writer thread, so the order of its operations is the program order of that thread and reads are judged exactly; also there the Ok/NotFound result of a delete is not judged - after a completed delete the key is absent whatever the call returned; a durable write that reported an error leaves its key unjudged until the next acknowledged write; _cache: keys may be absent at any time (eviction) but never hold another value than the last put".into(),
            "walfault rounds: the only log fault injected is the size limit the log reports itself (WalConfig::max_size_bytes with auto_rotate = false); a write that returned an error is not required to be invisible in memory, only log and memory must agree at quiescence; rotation (auto_rotate = true) is C02's subject and not used here".into(),
        ],
        floors: if args.replay.is_some() || part != "all" {
            vec![("evaluations", 5)]
        } else {
            vec![("events_recorded", 5_000), ("rounds_with_overlapping_ops", 100), ("key_histories_linearizable", 200), ("parked_at_after_log", 5), ("sync_rounds", 10), ("durable_rounds_recovered", 20), ("durable_rounds_with_concurrent_checkpoint", 10), ("sequential_reads_checked", 500), ("engine_key_histories_linearizable", 100), ("fresh_keys_read_back", 2_000), ("fresh_keys_read_back_through_bloom_filter", 5_000), ("bigscan_scans", 2_000), ("visibility_reads", 20_000), ("visibility_presence_changes_seen", 500), ("bigscan_scans_that_saw_a_half_done_pair", 20), ("walfault_crash_images_compared", 100), ("walfault_writes_refused", 500), ("walfault_probe_deletes_of_present_key_refused", 20), ("walfault_probe_puts_refused", 20), ("walfault_key_histories_linearizable", 150), ("owned_keys_reads_checked", 100_000), ("owned_keys_creations", 20_000), ("owned_keys_reads_of_deleted_own_key", 20_000), ("owned_keys_ops_interleaved_with_other_threads", 5_000), ("owned_keys_rounds_with_interleaved_threads", 30), ("owned_keys_quiescent_keys_audited", 3_000), ("owned_keys_durable_rounds_recovered", 10)]
        },
        exhaustive: false,
    };
    write_result(&args, &meta, &total, started);
}
