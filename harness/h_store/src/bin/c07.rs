//! C07 — snapshots reproduce the store exactly and replace files atomically.
//!
//! roundtrip part: a store filled through the real engines (relational tables with all column
//! types, graph nodes/edges, embeddings of several dimensions and representations) and through
//! raw puts of every value kind is saved and loaded back through every path (file, file with zstd,
//! bytes into a fresh store, bytes into a dirty store, SlabRouter bytes, the quantising format)
//! and observed again through the public read APIs of the store *and* of the engines; the two
//! observations must be equal (vectors the slab stores through its lossy tensor-train path are
//! judged against the documented tolerance). The relational slab is observed through ALL of its
//! public reads - schema, rows, row_count and the secondary-index reads (index_lookup / index_range
//! / index_between over every Int column) - after a random multi-step history (indexes created
//! before/between/after the rows, NULLs in indexed nullable columns, update_row / restore_row on
//! indexed columns, deletes and resurrected rows, added/dropped columns): the reloaded slab must
//! answer every such read like the original.
//!
//! configured-router part: the embedding slab's dimension is a configuration parameter of
//! `SlabRouter` (`TensorStore::new()` always uses 384), so routers with dimensions 1..=600 (dense
//! around 128/129 and 255/256/257) are filled with `emb:` entries of every representation class
//! (dense random, dense low-rank, dense with specials, sparse, exactly-half-zero on either side of
//! the sparse rule, all-zero, one-hot), overwritten/deleted/re-put, plus other keys, a relational
//! slab history, graph slab edges and blob chunks, and round-tripped through to_bytes/from_bytes,
//! save_to_file/load_from_file, save_v3_uncompressed/snapshot::load and snapshot()/restore().
//! Vectors of a dimension below the documented threshold (256) must come back bit-identical
//! whatever their class; longer ones as in the roundtrip part.
//!
//! key-space part: keys are arbitrary strings, so stores are filled with keys of every shape - the
//! empty key, a first character from every UTF-8 class (any ASCII byte incl. NUL/control/DEL,
//! U+0080..U+00FF, two-, three- and four-byte characters and the class boundaries), bare or behind
//! the routed class prefixes (`emb:`, `_cache:`, `node:`, `edge:`, `table:`, `_blob:meta:`), keys that
//! are prefixes of each other, long keys; overwritten, deleted and put again - and every reloaded
//! store (file, file uncompressed, file loaded with a Bloom filter, bytes into a fresh / a
//! Bloom-filter store, SlabRouter bytes / file / snapshot()+restore(), quantising format) must answer
//! ALL public key reads like the original: scan(""), get and exists of present and absent keys,
//! scan(prefix) and scan_count(prefix) for the prefixes of the keys and for one-character probes of
//! every class. (A bounded set of the same reads is also part of every observation of the
//! roundtrip / configured-router / crash parts, whose generators include such keys too.)
//!
//! slab-capacity part: the slabs grow in units (the embedding slab in chunks of a fixed number of
//! floats, the blob log in segments of a configured size, the cache ring up to a configured
//! capacity), so routers of embedding dimension 384..12 000 and one `TensorStore` per run are filled
//! with as many slab vectors as it takes to sit just below / exactly at / just above one, two or
//! three chunk boundaries (10 921..33 000 vectors at the default dimension; with deletes, slot reuse
//! and keys without a slab vector), blob logs with segments of 48 B..1 KiB, cache rings of capacity
//! 2..64 filled beyond it; after every round trip each key, each vector read from the embedding
//! slab itself (`router().index` + `router().embeddings`), each blob chunk must equal the original
//! (bit-exact: all vectors are of the exactly stored sparse class). A load that panics is a violation.
//!
//! value-text part: String scalars (and pointers, field names, Bytes scalars, relational String /
//! Bytes / Json cells, graph String properties) are arbitrary texts, so stores are filled with texts
//! of every shape a format could mistake for something else - texts that start with or contain a
//! marker (`bytes:`, `base64:`, `hex:`, `0x`, `ptr:`, `null`, ...) followed by nothing / decimal
//! digits / even- or odd-length hex / base64, the text forms the formats themselves derive from
//! values of OTHER kinds (`bytes:<len>`, `bytes:<hex>`, the hex or Debug form of a byte string,
//! numbers, booleans, JSON), literals (`null`, `true`, `NaN`, `-0`, numbers beyond i64), leading /
//! trailing whitespace, NUL, BOM, composed vs decomposed characters, escape sequences, lengths on
//! both sides of 2^7 / 2^8 / 2^12 / 2^16 - in every key class, and every reloaded store (file, file
//! uncompressed, bytes into a fresh store, SlabRouter bytes, quantising format default and balanced)
//! must return every field with the SAME KIND AND CONTENT (typed comparison per field; the only
//! tolerated difference is the known finding of the quantising format, a Bytes scalar that comes
//! back as exactly the string `bytes:<len>`).
//!
//! crash part (in this binary): child modes used by the strace kill-injection leg
//! (`legs_c07.py`), which kills a real save at every write/open/rename syscall and then loads
//! the destination path; plus an in-process enumeration of every prefix of the temporary file.

use common::*;
use graph_engine::{GraphEngine, PropertyValue};
use h_store::*;
use relational_engine::{Column, ColumnType, Condition, RelationalEngine, Schema, Value as RVal};
use serde_json::{json, Value};
use std::collections::{BTreeMap, HashMap};
use std::path::Path;
use std::time::Instant;
use tensor_store::ColumnType as SlabColumnType;
use tensor_store::{ChunkHash, ColumnDef, ColumnValue, EntityId, RangeOp, RelationalSlab, RowId, ScalarValue, SlabRouter, SlabRouterConfig, TableSchema, TensorData, TensorStore, TensorValue};
use vector_engine::VectorEngine;

#[derive(Clone, Copy, PartialEq, Eq, Debug)]
enum VecKind {
    /// every snapshot path must return it bit-exactly
    Exact,
    /// dense >= 256 dims, low tensor-train rank: documented "<1% error"
    TtLowRank,
    /// dense >= 256 dims, random: no documented bound when the rank cap binds -> not judged
    TtRandom,
}

#[derive(Default, Clone, PartialEq, Debug)]
struct Obs {
    /// key -> canonical value, `_embedding` of slab-resident vectors taken out
    view: View,
    /// emb key -> slab-dimension `_embedding`
    slab_vectors: BTreeMap<String, Vec<f32>>,
    tables: BTreeMap<String, (String, Vec<String>)>,
    nodes: BTreeMap<u64, String>,
    edges: BTreeMap<u64, String>,
    embeddings: BTreeMap<String, Vec<f32>>,
    blobs: BTreeMap<String, Vec<u8>>,
    /// relational slab read directly (router().relations): table -> (schema, rows with float bits)
    slab_tables: BTreeMap<String, (String, Vec<String>)>,
    /// relational slab, the remaining public reads: table -> row_count and every non-empty answer of
    /// index_lookup / index_range / index_between over every Int column (row ids sorted)
    slab_index_reads: BTreeMap<String, Vec<String>>,
    /// graph slab read directly (router().graph): edge count and adjacency of entities 1..=8
    slab_graph: Vec<String>,
    /// the remaining public key reads (a bounded set derived from the key listing): exists of
    /// present / absent keys, scan(prefix) and scan_count(prefix)
    key_reads: BTreeMap<String, String>,
}

fn canon_rval(v: &RVal) -> String {
    match v {
        RVal::Null => "null".into(),
        RVal::Int(i) => format!("i:{}", i),
        RVal::Float(f) => {
            if f.is_nan() {
                "f:NaN".into()
            } else {
                format!("f:{:016x}", f.to_bits())
            }
        }
        RVal::String(s) => format!("s:{:?}", s),
        RVal::Bool(b) => format!("b:{}", b),
        RVal::Bytes(b) => format!("y:{}", hex(b)),
        other => format!("o:{:?}", other),
    }
}

fn canon_pval(v: &PropertyValue) -> String {
    match v {
        PropertyValue::Float(f) => {
            if f.is_nan() {
                "f:NaN".into()
            } else {
                format!("f:{:016x}", f.to_bits())
            }
        }
        PropertyValue::Map(m) => {
            let mut ks: Vec<_> = m.iter().map(|(k, v)| format!("{}={}", k, canon_pval(v))).collect();
            ks.sort();
            format!("m:{{{}}}", ks.join(","))
        }
        PropertyValue::List(l) => format!("l:[{}]", l.iter().map(canon_pval).collect::<Vec<_>>().join(",")),
        other => format!("{:?}", other),
    }
}

fn observe(store: &TensorStore, blob_hashes: &[ChunkHash]) -> Obs {
    let mut o = Obs::default();
    for k in store.scan("") {
        match store.get(&k) {
            Ok(mut d) => {
                if k.starts_with("emb:") {
                    if let Some(TensorValue::Vector(v)) = d.get("_embedding") {
                        if v.len() == 384 {
                            o.slab_vectors.insert(k.clone(), v.clone());
                            d.remove("_embedding");
                        }
                    }
                    // the vector engine keeps its vector in field "vector" as well
                }
                o.view.insert(k, canon_data(&d));
            }
            Err(_) => {
                o.view.insert(k, "<listed by scan but get fails>".into());
            }
        }
    }
    let rel = RelationalEngine::with_store(store.clone());
    for t in rel.list_tables() {
        let schema = rel.get_schema(&t).map(|s| format!("{:?}", s.columns)).unwrap_or_else(|e| format!("schema error {}", e));
        let mut rows: Vec<String> = match rel.select(&t, Condition::True) {
            Ok(rs) => rs
                .iter()
                .map(|r| {
                    let mut vs: Vec<String> = r.values.iter().map(|(c, v)| format!("{}={}", c, canon_rval(v))).collect();
                    vs.sort();
                    format!("#{} {}", r.id, vs.join(","))
                })
                .collect(),
            Err(e) => vec![format!("select error: {}", e)],
        };
        rows.sort();
        o.tables.insert(t, (schema, rows));
    }
    let g = GraphEngine::with_store(store.clone());
    for n in g.all_nodes() {
        let mut ps: Vec<String> = n.properties.iter().map(|(k, v)| format!("{}={}", k, canon_pval(v))).collect();
        ps.sort();
        o.nodes.insert(n.id, format!("{:?} {}", n.labels, ps.join(",")));
    }
    for e in g.all_edges() {
        let mut ps: Vec<String> = e.properties.iter().map(|(k, v)| format!("{}={}", k, canon_pval(v))).collect();
        ps.sort();
        o.edges.insert(e.id, format!("{}->{} {} dir={} {}", e.from, e.to, e.edge_type, e.directed, ps.join(",")));
    }
    let ve = VectorEngine::with_store(store.clone());
    for k in ve.list_keys() {
        if let Ok(v) = ve.get_embedding(&k) {
            o.embeddings.insert(k, v);
        }
    }
    for h in blob_hashes {
        if let Some(b) = store.router().blobs.get(h) {
            o.blobs.insert(format!("{:016x}", h.0), b);
        }
    }
    let (slab_tables, slab_index_reads) = observe_relations(&store.router().relations);
    o.slab_tables = slab_tables;
    o.slab_index_reads = slab_index_reads;
    o.slab_graph = observe_graph_slab(&store.router().graph);
    let listing: Vec<String> = o.view.keys().cloned().collect();
    o.key_reads = read_keys(store, &build_probes(&listing, 16, 16, &[]), false);
    o
}

/// Keys every index read is tried with (besides the values found in the rows).
const INDEX_KEYS: [i64; 10] = [i64::MIN, -3, -1, 0, 1, 2, 7, 15, 42, i64::MAX];

fn sorted_ids(v: Result<Vec<RowId>, tensor_store::RelationalError>) -> Result<Vec<u64>, String> {
    v.map(|ids| {
        let mut ids: Vec<u64> = ids.iter().map(|i| i.as_u64()).collect();
        ids.sort_unstable();
        ids
    })
    .map_err(|e| format!("{:?}", e))
}

/// Everything the relational slab answers through its public read API: per table the schema and
/// the live rows (float bits), and - separately - row_count and the secondary-index reads.
#[allow(clippy::type_complexity)]
fn observe_relations(rs: &RelationalSlab) -> (BTreeMap<String, (String, Vec<String>)>, BTreeMap<String, Vec<String>>) {
    let mut tables = BTreeMap::new();
    let mut reads = BTreeMap::new();
    for t in rs.table_names() {
        let schema_opt = rs.get_schema(&t);
        let schema = format!("{:?}", schema_opt);
        let scanned = rs.scan_all(&t);
        let mut rows: Vec<String> = match &scanned {
            Ok(v) => v
                .iter()
                .map(|(id, row)| {
                    let cells: Vec<String> = row
                        .iter()
                        .map(|c| match c {
                            tensor_store::ColumnValue::Float(f) => format!("Float(bits {:#x})", f.to_bits()),
                            other => format!("{:?}", other),
                        })
                        .collect();
                    format!("[{}] {}", id.as_u64(), cells.join(", "))
                })
                .collect(),
            Err(e) => vec![format!("scan error {:?}", e)],
        };
        rows.sort();
        tables.insert(t.clone(), (schema, rows));
        let mut out = vec![format!("row_count {:?}", rs.row_count(&t).map_err(|e| format!("{:?}", e)))];
        if let Some(s) = &schema_opt {
            let empty = Vec::new();
            let live = scanned.as_ref().unwrap_or(&empty);
            for (ci, col) in s.columns.iter().enumerate() {
                if col.col_type != SlabColumnType::Int {
                    continue;
                }
                let mut keys: std::collections::BTreeSet<i64> = INDEX_KEYS.iter().copied().collect();
                for (_, row) in live.iter().take(48) {
                    if let Some(ColumnValue::Int(v)) = row.get(ci) {
                        keys.insert(*v);
                    }
                }
                let mut note = |what: String, ans: Result<Vec<u64>, String>| match ans {
                    Ok(ids) if ids.is_empty() => {}
                    Ok(ids) => out.push(format!("{} -> {:?}", what, ids)),
                    Err(e) => out.push(format!("{} -> error {}", what, e)),
                };
                for k in &keys {
                    note(format!("lookup {}={}", col.name, k), sorted_ids(rs.index_lookup(&t, &col.name, *k)));
                }
                for (name, op) in [("lt", RangeOp::Lt), ("le", RangeOp::Le), ("gt", RangeOp::Gt), ("ge", RangeOp::Ge)] {
                    for k in [i64::MIN, -1, 0, 1, i64::MAX] {
                        note(format!("range {} {} {}", col.name, name, k), sorted_ids(rs.index_range(&t, &col.name, op, k)));
                    }
                }
                for (lo, hi) in [(i64::MIN, i64::MAX), (-5, 5), (0, 0), (1, i64::MAX), (i64::MIN, -1)] {
                    note(format!("between {} {}..={}", col.name, lo, hi), sorted_ids(rs.index_between(&t, &col.name, lo, hi)));
                }
            }
        }
        reads.insert(t, out);
    }
    (tables, reads)
}

fn observe_graph_slab(gs: &tensor_store::GraphTensor) -> Vec<String> {
    let mut slab_graph = Vec::new();
    slab_graph.push(format!("edges={}", gs.edge_count()));
    for n in 1..=8u64 {
        let mut out: Vec<u64> = gs.outgoing(tensor_store::EntityId::new(n)).iter().map(|(to, _)| to.as_u64()).collect();
        let mut inc: Vec<u64> = gs.incoming(tensor_store::EntityId::new(n)).iter().map(|(fr, _)| fr.as_u64()).collect();
        out.sort();
        inc.sort();
        if !out.is_empty() || !inc.is_empty() {
            slab_graph.push(format!("{} out {:?} in {:?}", n, out, inc));
        }
    }
    slab_graph
}

struct Content {
    store: TensorStore,
    vec_kinds: BTreeMap<String, VecKind>,
    blob_hashes: Vec<ChunkHash>,
    description: Value,
}

fn low_rank_vector(rng: &mut Rng) -> Vec<f32> {
    // smooth separable signal: sum of two products of per-axis factors has TT-rank <= 2
    let (a, b) = (rng.f64_in(0.5, 2.0), rng.f64_in(0.1, 0.9));
    let shift = rng.f64_in(0.2, 1.0);
    (0..384).map(|i| (a * (1.0 + (i % 8) as f64 * 0.1) * (1.0 + ((i / 8) % 8) as f64 * b) * (shift + (i / 64) as f64 * 0.3)) as f32).collect()
}

/// Int values relational-slab histories write (a small domain, so that equal keys, 0 and the
/// extremes are frequent); `INDEX_KEYS` covers all of them.
const HIST_INTS: [i64; 11] = [0, 0, 1, -1, 2, -3, 7, 15, 42, i64::MIN, i64::MAX];

fn hist_value(rng: &mut Rng, col: &ColumnDef) -> ColumnValue {
    if col.nullable && rng.chance(1, 3) {
        return ColumnValue::Null;
    }
    match col.col_type {
        SlabColumnType::Int => ColumnValue::Int(*rng.pick(&HIST_INTS)),
        SlabColumnType::Float => ColumnValue::Float(*rng.pick(&[0.0, -0.0, 1.5, 2.25, f64::NEG_INFINITY, f64::NAN])),
        SlabColumnType::String => ColumnValue::String(format!("n{}", rng.below(50))),
        SlabColumnType::Bool => ColumnValue::Bool(rng.bool()),
        SlabColumnType::Bytes => {
            let n = rng.below(12);
            ColumnValue::Bytes(rng.bytes(n))
        }
        SlabColumnType::Json => ColumnValue::Json(format!("{{\"k\":{}}}", rng.below(9))),
    }
}

/// A random multi-step history on the relational slab, through its public write API only and
/// always type-correct: tables `<prefix>0..2` with a non-null Int column, nullable Int columns and
/// columns of the other types; indexes are created at any time (on the empty table, between and
/// after the rows, on nullable columns, on columns added later); rows are inserted (singly and in
/// batches, NULLs included), deleted, updated (also in indexed columns, also to NULL), rewritten
/// (`restore_row`) and resurrected (`restore_deleted_row`); columns are added and dropped; a table
/// may be dropped. Returns a short trace for samples.
fn slab_history(rng: &mut Rng, rs: &RelationalSlab, prefix: &str, n_ops: usize) -> Vec<String> {
    let mut trace: Vec<String> = Vec::new();
    let mut tables: Vec<(String, u64)> = Vec::new(); // name, rows ever inserted
    let mut next_table = 0usize;
    let mut extra_col = 0usize;
    let new_table = |rng: &mut Rng, tables: &mut Vec<(String, u64)>, next_table: &mut usize, trace: &mut Vec<String>| {
        let name = format!("{}{}", prefix, *next_table);
        *next_table += 1;
        let mut cols = vec![ColumnDef::new("id", SlabColumnType::Int, false), ColumnDef::new("n1", SlabColumnType::Int, true)];
        let mut optional = vec![
            ColumnDef::new("n2", SlabColumnType::Int, true),
            ColumnDef::new("name", SlabColumnType::String, true),
            ColumnDef::new("score", SlabColumnType::Float, true),
            ColumnDef::new("active", SlabColumnType::Bool, true),
            ColumnDef::new("raw", SlabColumnType::Bytes, true),
            ColumnDef::new("doc", SlabColumnType::Json, true),
        ];
        rng.shuffle(&mut optional);
        let keep = rng.below(optional.len() + 1);
        cols.extend(optional.into_iter().take(keep));
        let schema = TableSchema::new(cols);
        let schema = if rng.bool() { schema.with_primary_key("id") } else { schema };
        if rs.create_table(&name, schema).is_ok() {
            trace.push(format!("create_table {}", name));
            // often: the index exists before the first row
            if rng.bool() {
                let c = *rng.pick(&["n1", "id", "n2"]);
                if rs.create_index(&name, c).is_ok() {
                    trace.push(format!("create_index {}.{} (empty table)", name, c));
                }
            }
            tables.push((name, 0));
        }
    };
    new_table(rng, &mut tables, &mut next_table, &mut trace);
    for _ in 0..n_ops {
        if tables.is_empty() {
            new_table(rng, &mut tables, &mut next_table, &mut trace);
            continue;
        }
        let ti = rng.below(tables.len());
        let name = tables[ti].0.clone();
        let Some(schema) = rs.get_schema(&name) else { continue };
        let total = tables[ti].1;
        let some_row = |rng: &mut Rng| RowId::new(rng.below(total as usize + 1) as u64);
        match rng.weighted(&[40, 8, 10, 10, 12, 4, 5, 3, 2, 3, 1]) {
            0 => {
                let row: Vec<ColumnValue> = schema.columns.iter().map(|c| hist_value(rng, c)).collect();
                if let Ok(id) = rs.insert(&name, row) {
                    tables[ti].1 = tables[ti].1.max(id.as_u64() + 1);
                }
            }
            1 => {
                let rows: Vec<Vec<ColumnValue>> = (0..2 + rng.below(3)).map(|_| schema.columns.iter().map(|c| hist_value(rng, c)).collect()).collect();
                if let Ok(ids) = rs.batch_insert(&name, rows) {
                    for id in ids {
                        tables[ti].1 = tables[ti].1.max(id.as_u64() + 1);
                    }
                    trace.push(format!("batch_insert {}", name));
                }
            }
            2 => {
                let c = rng.pick(&schema.columns).name.clone();
                if rs.create_index(&name, &c).is_ok() {
                    trace.push(format!("create_index {}.{} ({} rows so far)", name, c, total));
                }
            }
            3 => {
                let id = some_row(rng);
                if rs.delete(&name, id) == Ok(true) {
                    trace.push(format!("delete {}#{}", name, id.as_u64()));
                }
            }
            4 => {
                let id = some_row(rng);
                let n = 1 + rng.below(2);
                let updates: Vec<(String, ColumnValue)> = (0..n)
                    .map(|_| {
                        let c = rng.pick(&schema.columns).clone();
                        let v = hist_value(rng, &c);
                        (c.name, v)
                    })
                    .collect();
                if rs.update_row(&name, id, &updates).is_ok() {
                    trace.push(format!("update_row {}#{} {:?}", name, id.as_u64(), updates.iter().map(|u| u.0.as_str()).collect::<Vec<_>>()));
                }
            }
            5 => {
                let id = some_row(rng);
                let row: Vec<ColumnValue> = schema.columns.iter().map(|c| hist_value(rng, c)).collect();
                if rs.restore_row(&name, id, &row).is_ok() {
                    trace.push(format!("restore_row {}#{}", name, id.as_u64()));
                }
            }
            6 => {
                let id = some_row(rng);
                let row: Vec<ColumnValue> = schema.columns.iter().map(|c| hist_value(rng, c)).collect();
                if rs.restore_deleted_row(&name, id, &row).is_ok() {
                    trace.push(format!("restore_deleted_row {}#{}", name, id.as_u64()));
                }
            }
            7 => {
                extra_col += 1;
                let c = ColumnDef::new(&format!("x{}", extra_col), SlabColumnType::Int, true);
                let dflt = ColumnValue::Int(*rng.pick(&HIST_INTS));
                if rs.add_column(&name, c, if rng.bool() { Some(&dflt) } else { None }).is_ok() {
                    trace.push(format!("add_column {}.x{}", name, extra_col));
                }
            }
            8 => {
                if schema.columns.len() > 2 {
                    let c = schema.columns[1 + rng.below(schema.columns.len() - 1)].name.clone();
                    if rs.drop_column(&name, &c).is_ok() {
                        trace.push(format!("drop_column {}.{}", name, c));
                    }
                }
            }
            9 => {
                if tables.len() < 3 {
                    new_table(rng, &mut tables, &mut next_table, &mut trace);
                }
            }
            _ => {
                if tables.len() > 1 && rs.drop_table(&name).is_ok() {
                    trace.push(format!("drop_table {}", name));
                    tables.remove(ti);
                }
            }
        }
    }
    if trace.len() > 14 {
        let n = trace.len();
        trace.drain(7..n - 7);
        trace.insert(7, "...".into());
    }
    trace
}

/// A dense vector of any length whose tensor-train ranks are <= 2 under every reshaping: the sum
/// of two geometric sequences (each is a product of per-axis factors whatever the axes are).
fn low_rank_vector_dim(rng: &mut Rng, dim: usize) -> Vec<f32> {
    let (a, b) = (rng.f64_in(0.5, 2.0), rng.f64_in(0.2, 1.0));
    let span = dim.max(2) as f64;
    let (r1, r2) = ((rng.f64_in(-1.2, 1.2) / span).exp(), (rng.f64_in(-1.2, 1.2) / span).exp());
    (0..dim).map(|i| (a * r1.powi(i as i32) + b * r2.powi(i as i32)) as f32).collect()
}

fn build_content(rng: &mut Rng, size: usize, exact_only: bool) -> Content {
    let store = TensorStore::new();
    let mut vec_kinds = BTreeMap::new();
    let mut wid = 0u64;
    // raw keys of every class and value kind
    let n_raw = size;
    for i in 0..n_raw {
        let k = match rng.below(8) {
            0 => format!("k:{}", i),
            1 | 2 => format!("emb:raw{}", i),
            3 => format!("user/é:{}", i),
            4 => format!("_blob:meta:{}", i),
            5 => format!("meta:{}", i),
            // keys are arbitrary strings: any first character, bare or behind a routed class prefix
            6 => format!("{}{}{}:{}", *rng.pick(&["", "", "", "emb:", "_cache:", "_blob:meta:"]), hostile_char(rng), if rng.bool() { hostile_char(rng).to_string() } else { String::new() }, i),
            _ => format!("zz:{}", i),
        };
        wid += 1;
        let mut d = gen_data(rng, &k, wid, true);
        if k.starts_with("emb:") {
            if let Some(TensorValue::Vector(v)) = d.get("_embedding") {
                if v.len() == 384 {
                    let kind = if exact_only { VecKind::Exact } else { *rng.pick(&[VecKind::Exact, VecKind::Exact, VecKind::TtLowRank, VecKind::TtRandom]) };
                    match kind {
                        VecKind::Exact => {}
                        VecKind::TtLowRank => d.set("_embedding", TensorValue::Vector(low_rank_vector(rng))),
                        VecKind::TtRandom => d.set("_embedding", TensorValue::Vector((0..384).map(|_| rng.f64_in(-1.0, 1.0) as f32 + 1.5).collect())),
                    }
                    vec_kinds.insert(k.clone(), kind);
                }
            }
        }
        let _ = store.put(k, d);
    }
    // a few cache-ring entries (part of every snapshot image)
    for i in 0..(size / 8).min(6) {
        wid += 1;
        let k = format!("_cache:q{}", i);
        let d = gen_data(rng, &k, wid, true);
        let _ = store.put(k, d);
    }
    // sometimes blob-like incompressible payloads, enough to make the whole image incompressible
    if size >= 3 && rng.chance(1, 5) {
        for i in 0..(2 + rng.below(3)) {
            let mut d = TensorData::new();
            let n = 30_000 + rng.below(90_000);
            d.set("_data", TensorValue::Scalar(ScalarValue::Bytes(rng.bytes(n))));
            let _ = store.put(format!("_blob:chunk:sha256:{:016x}{}", rng.next_u64(), i), d);
        }
    }
    // now and then one value larger than 1 MiB (compressible or not)
    if size >= 3 && rng.chance(1, 12) {
        let mut d = TensorData::new();
        let n = 1_100_000 + rng.below(2_000_000);
        let payload = if rng.bool() { rng.bytes(n) } else { vec![0x5Au8; n] };
        d.set("_data", TensorValue::Scalar(ScalarValue::Bytes(payload)));
        let _ = store.put("big:value", d);
    }
    // relational tables
    let rel = RelationalEngine::with_store(store.clone());
    let n_tables = if size == 0 { 0 } else { 1 + rng.below(2) };
    let mut table_desc = Vec::new();
    for t in 0..n_tables {
        let name = format!("t{}", t);
        let cols = vec![
            Column::new("a", ColumnType::Int),
            Column::new("b", ColumnType::Float).nullable(),
            Column::new("c", ColumnType::String).nullable(),
            Column::new("d", ColumnType::Bool).nullable(),
            Column::new("e", ColumnType::Bytes).nullable(),
        ];
        if rel.create_table(&name, Schema::new(cols)).is_err() {
            continue;
        }
        // now and then a table-heavy store: rows far outnumber keys (> 1 MiB of row data)
        let heavy = t == 0 && size >= 1 && size <= 30 && rng.chance(1, 20);
        let n_rows = if heavy { 12_000 + rng.below(4_000) } else { rng.below(size.min(400) + 1) };
        for _ in 0..n_rows {
            let mut row: HashMap<String, RVal> = HashMap::new();
            row.insert("a".into(), RVal::Int(*rng.pick(&[i64::MIN, i64::MAX, 0, -1, 7, 42, 1000])));
            if rng.chance(4, 5) {
                row.insert("b".into(), RVal::Float(gen_f64(rng)));
            }
            if rng.chance(4, 5) {
                row.insert("c".into(), RVal::String(gen_string(rng)));
            }
            if rng.chance(1, 2) {
                row.insert("d".into(), RVal::Bool(rng.bool()));
            }
            if heavy || rng.chance(1, 2) {
                let n = if heavy { 80 + rng.below(40) } else { rng.below(20) };
                row.insert("e".into(), RVal::Bytes(rng.bytes(n)));
            }
            let _ = rel.insert(&name, row);
        }
        if rng.bool() {
            let _ = rel.create_index(&name, "a");
        }
        table_desc.push(json!({"table": name, "rows": n_rows}));
    }
    // now and then tables that live in the relational slab only, with a multi-step history
    let mut slab_trace = Vec::new();
    if size >= 1 && rng.chance(1, 3) {
        let n_ops = 5 + rng.below(40);
        slab_trace = slab_history(rng, &store.router().relations, "h", n_ops);
    }
    // graph
    let g = GraphEngine::with_store(store.clone());
    let n_nodes = (size / 4).min(200);
    let mut ids = Vec::new();
    for i in 0..n_nodes {
        let mut p = HashMap::new();
        p.insert("name".to_string(), PropertyValue::String(format!("n{}", i)));
        if rng.bool() {
            p.insert("w".to_string(), PropertyValue::Float(gen_f64(rng)));
        }
        if rng.chance(1, 4) {
            p.insert("l".to_string(), PropertyValue::List(vec![PropertyValue::Int(1), PropertyValue::Bool(true)]));
        }
        if let Ok(id) = g.create_node(format!("L{}", i % 3), p) {
            ids.push(id);
        }
    }
    let mut n_edges = 0;
    if !ids.is_empty() {
        for _ in 0..n_nodes * 2 {
            let (a, b) = (*rng.pick(&ids), *rng.pick(&ids));
            let mut p = HashMap::new();
            p.insert("w".to_string(), PropertyValue::Float(rng.f64_in(0.0, 10.0)));
            if g.create_edge(a, b, *rng.pick(&["knows", "likes"]), p, rng.bool()).is_ok() {
                n_edges += 1;
            }
        }
    }
    // vector engine embeddings (small dims: bit-exact; slab dim: exact-sparse)
    let ve = VectorEngine::with_store(store.clone());
    let n_vec = (size / 4).min(300);
    for i in 0..n_vec {
        let key = format!("doc{}", i);
        let v = if rng.chance(1, 3) {
            vec_kinds.insert(format!("emb:{}", key), VecKind::Exact);
            gen_slab_vector_exact(rng, i as u64)
        } else {
            let dim = *rng.pick(&[2usize, 8, 64, 255]);
            (0..dim).map(|_| rng.f64_in(-1.0, 1.0) as f32).collect()
        };
        let _ = ve.store_embedding(&key, v);
    }
    // blob log chunks (the content-addressed slab reachable through router().blobs)
    let mut blob_hashes = Vec::new();
    for _ in 0..(size / 10).min(20) {
        let n = rng.below(200);
        let data = rng.bytes(n);
        blob_hashes.push(store.router().blobs.append(&data));
    }
    Content {
        store,
        vec_kinds,
        blob_hashes,
        description: json!({"raw_keys": n_raw, "tables": table_desc, "slab_history": slab_trace, "nodes": n_nodes, "edges": n_edges, "embeddings": n_vec}),
    }
}

/// A store whose whole content lives in the slabs that are not addressed by keys: relational
/// slab tables, graph slab edges, blob-log chunks (all reachable through `TensorStore::router()`).
fn build_slab_only(rng: &mut Rng) -> Content {
    use tensor_store::ColumnType;
    let store = TensorStore::new();
    let what = 1 + rng.below(7); // bit 0: tables, bit 1: graph slab, bit 2: blob chunks
    let mut desc = Vec::new();
    if what & 1 != 0 {
        let schema = TableSchema::new(vec![
            ColumnDef::new("id", ColumnType::Int, false),
            ColumnDef::new("name", ColumnType::String, true),
            ColumnDef::new("score", ColumnType::Float, true),
            ColumnDef::new("active", ColumnType::Bool, true),
            ColumnDef::new("raw", ColumnType::Bytes, true),
        ]);
        let schema = if rng.bool() { schema.with_primary_key("id") } else { schema };
        let rel = &store.router().relations;
        let _ = rel.create_table("st0", schema.clone());
        if rng.bool() {
            let _ = rel.create_table("st_empty", schema);
        }
        let n = rng.below(7);
        for i in 0..n {
            let row = vec![
                ColumnValue::Int(*rng.pick(&[i64::MIN, -1, 0, 1, i64::MAX]) ^ i as i64),
                if rng.bool() { ColumnValue::String(format!("n{}", rng.below(100))) } else { ColumnValue::Null },
                if rng.bool() { ColumnValue::Float(*rng.pick(&[0.0, -0.0, 1.5, f64::NEG_INFINITY, f64::NAN])) } else { ColumnValue::Null },
                if rng.bool() { ColumnValue::Bool(rng.bool()) } else { ColumnValue::Null },
                if rng.bool() { let nb = rng.below(12); ColumnValue::Bytes(rng.bytes(nb)) } else { ColumnValue::Null },
            ];
            let _ = rel.insert("st0", row);
        }
        if rng.bool() {
            let _ = rel.create_index("st0", "id");
        }
        // schema evolution after the rows exist: a new column with / without default, a dropped
        // column (also the one the primary key or the index was declared on)
        if rng.chance(1, 3) {
            let dflt = ColumnValue::Int(7);
            let _ = rel.add_column("st0", ColumnDef::new("extra", ColumnType::Int, true), if rng.bool() { Some(&dflt) } else { None });
        }
        if rng.chance(1, 3) {
            let _ = rel.drop_column("st0", *rng.pick(&["id", "name", "score", "raw"]));
        }
        desc.push(format!("slab tables ({} rows)", n));
        // plus tables with a longer random history (indexes at any time, NULLs, updates, ...)
        if rng.chance(2, 3) {
            let n_ops = 5 + rng.below(60);
            let trace = slab_history(rng, rel, "h", n_ops);
            desc.push(format!("slab history {:?}", trace));
        }
    }
    if what & 2 != 0 {
        let n = 1 + rng.below(6);
        for _ in 0..n {
            let (a, b) = (1 + rng.below(8) as u64, 1 + rng.below(8) as u64);
            store.router().graph.add_edge(EntityId::new(a), EntityId::new(b), *rng.pick(&["knows", "likes"]), rng.bool());
        }
        desc.push(format!("graph slab ({} edges)", n));
    }
    let mut blob_hashes = Vec::new();
    if what & 4 != 0 {
        for _ in 0..1 + rng.below(3) {
            let n = 1 + rng.below(300);
            let data = rng.bytes(n);
            blob_hashes.push(store.router().blobs.append(&data));
        }
        desc.push(format!("blob chunks ({})", blob_hashes.len()));
    }
    Content { store, vec_kinds: BTreeMap::new(), blob_hashes, description: json!({"slab_only": desc}) }
}

fn rel_l2(a: &[f32], b: &[f32]) -> f64 {
    let num: f64 = a.iter().zip(b).map(|(x, y)| ((*x - *y) as f64).powi(2)).sum();
    let den: f64 = a.iter().map(|x| (*x as f64).powi(2)).sum();
    (num / den.max(1e-30)).sqrt()
}

/// compare an observation taken after a round trip with the original; returns (signature, detail)
fn compare(path: &str, orig: &Obs, got: &Obs, kinds: &BTreeMap<String, VecKind>, r: &mut Report, quantising: bool) -> Vec<(String, String)> {
    let mut out = Vec::new();
    // the configured-router part counts separately, so that its observations cannot satisfy the
    // floors of the store-level part
    let cfg = path.starts_with("cfg-");
    // at most 6 reports per case as before, but a failure class that was not reported yet is never
    // crowded out by repetitions of another one (e.g. of a known finding)
    let mut push = |sig: String, d: String| {
        let same = out.iter().filter(|(s, _): &&(String, String)| *s == sig).count();
        if (out.len() < 6 || same == 0) && out.len() < 24 {
            out.push((sig, d));
        }
    };
    // keys / fields
    for (k, v) in &orig.view {
        match got.view.get(k) {
            None => push(format!("roundtrip:{}:key-missing", path), format!("key {} missing after round trip", k)),
            Some(g) if g != v && g.starts_with("<listed by scan") => push(format!("roundtrip:{}:listed-key-not-readable", path), format!("key {:?} is listed by scan(\"\") after the round trip but get() does not find it", k)),
            Some(g) if g != v => {
                // which field kinds differ?
                let fa: BTreeMap<&str, &str> = v.split(';').filter_map(|f| f.split_once('=')).collect();
                let fb: BTreeMap<&str, &str> = g.split(';').filter_map(|f| f.split_once('=')).collect();
                let mut kinds_diff = std::collections::BTreeSet::new();
                for (name, va) in &fa {
                    match fb.get(name) {
                        Some(vb) if vb == va => {}
                        Some(vb) => {
                            let kind = va.split(':').next().unwrap_or("?").split('[').next().unwrap_or("?").to_string();
                            // quantising format: vector payloads are only held to quantisation error
                            if quantising && (kind == "v" || kind == "sp") {
                                r.count("quantising_vector_payloads_not_judged", 1);
                                continue;
                            }
                            // quantising format, Bytes scalar: the known finding is exactly "comes back as
                            // the string bytes:<len>"; anything else is another failure class
                            let kind = if quantising && kind == "y" && **vb != format!("s:{:?}", format!("bytes:{}", va.len().saturating_sub(2) / 2)) { "y-not-as-the-length-placeholder".to_string() } else { kind };
                            kinds_diff.insert(format!("{}({}->{})", kind, trunc(va, 40), trunc(vb, 40)));
                        }
                        None => {
                            kinds_diff.insert(format!("field-{}-missing", name));
                        }
                    }
                }
                for name in fb.keys() {
                    if !fa.contains_key(name) {
                        kinds_diff.insert(format!("field-{}-added", name));
                    }
                }
                if !kinds_diff.is_empty() {
                    let first = kinds_diff.iter().next().unwrap().clone();
                    let kind = first.split('(').next().unwrap_or("?").to_string();
                    push(format!("roundtrip:{}:field-differs:{}", path, kind), format!("key {}: {:?}", k, kinds_diff));
                }
            }
            _ => {}
        }
    }
    for k in got.view.keys() {
        if !orig.view.contains_key(k) {
            push(format!("roundtrip:{}:key-added", path), format!("key {} appeared after round trip", k));
        }
    }
    // slab vectors
    for (k, v) in &orig.slab_vectors {
        let kind = kinds.get(k).copied().unwrap_or(VecKind::Exact);
        match got.slab_vectors.get(k) {
            None => {
                if !quantising {
                    push(format!("roundtrip:{}:slab-vector-missing", path), format!("{} has no slab-dimension _embedding after round trip", k));
                }
            }
            Some(g) => {
                if quantising {
                    r.count("quantising_vector_payloads_not_judged", 1);
                    continue;
                }
                match kind {
                    VecKind::Exact => {
                        r.count(if cfg { "cfg_exact_slab_vectors_compared" } else { "exact_slab_vectors_compared" }, 1);
                        if g.len() != v.len() || g.iter().zip(v).any(|(a, b)| a.to_bits() != b.to_bits()) {
                            let i = g.iter().zip(v).position(|(a, b)| a.to_bits() != b.to_bits());
                            let dev = g.iter().zip(v).map(|(a, b)| (a - b).abs()).fold(0.0f32, f32::max);
                            // the statement's own class: shorter than the documented compression threshold
                            let what = if v.len() < 256 { "slab-vector-below-256-not-bit-identical" } else { "slab-vector-not-exact" };
                            push(format!("roundtrip:{}:{}", path, what), format!("{} (dimension {} -> {}): first differing element {:?}: {:?} vs {:?}; max abs deviation {:e}", k, v.len(), g.len(), i, i.map(|i| v[i]), i.map(|i| g[i]), dev));
                        }
                    }
                    VecKind::TtLowRank => {
                        let e = rel_l2(v, g);
                        r.count(if cfg { "cfg_tt_vectors_judged_against_1pct" } else { "tt_vectors_judged_against_1pct" }, 1);
                        if !(e < 0.01) {
                            push(format!("roundtrip:{}:tt-vector-outside-documented-1pct", path), format!("{}: relative L2 error {:.4}", k, e));
                        }
                    }
                    VecKind::TtRandom => {
                        r.count(if cfg { "cfg_vectors_not_judged_no_documented_bound" } else { "tt_vectors_not_judged_rank_cap" }, 1);
                        if g.len() != v.len() {
                            push(format!("roundtrip:{}:slab-vector-dimension-changed", path), format!("{}: {} -> {}", k, v.len(), g.len()));
                        }
                    }
                }
            }
        }
    }
    // the remaining key reads (exists / scan(prefix) / scan_count(prefix)); a probe that only one
    // side has comes from a differing key listing, which is reported above
    for (probe, ans) in &orig.key_reads {
        if let Some(g) = got.key_reads.get(probe) {
            r.count(if cfg { "cfg_key_reads_compared" } else { "key_reads_compared" }, 1);
            if g != ans {
                push(format!("roundtrip:{}:{}", path, key_read_kind(probe, ans, g)), format!("`{}`: original answers {}, reloaded answers {}", trunc(probe, 120), trunc(ans, 300), trunc(g, 300)));
            }
        }
    }
    if !quantising {
        // engine-level observations
        for (t, (schema, rows)) in &orig.tables {
            match got.tables.get(t) {
                None => push(format!("roundtrip:{}:table-missing", path), format!("table {} ({} rows) is gone", t, rows.len())),
                Some((s2, r2)) => {
                    if s2 != schema {
                        push(format!("roundtrip:{}:table-schema-differs", path), format!("table {}: {} vs {}", t, schema, s2));
                    }
                    if r2 != rows {
                        let d = rows.iter().zip(r2).find(|(a, b)| a != b);
                        push(format!("roundtrip:{}:table-rows-differ", path), format!("table {}: {} rows vs {}; first difference {:?}", t, rows.len(), r2.len(), d));
                    }
                }
            }
        }
        if orig.nodes != got.nodes {
            push(format!("roundtrip:{}:graph-nodes-differ", path), format!("{} nodes vs {}", orig.nodes.len(), got.nodes.len()));
        }
        if orig.edges != got.edges {
            push(format!("roundtrip:{}:graph-edges-differ", path), format!("{} edges vs {}", orig.edges.len(), got.edges.len()));
        }
        for (k, v) in &orig.embeddings {
            let is_slab = v.len() == 384;
            match got.embeddings.get(k) {
                None => push(format!("roundtrip:{}:embedding-missing", path), format!("vector engine key {} gone", k)),
                Some(g) => {
                    if !is_slab && (g.len() != v.len() || g.iter().zip(v).any(|(a, b)| a.to_bits() != b.to_bits())) {
                        push(format!("roundtrip:{}:small-embedding-not-bit-identical", path), format!("key {} dim {}", k, v.len()));
                    }
                }
            }
        }
        if orig.blobs != got.blobs {
            push(format!("roundtrip:{}:blob-chunks-differ", path), format!("{} chunks vs {}", orig.blobs.len(), got.blobs.len()));
        }
        if orig.slab_tables != got.slab_tables {
            let d = orig.slab_tables.iter().find(|(t, v)| got.slab_tables.get(*t) != Some(v)).map(|(t, v)| format!("table {}: {:?} vs {:?}", t, v, got.slab_tables.get(t)));
            push(format!("roundtrip:{}:relational-slab-differs", path), format!("{} tables vs {}; {}", orig.slab_tables.len(), got.slab_tables.len(), trunc(&d.unwrap_or_default(), 400)));
        }
        // the remaining public reads of the relational slab: row_count and the index reads
        for (t, reads) in &orig.slab_index_reads {
            r.count(if cfg { "cfg_slab_index_answers_compared" } else { "slab_index_answers_compared" }, reads.len().saturating_sub(1) as u64);
            match got.slab_index_reads.get(t) {
                None => {} // table missing: reported above
                Some(g) if g == reads => {}
                Some(g) => {
                    let d = reads.iter().find(|l| !g.contains(l)).cloned().or_else(|| g.iter().find(|l| !reads.contains(l)).map(|l| format!("(only after the round trip) {}", l))).unwrap_or_default();
                    let what = if d.contains("row_count") { "row-count" } else { "index-reads" };
                    let other = g.iter().find(|l| l.split(" -> ").next() == d.split(" -> ").next()).cloned().unwrap_or_else(|| "no rows".into());
                    push(format!("roundtrip:{}:relational-slab-{}-differ", path, what), format!("table {}: original answers `{}`, reloaded answers `{}`", t, trunc(&d, 200), trunc(&other, 200)));
                }
            }
        }
        if orig.slab_graph != got.slab_graph {
            push(format!("roundtrip:{}:graph-slab-differs", path), format!("{:?} vs {:?}", orig.slab_graph, got.slab_graph));
        }
    } else {
        // everything except vector payloads must be exact in the quantising format too
        for (t, (_, rows)) in &orig.tables {
            match got.tables.get(t) {
                None => push(format!("roundtrip:{}:table-missing", path), format!("table {} ({} rows) is gone", t, rows.len())),
                Some((_, r2)) => {
                    if r2 != rows {
                        push(format!("roundtrip:{}:table-rows-differ", path), format!("table {}: {} rows vs {} ({:?})", t, rows.len(), r2.len(), r2.first()));
                    }
                }
            }
        }
        if orig.nodes != got.nodes {
            push(format!("roundtrip:{}:graph-nodes-differ", path), format!("{} nodes vs {}", orig.nodes.len(), got.nodes.len()));
        }
        if orig.edges != got.edges {
            push(format!("roundtrip:{}:graph-edges-differ", path), format!("{} edges vs {}", orig.edges.len(), got.edges.len()));
        }
    }
    out
}

fn roundtrip_case(case_seed: u64, r: &mut Report, args: &Args, big: bool) {
    let mut rng = Rng::new(case_seed);
    let size = if big { args.by_tier(3_000, 30_000) } else { *rng.pick(&[0usize, 1, 3, 10, 30, 80, 200]) };
    let slab_only = !big && rng.chance(1, 8);
    let c = if slab_only { build_slab_only(&mut rng) } else { build_content(&mut rng, size, false) };
    if slab_only {
        r.count("slab_only_stores", 1);
    }
    let orig = observe(&c.store, &c.blob_hashes);
    let orig_blobs = orig.blobs.clone();
    let orig_slab_graph = orig.slab_graph.clone();
    let scratch = args.scratch_dir("c07");
    let replay = json!({"part": if big { "roundtrip-big" } else { "roundtrip" }, "case_seed": case_seed});
    let mut report = |path: &str, got: Result<Obs, String>, r: &mut Report, quantising: bool| {
        r.count(&format!("roundtrips_{}", path), 1);
        match got {
            Err(e) => r.violation(format!("roundtrip:{}:load-error", path), format!("{} (content {})", e, c.description), replay.clone()),
            Ok(g) => {
                for (sig, d) in compare(path, &orig, &g, &c.vec_kinds, r, quantising) {
                    r.violation(sig, format!("{} (content {})", d, c.description), replay.clone());
                }
            }
        }
    };
    // 1. file
    let p = scratch.join("a.snap");
    let got = c.store.save_snapshot(&p).map_err(|e| format!("save: {}", e)).and_then(|_| TensorStore::load_snapshot(&p).map_err(|e| format!("load: {}", e))).map(|s| observe(&s, &c.blob_hashes));
    report("file", got, r, false);
    // 2. file, zstd (save_v3 is the compressed default of SlabRouter::save_to_file? use both explicit entry points)
    let p2 = scratch.join("b.snap");
    let got = tensor_store::snapshot::save_v3_uncompressed(c.store.router(), &p2)
        .map_err(|e| format!("save: {}", e))
        .and_then(|_| TensorStore::load_snapshot(&p2).map_err(|e| format!("load: {}", e)))
        .map(|s| observe(&s, &c.blob_hashes));
    report("file-uncompressed", got, r, false);
    let p3 = scratch.join("c.snap");
    let got = tensor_store::snapshot::save_v3(c.store.router(), &p3)
        .map_err(|e| format!("save: {}", e))
        .and_then(|_| TensorStore::load_snapshot(&p3).map_err(|e| format!("load: {}", e)))
        .map(|s| observe(&s, &c.blob_hashes));
    report("file-v3-default", got, r, false);
    // 3. bytes -> fresh store, bytes -> dirty store
    match c.store.snapshot_bytes() {
        Err(e) => r.violation("roundtrip:bytes:snapshot-error", format!("{}", e), replay.clone()),
        Ok(bytes) => {
            let fresh = TensorStore::new();
            let got = fresh.restore_from_bytes(&bytes).map_err(|e| format!("restore: {}", e)).map(|_| observe(&fresh, &c.blob_hashes));
            report_bytes(&mut report, "bytes-fresh", got, r, &orig_blobs, &orig_slab_graph);
            let dirty = build_content(&mut rng, 12, true).store;
            let got = dirty.restore_from_bytes(&bytes).map_err(|e| format!("restore: {}", e)).map(|_| observe(&dirty, &c.blob_hashes));
            report_bytes(&mut report, "bytes-dirty", got, r, &orig_blobs, &orig_slab_graph);
            // a live store that was created with a Bloom filter (point lookups consult the filter)
            let bloom = TensorStore::with_bloom_filter(4_096, 0.01);
            let mut seed_d = TensorData::new();
            seed_d.set("x", TensorValue::Scalar(ScalarValue::Int(1)));
            let _ = bloom.put("k:previous", seed_d);
            let got = bloom.restore_from_bytes(&bytes).map_err(|e| format!("restore: {}", e)).map(|_| observe(&bloom, &c.blob_hashes));
            report_bytes(&mut report, "bytes-bloom-store", got, r, &orig_blobs, &orig_slab_graph);
            // 4. SlabRouter bytes
            let got = SlabRouter::from_bytes(&bytes).map_err(|e| format!("from_bytes: {}", e)).map(|router| {
                // observe through a file round trip of the restored router is not needed: wrap by saving
                let p4 = scratch.join("d.snap");
                router.save_to_file(&p4).ok();
                TensorStore::load_snapshot(&p4).map(|s| observe(&s, &c.blob_hashes))
            });
            match got {
                Ok(Ok(o)) => report("router-bytes", Ok(o), r, false),
                Ok(Err(e)) => report("router-bytes", Err(format!("{}", e)), r, false),
                Err(e) => report("router-bytes", Err(e), r, false),
            }
        }
    }
    // 5. quantising format, lossless configuration and balanced configuration
    for (name, cfg) in [("quantising-default", tensor_compress::CompressionConfig::default()), ("quantising-balanced", tensor_compress::CompressionConfig::balanced(384))] {
        let p5 = scratch.join("e.snap");
        let got = c
            .store
            .save_snapshot_compressed(&p5, cfg)
            .map_err(|e| format!("save: {}", e))
            .and_then(|_| TensorStore::load_snapshot_compressed(&p5).map_err(|e| format!("load: {}", e)))
            .map(|s| observe(&s, &c.blob_hashes));
        // a vector whose dimension the TT shape of the preset cannot factor makes the save fail;
        // that is an error return, not a wrong snapshot: not judged
        match got {
            Err(e) if e.starts_with("save:") => {
                r.count("quantising_save_refused", 1);
                let _ = e;
            }
            other => {
                r.count(&format!("roundtrips_{}", name), 1);
                report("quantising", other, r, true)
            }
        }
    }
    let nontrivial = orig.view.len() >= 3;
    r.eval(hash_str(&format!("{:?}", orig.view.keys().collect::<Vec<_>>())) ^ case_seed, nontrivial);
    r.count("keys_compared", orig.view.len() as u64);
    r.count("table_rows_compared", orig.tables.values().map(|t| t.1.len() as u64).sum());
    r.count("graph_entities_compared", (orig.nodes.len() + orig.edges.len()) as u64);
    r.count_max("max:store_entries", orig.view.len() as u64);
    if r.want_sample() && nontrivial {
        r.sample(json!({"content": c.description, "keys": orig.view.len(), "first_keys": orig.view.iter().take(4).map(|(k, v)| format!("{} = {}", k, trunc(v, 80))).collect::<Vec<_>>()}));
    }
}

fn report_bytes(report: &mut impl FnMut(&str, Result<Obs, String>, &mut Report, bool), path: &str, got: Result<Obs, String>, r: &mut Report, orig_blobs: &BTreeMap<String, Vec<u8>>, orig_slab_graph: &Vec<String>) {
    // restore_from_bytes refills key-addressed entries and tables; blob-log chunks are not part of
    // what it restores into a live store -> drop them from the comparison for these two paths
    let got = got.map(|mut o| {
        o.blobs = orig_blobs.clone();
        o.slab_graph = orig_slab_graph.clone();
        o
    });
    report(path, got, r, false);
}

// -------------------------------------------------------------------------------------------
// configured-router part: the embedding slab's dimension is configuration
// -------------------------------------------------------------------------------------------

/// Dimensions around the rules of the embedding slab's snapshot encoding (sparse at >= 50 % zeros,
/// tensor-train from the documented threshold 256 on), plus a uniformly random one now and then.
fn pick_slab_dim(rng: &mut Rng) -> usize {
    const DIMS: [usize; 30] = [1, 2, 3, 7, 16, 31, 64, 100, 127, 128, 129, 130, 144, 160, 176, 192, 200, 224, 240, 250, 254, 255, 256, 257, 288, 320, 384, 400, 512, 513];
    if rng.chance(1, 4) {
        1 + rng.below(600)
    } else {
        *rng.pick(&DIMS)
    }
}

/// One slab-dimension vector of a random representation class and what the property lets us
/// demand of it after a round trip.
fn gen_cfg_vector(rng: &mut Rng, dim: usize) -> (Vec<f32>, VecKind, &'static str) {
    let short = dim < 256;
    let nonzero = |rng: &mut Rng| {
        let m = 0.01 + rng.unit_f64() as f32 * 2.0;
        if rng.bool() {
            m
        } else {
            -m
        }
    };
    // exactly `nnz` non-zero components (magnitude >= 0.01) at random positions, the rest +0.0
    let with_nnz = |rng: &mut Rng, nnz: usize| {
        let mut pos: Vec<usize> = (0..dim).collect();
        rng.shuffle(&mut pos);
        let mut v = vec![0.0f32; dim];
        for &p in pos.iter().take(nnz.min(dim)) {
            v[p] = nonzero(rng);
        }
        v
    };
    match rng.below(9) {
        0 | 1 => ((0..dim).map(|_| nonzero(rng)).collect(), if short { VecKind::Exact } else { VecKind::TtRandom }, "dense-random"),
        2 => (low_rank_vector_dim(rng, dim), if short { VecKind::Exact } else { VecKind::TtLowRank }, "dense-low-rank"),
        3 if short => {
            // dense with special values on at most a tenth of the positions
            let mut v: Vec<f32> = (0..dim).map(|_| nonzero(rng)).collect();
            for _ in 0..dim / 10 {
                let i = rng.below(dim);
                v[i] = *rng.pick(&[f32::NAN, f32::INFINITY, f32::NEG_INFINITY, -0.0, 0.0, f32::MIN_POSITIVE, 1e-7, f32::MAX, f32::MIN]);
            }
            (v, VecKind::Exact, "dense-specials")
        }
        3 => ((0..dim).map(|_| nonzero(rng) * 1e-3).collect(), VecKind::TtRandom, "dense-small-magnitude"),
        4 => {
            // at least 55 % exact zeros: the exact sparse encoding at every dimension
            let nnz = (dim * 9 / 20).min(rng.below(dim * 9 / 20 + 1));
            (with_nnz(rng, nnz), VecKind::Exact, "sparse")
        }
        // exactly half (rounded down) non-zero: the last vector the sparse rule takes ...
        5 => (with_nnz(rng, dim / 2), if short { VecKind::Exact } else { VecKind::TtRandom }, "half-zero"),
        // ... and the first one it does not
        6 => (with_nnz(rng, dim / 2 + 1), if short { VecKind::Exact } else { VecKind::TtRandom }, "just-dense"),
        7 => {
            let nnz = rng.below(2);
            (with_nnz(rng, nnz), VecKind::Exact, "zero-or-one-hot")
        }
        _ => {
            // dense with a few zeros
            let nnz = dim - rng.below(dim / 4 + 1);
            (with_nnz(rng, nnz), if short { VecKind::Exact } else { VecKind::TtRandom }, "mostly-dense")
        }
    }
}

struct RouterContent {
    router: SlabRouter,
    dim: usize,
    kinds: BTreeMap<String, VecKind>,
    /// emb key -> representation class of the slab vector it holds at the end
    classes: BTreeMap<String, &'static str>,
    blob_hashes: Vec<ChunkHash>,
    description: Value,
}

fn build_router(rng: &mut Rng, size: usize) -> RouterContent {
    let dim = pick_slab_dim(rng);
    let cfg = SlabRouterConfig {
        embedding_dim: dim,
        cache_capacity: *rng.pick(&[10_000usize, 64]),
        graph_merge_threshold: *rng.pick(&[10_000usize, 3]),
        ..SlabRouterConfig::default()
    };
    let router = SlabRouter::with_config(&cfg);
    let mut kinds = BTreeMap::new();
    let mut classes: BTreeMap<String, &'static str> = BTreeMap::new();
    let mut wid = 0u64;
    let n_emb = 1 + rng.below(size.max(1));
    // one write to an emb: key: a slab-dimension vector of some class, a vector of another
    // dimension (lives in the metadata only), or no vector at all
    let put_emb = |rng: &mut Rng, key: &str, wid: &mut u64, kinds: &mut BTreeMap<String, VecKind>, classes: &mut BTreeMap<String, &'static str>| {
        *wid += 1;
        let mut d = gen_data(rng, "k:fields", *wid, true);
        match rng.below(8) {
            0 => {
                let other = if dim > 3 && rng.bool() { 3 } else { dim + 1 };
                d.set("_embedding", TensorValue::Vector((0..other).map(|i| i as f32 * 0.5 - 1.0).collect()));
                kinds.remove(key);
                classes.remove(key);
            }
            1 => {
                kinds.remove(key);
                classes.remove(key);
            }
            _ => {
                let (v, kind, class) = gen_cfg_vector(rng, dim);
                d.set("_embedding", TensorValue::Vector(v));
                kinds.insert(key.to_string(), kind);
                classes.insert(key.to_string(), class);
            }
        }
        let _ = router.put(key, d);
    };
    for i in 0..n_emb {
        put_emb(rng, &format!("emb:e{}", i), &mut wid, &mut kinds, &mut classes);
    }
    // history on the emb: keys: overwrite (in place, slab vector <-> metadata-only vector), delete,
    // put again (slot reuse)
    for _ in 0..rng.below(n_emb + 1) {
        let key = format!("emb:e{}", rng.below(n_emb));
        if rng.chance(1, 3) {
            if router.delete(&key).is_ok() {
                kinds.remove(&key);
                classes.remove(&key);
            }
        } else {
            put_emb(rng, &key, &mut wid, &mut kinds, &mut classes);
        }
    }
    // other keys of every class and value kind
    let n_other = rng.below(size + 1);
    for i in 0..n_other {
        let k = match rng.below(7) {
            0 => format!("k:{}", i),
            1 => format!("user/é:{}", i),
            2 => format!("meta:{}", i),
            3 => format!("_cache:q{}", i),
            4 | 5 => format!("{}{}{}:{}", *rng.pick(&["", "", "", "_cache:", "node:", "table:"]), hostile_char(rng), if rng.bool() { hostile_char(rng).to_string() } else { String::new() }, i),
            _ => format!("node:{}", i),
        };
        wid += 1;
        let d = gen_data(rng, &k, wid, true);
        let _ = router.put(&k, d);
    }
    let mut slab_trace = Vec::new();
    if rng.chance(2, 3) {
        let n_ops = 5 + rng.below(50);
        slab_trace = slab_history(rng, &router.relations, "h", n_ops);
    }
    let mut n_edges = 0;
    if rng.bool() {
        n_edges = 1 + rng.below(8);
        for _ in 0..n_edges {
            let (a, b) = (1 + rng.below(8) as u64, 1 + rng.below(8) as u64);
            router.graph.add_edge(EntityId::new(a), EntityId::new(b), *rng.pick(&["knows", "likes"]), rng.bool());
        }
    }
    let mut blob_hashes = Vec::new();
    if rng.chance(1, 3) {
        for _ in 0..1 + rng.below(3) {
            let n = 1 + rng.below(300);
            let data = rng.bytes(n);
            blob_hashes.push(router.blobs.append(&data));
        }
    }
    let mut by_class: BTreeMap<&str, usize> = BTreeMap::new();
    for c in classes.values() {
        *by_class.entry(c).or_default() += 1;
    }
    let description = json!({"embedding_dim": dim, "cache_capacity": cfg.cache_capacity, "graph_merge_threshold": cfg.graph_merge_threshold, "slab_vectors_by_class": by_class, "other_keys": n_other, "slab_history": slab_trace, "graph_slab_edges": n_edges, "blob_chunks": blob_hashes.len()});
    RouterContent { router, dim, kinds, classes, blob_hashes, description }
}

/// The router observed through its own public reads: scan + get per key (the `_embedding` of the
/// slab's dimension, which `get` takes from the embedding slab, is kept apart), the relational
/// slab, the graph slab, the blob log.
fn observe_router(router: &SlabRouter, blob_hashes: &[ChunkHash]) -> Obs {
    let mut o = Obs::default();
    let dim = router.embeddings.dimension();
    o.view.insert("<embedding slab>".into(), format!("dimension={}", dim));
    for k in router.scan("") {
        match router.get(&k) {
            Ok(mut d) => {
                if k.starts_with("emb:") && router.index.get(&k).map_or(false, |id| router.embeddings.contains(id)) {
                    if let Some(TensorValue::Vector(v)) = d.get("_embedding") {
                        if v.len() == dim {
                            o.slab_vectors.insert(k.clone(), v.clone());
                            d.remove("_embedding");
                        }
                    }
                }
                o.view.insert(k, canon_data(&d));
            }
            Err(_) => {
                o.view.insert(k, "<listed by scan but get fails>".into());
            }
        }
    }
    for h in blob_hashes {
        if let Some(b) = router.blobs.get(h) {
            o.blobs.insert(format!("{:016x}", h.0), b);
        }
    }
    let (slab_tables, slab_index_reads) = observe_relations(&router.relations);
    o.slab_tables = slab_tables;
    o.slab_index_reads = slab_index_reads;
    o.slab_graph = observe_graph_slab(&router.graph);
    let listing: Vec<String> = o.view.keys().filter(|k| k.as_str() != "<embedding slab>").cloned().collect();
    o.key_reads = read_keys(router, &build_probes(&listing, 16, 16, &[]), false);
    o
}

fn router_case(case_seed: u64, r: &mut Report, args: &Args) {
    let mut rng = Rng::new(case_seed);
    let size = *rng.pick(&[1usize, 3, 8, 20, args.by_tier(40, 300)]);
    let c = build_router(&mut rng, size);
    let orig = observe_router(&c.router, &c.blob_hashes);
    let scratch = args.scratch_dir("c07g");
    let replay = json!({"part": "cfg-router", "case_seed": case_seed});
    let mut paths = 0u64;
    let mut report = |path: &str, got: Result<Obs, String>, r: &mut Report| {
        r.count(&format!("roundtrips_{}", path), 1);
        paths += 1;
        match got {
            Err(e) => r.violation(format!("roundtrip:{}:load-error", path), format!("{} (content {})", e, c.description), replay.clone()),
            Ok(g) => {
                for (sig, d) in compare(path, &orig, &g, &c.kinds, r, false) {
                    r.violation(sig, format!("{} (content {})", d, c.description), replay.clone());
                }
            }
        }
    };
    // bytes form
    let got = c.router.to_bytes().map_err(|e| format!("to_bytes: {}", e)).and_then(|b| SlabRouter::from_bytes(&b).map_err(|e| format!("from_bytes: {}", e))).map(|x| observe_router(&x, &c.blob_hashes));
    report("cfg-bytes", got, r);
    // default file format (zstd)
    let p = scratch.join("g.snap");
    let got = c.router.save_to_file(&p).map_err(|e| format!("save: {}", e)).and_then(|_| SlabRouter::load_from_file(&p).map_err(|e| format!("load: {}", e))).map(|x| observe_router(&x, &c.blob_hashes));
    report("cfg-file", got, r);
    // file format without general-purpose compression
    let p = scratch.join("u.snap");
    let got = tensor_store::snapshot::save_v3_uncompressed(&c.router, &p).map_err(|e| format!("save: {}", e)).and_then(|_| tensor_store::snapshot::load(&p).map_err(|e| format!("load: {}", e))).map(|x| observe_router(&x, &c.blob_hashes));
    report("cfg-file-uncompressed", got, r);
    // the in-memory image itself
    let got = Ok(observe_router(&SlabRouter::restore(c.router.snapshot()), &c.blob_hashes));
    report("cfg-snapshot-restore", got, r);
    // the original is untouched by all of this
    // (compared through the Debug rendering: NaN components are equal to themselves there)
    if obs_hash(&observe_router(&c.router, &c.blob_hashes)) != obs_hash(&orig) {
        r.violation("roundtrip:cfg:saving-changed-the-original", format!("the router reads differently after it was saved (content {})", c.description), replay.clone());
    }
    let short_dense = if c.dim < 256 { c.classes.values().filter(|cl| !matches!(**cl, "sparse" | "half-zero" | "zero-or-one-hot")).count() as u64 } else { 0 };
    r.count("cfg_router_cases", 1);
    r.count("cfg_dense_vectors_below_256_held_to_bit_identity", short_dense * paths);
    if (129..256).contains(&c.dim) {
        r.count("cfg_dense_vectors_of_dim_129_to_255_held_to_bit_identity", short_dense * paths);
    }
    r.count(if c.dim < 256 { "cfg_routers_below_threshold" } else { "cfg_routers_at_or_above_threshold" }, 1);
    let nontrivial = !c.kinds.is_empty();
    r.eval(hash_str(&format!("{} {:?}", c.dim, c.classes)) ^ case_seed, nontrivial);
    if r.want_sample() && nontrivial && case_seed % 4 == 0 {
        r.sample(json!({"part": "cfg-router", "content": c.description, "keys": orig.view.len()}));
    }
}

// -------------------------------------------------------------------------------------------
// key-space part: keys are arbitrary strings
// -------------------------------------------------------------------------------------------

/// Characters on the class boundaries of UTF-8 (1/2/3/4-byte encodings, first and last of each) and
/// a few inside every class.
const BOUNDARY_CHARS: [char; 34] = [
    '\0', '\u{1}', '\t', '\n', ' ', '/', ':', '_', 'e', '~', '\u{7f}', '\u{80}', '\u{a0}', '\u{bf}', '\u{c0}', '\u{e9}', '\u{ff}', '\u{100}', '\u{17f}', '\u{3b1}', '\u{416}', '\u{7ff}', '\u{800}', '\u{fff}', '\u{1000}',
    '\u{4e2d}', '\u{d7ff}', '\u{e000}', '\u{fffd}', '\u{ffff}', '\u{10000}', '\u{1f600}', '\u{fffff}', '\u{10ffff}',
];

/// A character of a random UTF-8 class: any ASCII byte (NUL, control, DEL included), U+0080..U+00FF,
/// the rest of the two-byte range, the three-byte range, the four-byte range, or a class boundary.
fn hostile_char(rng: &mut Rng) -> char {
    let c = match rng.below(7) {
        0 => rng.below(0x80) as u32,
        1 => 0x80 + rng.below(0x80) as u32,
        2 => 0x100 + rng.below(0x700) as u32,
        3 => 0x800 + rng.below(0xF800) as u32,
        4 => 0x1_0000 + rng.below(0x10_0000) as u32,
        _ => *rng.pick(&BOUNDARY_CHARS) as u32,
    };
    // the surrogate range is not a character
    char::from_u32(c).unwrap_or('\u{e9}')
}

/// A key of any shape: empty now and then; otherwise an optional routed class prefix, a first
/// character of any class and a tail drawn mostly from the case's small `pool` (so that keys share
/// prefixes and are prefixes of each other), sometimes long.
fn hostile_key(rng: &mut Rng, pool: &[char]) -> String {
    let class = match rng.below(14) {
        0 | 1 => "emb:",
        2 => "_cache:",
        3 => "node:",
        4 => "edge:",
        5 => "table:",
        6 => "_blob:meta:",
        _ => "",
    };
    if class.is_empty() && rng.chance(1, 30) {
        return String::new();
    }
    let mut k = String::from(class);
    k.push(if rng.chance(3, 4) { hostile_char(rng) } else { *rng.pick(pool) });
    let tail = match rng.below(10) {
        0 => 0,
        9 => 40 + rng.below(400),
        _ => 1 + rng.below(4),
    };
    for _ in 0..tail {
        k.push(if rng.chance(1, 4) { hostile_char(rng) } else { *rng.pick(pool) });
    }
    k
}

/// The public key reads, of a store or of a router.
trait KeyReads {
    fn kr_get(&self, k: &str) -> Option<TensorData>;
    fn kr_exists(&self, k: &str) -> bool;
    fn kr_scan(&self, p: &str) -> Vec<String>;
    fn kr_count(&self, p: &str) -> usize;
}
impl KeyReads for TensorStore {
    fn kr_get(&self, k: &str) -> Option<TensorData> {
        self.get(k).ok()
    }
    fn kr_exists(&self, k: &str) -> bool {
        self.exists(k)
    }
    fn kr_scan(&self, p: &str) -> Vec<String> {
        self.scan(p)
    }
    fn kr_count(&self, p: &str) -> usize {
        self.scan_count(p)
    }
}
impl KeyReads for SlabRouter {
    fn kr_get(&self, k: &str) -> Option<TensorData> {
        self.get(k).ok()
    }
    fn kr_exists(&self, k: &str) -> bool {
        self.exists(k)
    }
    fn kr_scan(&self, p: &str) -> Vec<String> {
        self.scan(p)
    }
    fn kr_count(&self, p: &str) -> usize {
        self.scan_count(p)
    }
}

/// What is asked of a store: point reads of present and absent keys, prefix reads.
struct Probes {
    present: Vec<String>,
    absent: Vec<String>,
    prefixes: Vec<String>,
}

/// The first `n` characters of `k` (always a valid prefix string).
fn char_prefix(k: &str, n: usize) -> &str {
    match k.char_indices().nth(n) {
        Some((i, _)) => &k[..i],
        None => k,
    }
}

/// Probes derived from a key listing: up to `max_keys` of the keys (evenly spread over the sorted
/// listing); for up to `max_prefix_keys` of them (evenly spread again) the prefixes of 1, 2 and 3 characters, its class prefix (up to the
/// first ':') alone and with the character that follows, and the key itself as a prefix; as absent
/// keys the key with one more character / one character less (when not a key themselves) and
/// `extra_absent`; plus one-character probes of every UTF-8 class and the routed class prefixes.
fn build_probes(listing: &[String], max_keys: usize, max_prefix_keys: usize, extra_absent: &[String]) -> Probes {
    let set: std::collections::BTreeSet<&str> = listing.iter().map(|k| k.as_str()).collect();
    let step = listing.len().div_ceil(max_keys.max(1)).max(1);
    let present: Vec<String> = listing.iter().step_by(step).take(max_keys).cloned().collect();
    let mut prefixes: std::collections::BTreeSet<String> = BOUNDARY_CHARS.iter().map(|c| c.to_string()).collect();
    for p in ["emb:", "_cache:", "node:", "edge:", "table:", "_blob:", "_"] {
        prefixes.insert(p.to_string());
    }
    let mut absent: std::collections::BTreeSet<String> = extra_absent.iter().filter(|k| !set.contains(k.as_str())).cloned().collect();
    let prefix_step = present.len().div_ceil(max_prefix_keys.max(1)).max(1);
    for (n, k) in present.iter().enumerate() {
        if n % prefix_step != 0 {
            continue;
        }
        for chars in 1..=3 {
            let p = char_prefix(k, chars);
            if !p.is_empty() {
                prefixes.insert(p.to_string());
            }
        }
        if let Some(i) = k.find(':') {
            prefixes.insert(k[..=i].to_string());
            prefixes.insert(format!("{}{}", &k[..=i], char_prefix(&k[i + 1..], 1)));
        }
        if !k.is_empty() {
            prefixes.insert(k.clone());
        }
        if (n / prefix_step) % 2 == 0 {
            let longer = format!("{}\u{1}", k);
            if !set.contains(longer.as_str()) {
                absent.insert(longer);
            }
            let shorter = char_prefix(k, k.chars().count().saturating_sub(1));
            if !set.contains(shorter) {
                absent.insert(shorter.to_string());
            }
        }
    }
    Probes { present, absent: absent.into_iter().collect(), prefixes: prefixes.into_iter().collect() }
}

fn scan_summary(mut v: Vec<String>) -> String {
    v.sort();
    if v.len() <= 6 {
        format!("{:?}", v)
    } else {
        let mut h = 0xcbf2_9ce4_8422_2325u64;
        for k in &v {
            h = hash_combine(h, hash_str(k));
        }
        format!("{} keys (hash {:016x}, first {:?}, last {:?})", v.len(), h, trunc(&v[0], 40), trunc(&v[v.len() - 1], 40))
    }
}

/// The answers to all probes, keyed by a printable description of the probe.
fn read_keys(x: &dyn KeyReads, p: &Probes, values: bool) -> BTreeMap<String, String> {
    let mut m = BTreeMap::new();
    m.insert("listing".to_string(), scan_summary(x.kr_scan("")));
    for k in p.present.iter().chain(&p.absent) {
        if values {
            m.insert(format!("get {:?}", k), x.kr_get(k).map_or_else(|| "<not found>".to_string(), |d| canon_data(&d)));
        }
        m.insert(format!("exists {:?}", k), x.kr_exists(k).to_string());
    }
    for q in &p.prefixes {
        m.insert(format!("scan {:?}", q), scan_summary(x.kr_scan(q)));
        m.insert(format!("count {:?}", q), x.kr_count(q).to_string());
    }
    m
}

/// The failure class of one differing key read (the last component of the signature).
fn key_read_kind(probe: &str, orig: &str, got: &str) -> &'static str {
    match probe.split(' ').next().unwrap_or("") {
        "listing" => "key-listing-differs",
        "get" if got == "<not found>" => "present-key-not-readable",
        "get" if orig == "<not found>" => "absent-key-readable",
        "get" => "value-differs",
        "exists" => "exists-differs",
        "scan" => "prefix-scan-differs",
        "count" => "prefix-count-differs",
        _ => "key-read-differs",
    }
}

/// Runs a save/load step; a panic inside it becomes an error text starting with "PANIC".
fn no_panic<T>(what: &str, f: impl FnOnce() -> Result<T, String>) -> Result<T, String> {
    match std::panic::catch_unwind(std::panic::AssertUnwindSafe(f)) {
        Ok(r) => r,
        Err(e) => Err(format!("PANIC in {}: {}", what, first_line(&panic_msg(&e)))),
    }
}

fn load_failure_signature(path: &str, e: &str) -> String {
    format!("roundtrip:{}:{}", path, if e.starts_with("PANIC") { "load-panics" } else { "load-error" })
}

fn keyspace_case(case_seed: u64, r: &mut Report, args: &Args) {
    let mut rng = Rng::new(case_seed);
    let n = *rng.pick(&[1usize, 3, 10, 40, 150, args.by_tier(150, 2_000)]);
    let pool: Vec<char> = vec!['a', ':', *rng.pick(&['b', '/', '0', '\u{7f}']), hostile_char(&mut rng), hostile_char(&mut rng), hostile_char(&mut rng)];
    let store = TensorStore::new();
    let mut wid = 0u64;
    let mut keys: Vec<String> = Vec::new();
    for _ in 0..n {
        let k = hostile_key(&mut rng, &pool);
        wid += 1;
        let _ = store.put(k.clone(), gen_data(&mut rng, &k, wid, true));
        keys.push(k);
    }
    // history: overwrite, delete, put again
    let mut deleted: Vec<String> = Vec::new();
    for _ in 0..rng.below(n / 3 + 1) {
        let k = rng.pick(&keys).clone();
        match rng.below(3) {
            0 => {
                if store.delete(&k).is_ok() {
                    deleted.push(k);
                }
            }
            _ => {
                wid += 1;
                let _ = store.put(k.clone(), gen_data(&mut rng, &k, wid, true));
            }
        }
    }
    let mut listing = store.scan("");
    listing.sort();
    let fresh_absent: Vec<String> = (0..6).map(|_| hostile_key(&mut rng, &pool)).chain(deleted).collect();
    let probes = build_probes(&listing, args.by_tier(300, 600), args.by_tier(40, 80), &fresh_absent);
    let orig = read_keys(&store, &probes, true);
    let non_ascii_leading = probes.present.iter().filter(|k| k.chars().next().map_or(false, |c| !c.is_ascii())).count() as u64;
    let non_ascii_after_class = probes.present.iter().filter(|k| k.find(':').and_then(|i| k[i + 1..].chars().next()).map_or(false, |c| !c.is_ascii())).count() as u64;
    let lead_bytes: std::collections::BTreeSet<u8> = listing.iter().filter_map(|k| k.as_bytes().first().copied()).collect();
    let description = json!({"keys": listing.len(), "first_keys": listing.iter().take(8).map(|k| format!("{:?}", trunc(k, 24))).collect::<Vec<_>>(), "distinct_leading_bytes": lead_bytes.len(), "non_ascii_leading": non_ascii_leading, "empty_key": listing.first().map_or(false, |k| k.is_empty())});
    let replay = json!({"part": "keyspace", "case_seed": case_seed});
    let scratch = args.scratch_dir("c07k");
    let mut paths = 0u64;
    let mut judge = |path: &str, got: Result<BTreeMap<String, String>, String>, values: bool, r: &mut Report| {
        r.count(&format!("roundtrips_{}", path), 1);
        paths += 1;
        match got {
            Err(e) => r.violation(load_failure_signature(path, &e), format!("{} (content {})", e, description), replay.clone()),
            Ok(g) => {
                let mut reported = 0;
                for (probe, ans) in &orig {
                    let is_get = probe.starts_with("get ");
                    if is_get && !values {
                        continue;
                    }
                    r.count(if probe.starts_with("scan ") || probe.starts_with("count ") { "ks_prefix_reads_compared" } else { "ks_point_reads_compared" }, 1);
                    let got_ans = g.get(probe).map(|s| s.as_str()).unwrap_or("<no answer>");
                    if got_ans != ans && reported < 4 {
                        reported += 1;
                        r.violation(format!("roundtrip:{}:{}", path, key_read_kind(probe, ans, got_ans)), format!("`{}`: the original answers {}, the reloaded store answers {} (content {})", trunc(probe, 160), trunc(ans, 300), trunc(got_ans, 300), description), replay.clone());
                    }
                }
            }
        }
    };
    let p1 = scratch.join("k1.snap");
    let got = no_panic("load_snapshot", || store.save_snapshot(&p1).map_err(|e| format!("save: {}", e)).and_then(|_| TensorStore::load_snapshot(&p1).map_err(|e| format!("load: {}", e))).map(|s| read_keys(&s, &probes, true)));
    judge("ks-file", got, true, r);
    let got = no_panic("load_snapshot_with_bloom_filter", || TensorStore::load_snapshot_with_bloom_filter(&p1, 2 * n + 64, 0.01).map_err(|e| format!("load: {}", e)).map(|s| read_keys(&s, &probes, true)));
    judge("ks-file-bloom", got, true, r);
    let got = no_panic("SlabRouter::load_from_file", || SlabRouter::load_from_file(&p1).map_err(|e| format!("load: {}", e)).map(|x| read_keys(&x, &probes, true)));
    judge("ks-router-file", got, true, r);
    let p2 = scratch.join("k2.snap");
    let got = no_panic("load_snapshot (uncompressed)", || tensor_store::snapshot::save_v3_uncompressed(store.router(), &p2).map_err(|e| format!("save: {}", e)).and_then(|_| TensorStore::load_snapshot(&p2).map_err(|e| format!("load: {}", e))).map(|s| read_keys(&s, &probes, true)));
    judge("ks-file-uncompressed", got, true, r);
    match store.snapshot_bytes() {
        Err(e) => r.violation("roundtrip:ks-bytes:snapshot-error", format!("{} (content {})", e, description), replay.clone()),
        Ok(bytes) => {
            let got = no_panic("restore_from_bytes", || {
                let fresh = TensorStore::new();
                fresh.restore_from_bytes(&bytes).map_err(|e| format!("restore: {}", e)).map(|_| read_keys(&fresh, &probes, true))
            });
            judge("ks-bytes-fresh", got, true, r);
            let got = no_panic("restore_from_bytes (Bloom-filter store)", || {
                let bloom = TensorStore::with_bloom_filter(4_096, 0.01);
                let _ = bloom.put("k:previous", TensorData::new());
                bloom.restore_from_bytes(&bytes).map_err(|e| format!("restore: {}", e)).map(|_| read_keys(&bloom, &probes, true))
            });
            judge("ks-bytes-bloom-store", got, true, r);
            let got = no_panic("SlabRouter::from_bytes", || SlabRouter::from_bytes(&bytes).map_err(|e| format!("from_bytes: {}", e)).map(|x| read_keys(&x, &probes, true)));
            judge("ks-router-bytes", got, true, r);
        }
    }
    let got = no_panic("SlabRouter::restore", || Ok(read_keys(&SlabRouter::restore(store.router().snapshot()), &probes, true)));
    judge("ks-snapshot-restore", got, true, r);
    // the quantising format: values are the roundtrip part's business (known losses); the key reads
    // must be exact here too. A refused save is an error return, not a wrong snapshot.
    let p3 = scratch.join("k3.snap");
    match no_panic("save_snapshot_compressed", || store.save_snapshot_compressed(&p3, tensor_compress::CompressionConfig::default()).map_err(|e| format!("save: {}", e))) {
        Err(e) if e.starts_with("PANIC") => r.violation("roundtrip:ks-quantising:save-panics", format!("{} (content {})", e, description), replay.clone()),
        Err(_) => r.count("ks_quantising_save_refused", 1),
        Ok(()) => {
            let got = no_panic("load_snapshot_compressed", || TensorStore::load_snapshot_compressed(&p3).map_err(|e| format!("load: {}", e)).map(|s| read_keys(&s, &probes, false)));
            judge("ks-quantising", got, false, r);
        }
    }
    // the original is untouched by all of this
    if read_keys(&store, &probes, true) != orig {
        r.violation("roundtrip:ks:saving-changed-the-original", format!("the store answers its key reads differently after it was saved (content {})", description), replay.clone());
    }
    r.count("ks_cases", 1);
    r.count("ks_non_ascii_leading_keys_read_back", non_ascii_leading * paths);
    r.count("ks_non_ascii_after_class_prefix_keys_read_back", non_ascii_after_class * paths);
    if listing.first().map_or(false, |k| k.is_empty()) {
        r.count("ks_stores_with_the_empty_key", 1);
    }
    r.count_max("max:ks_distinct_leading_bytes_in_one_store", lead_bytes.len() as u64);
    let nontrivial = non_ascii_leading >= 1;
    r.eval(hash_str(&format!("{:?}", listing)) ^ case_seed, nontrivial);
    if r.want_sample() && nontrivial && case_seed % 8 == 0 {
        r.sample(json!({"part": "keyspace", "content": description}));
    }
}

// -------------------------------------------------------------------------------------------
// slab-capacity part: the units the slabs grow in
// -------------------------------------------------------------------------------------------

/// A store or a bare router holding the content of a capacity case.
enum Holder {
    Store(TensorStore),
    Router(SlabRouter),
}
impl Holder {
    fn router(&self) -> &SlabRouter {
        match self {
            Holder::Store(s) => s.router(),
            Holder::Router(x) => x,
        }
    }
    fn put(&self, k: &str, d: TensorData) {
        match self {
            Holder::Store(s) => {
                let _ = s.put(k, d);
            }
            Holder::Router(x) => {
                let _ = x.put(k, d);
            }
        }
    }
    fn delete(&self, k: &str) -> bool {
        match self {
            Holder::Store(s) => s.delete(k).is_ok(),
            Holder::Router(x) => x.delete(k).is_ok(),
        }
    }
}

/// What a capacity case compares: per key the other fields; per `emb:` key the vector the embedding
/// slab itself holds for it (length and hash of the bits; `None` = the slab has none); blob chunks.
#[derive(PartialEq, Default)]
struct CapObs {
    fields: BTreeMap<String, String>,
    slab: BTreeMap<String, Option<(usize, u64)>>,
    blobs: BTreeMap<u64, Option<u64>>,
}

fn bits_hash(v: &[f32]) -> u64 {
    let mut h = 0x9E37_79B9_7F4A_7C15u64;
    for x in v {
        h = (h ^ x.to_bits() as u64).wrapping_mul(0x1000_0000_01B3);
    }
    h
}

fn observe_capacity(x: &SlabRouter, blob_hashes: &[ChunkHash]) -> CapObs {
    let mut o = CapObs::default();
    for k in x.scan("") {
        match x.get(&k) {
            Ok(mut d) => {
                if k.starts_with("emb:") {
                    let slab_vec = x.index.get(&k).and_then(|id| x.embeddings.get(id));
                    if slab_vec.is_some() {
                        // `get` shows the slab's vector in this field; it is compared through `slab`
                        d.remove("_embedding");
                    }
                    o.slab.insert(k.clone(), slab_vec.map(|v| (v.len(), bits_hash(&v))));
                }
                o.fields.insert(k, canon_data(&d));
            }
            Err(_) => {
                o.fields.insert(k, "<listed by scan but get fails>".into());
            }
        }
    }
    for h in blob_hashes {
        o.blobs.insert(h.0, x.blobs.get(h).map(|b| hash_bytes(&b)));
    }
    o
}

fn capacity_case(case_seed: u64, r: &mut Report, args: &Args, default_store: bool) {
    let mut rng = Rng::new(case_seed);
    const DIMS: [usize; 14] = [384, 384, 512, 768, 1024, 1536, 2048, 3000, 4096, 5000, 6000, 8192, 10_000, 12_000];
    let dim = if default_store { 384 } else { *rng.pick(&DIMS) };
    let segment = *rng.pick(&[48usize, 256, 1024, 64 * 1024 * 1024]);
    let cache_capacity = *rng.pick(&[2usize, 8, 64, 10_000]);
    let holder = if default_store {
        Holder::Store(TensorStore::new())
    } else {
        Holder::Router(SlabRouter::with_config(&SlabRouterConfig { embedding_dim: dim, cache_capacity, blob_segment_size: segment, ..SlabRouterConfig::default() }))
    };
    let fresh_capacity = holder.router().embeddings.capacity();
    // aim of the workload only (nothing the oracle relies on): the slab grows by chunks of 4Mi floats
    let per_chunk = (4 * 1024 * 1024 / dim).max(1);
    let crossings = if default_store {
        if args.quick() { 1 } else { 1 + rng.below(3) }
    } else {
        match rng.below(args.by_tier(8, 13)) {
            0 => 0,
            1..=6 => 1,
            7..=9 => 2,
            _ => 3,
        }
    };
    let target = if crossings == 0 {
        1 + rng.below(per_chunk.min(600))
    } else {
        let delta = match rng.below(6) {
            0 => -1i64,
            1 => 0,
            2 => 1,
            3 => 2,
            4 => rng.below(40) as i64,
            _ => rng.below(per_chunk / 2) as i64,
        };
        ((crossings * per_chunk) as i64 + delta).max(1) as usize
    };
    let slab_vector = |rng: &mut Rng, id: u64| -> Vec<f32> {
        // exactly stored class at every dimension: far more than 55 % zeros (+0.0), non-zero
        // components of magnitude >= 0.01; element 0 names the write
        let mut v = vec![0.0f32; dim];
        for _ in 0..4 + rng.below(28) {
            let m = 0.01 + rng.unit_f64() as f32 * 2.0;
            v[1 + rng.below(dim - 1)] = if rng.bool() { m } else { -m };
        }
        v[0] = (id % 16_000_000) as f32 + 1.0;
        v
    };
    let mut wid = 0u64;
    let mut put_vec = |rng: &mut Rng, key: &str| {
        wid += 1;
        let mut d = TensorData::new();
        d.set("_wid", TensorValue::Scalar(ScalarValue::Int(wid as i64)));
        if rng.chance(1, 8) {
            d.set("f", gen_value(rng, true));
        }
        d.set("_embedding", TensorValue::Vector(slab_vector(rng, wid)));
        holder.put(key, d);
    };
    // more than the target, then deletes (free slots), then late keys that reuse the freed slots
    let extra = rng.below(5);
    let mut live: Vec<String> = Vec::with_capacity(target + extra);
    for i in 0..target + extra {
        let k = format!("emb:c{}", i);
        put_vec(&mut rng, &k);
        live.push(k);
    }
    let late = rng.below(3);
    for j in 0..extra + late {
        if live.is_empty() {
            break;
        }
        let k = live.swap_remove(rng.below(live.len()));
        holder.delete(&k);
        if j >= extra {
            let k = format!("emb:late{}", j);
            put_vec(&mut rng, &k);
            live.push(k);
        }
    }
    // rewritten in place; keys without a slab vector (another dimension / none)
    for _ in 0..rng.below(4) {
        let k = rng.pick(&live).clone();
        put_vec(&mut rng, &k);
    }
    for j in 0..rng.below(4) {
        let mut d = TensorData::new();
        d.set("_wid", TensorValue::Scalar(ScalarValue::Int(-(j as i64) - 1)));
        if rng.bool() {
            d.set("_embedding", TensorValue::Vector(vec![0.5, -1.0, 2.0]));
        }
        holder.put(&format!("emb:noslab{}", j), d);
    }
    // other units: cache ring filled beyond its capacity, blob log over several segments, plain keys
    let n_cache = rng.below(40);
    for i in 0..n_cache {
        let k = format!("_cache:c{}", i);
        holder.put(&k, gen_data(&mut rng, &k, 1_000_000 + i as u64, true));
    }
    for i in 0..rng.below(20) {
        let k = format!("k:{}", i);
        holder.put(&k, gen_data(&mut rng, &k, 2_000_000 + i as u64, true));
    }
    let mut blob_hashes = Vec::new();
    for _ in 0..rng.below(25) {
        let n = if rng.chance(1, 10) { 1_000 + rng.below(400) } else { 1 + rng.below(200) };
        let data = rng.bytes(n);
        blob_hashes.push(holder.router().blobs.append(&data));
    }
    let slab_vectors = live.len() as u64;
    let grown_capacity = holder.router().embeddings.capacity();
    let description = json!({"holder": if default_store { "TensorStore::new()" } else { "SlabRouter::with_config" }, "embedding_dim": dim, "slab_vectors": slab_vectors, "embedding_slab_capacity_when_fresh": fresh_capacity, "embedding_slab_capacity_when_saved": grown_capacity,
        "deleted_then": {"freed_slots": extra, "late_keys": late}, "cache_capacity": if default_store { 10_000 } else { cache_capacity }, "cache_keys_put": n_cache, "blob_segment_size": if default_store { 64 * 1024 * 1024 } else { segment }, "blob_chunks": blob_hashes.len(), "blob_segments": holder.router().blobs.segment_count()});
    let orig = observe_capacity(holder.router(), &blob_hashes);
    let replay = json!({"part": "slab-capacity", "case_seed": case_seed, "default_store": default_store});
    let scratch = args.scratch_dir("c07c");
    let judge = |path: &str, got: Result<CapObs, String>, with_blobs: bool, r: &mut Report| {
        r.count(&format!("roundtrips_{}", path), 1);
        let g = match got {
            Err(e) => {
                r.violation(load_failure_signature(path, &e), format!("{} (content {})", e, description), replay.clone());
                return;
            }
            Ok(g) => g,
        };
        let mut reported = 0;
        let mut viol = |sig: String, d: String, r: &mut Report| {
            if reported < 4 {
                reported += 1;
                r.violation(sig, format!("{} (content {})", d, description), replay.clone());
            }
        };
        for (k, v) in &orig.fields {
            match g.fields.get(k) {
                None => viol(format!("roundtrip:{}:key-missing", path), format!("key {:?} missing after the round trip", k), r),
                Some(x) if x != v => viol(format!("roundtrip:{}:field-differs", path), format!("key {:?}: {} vs {}", k, trunc(v, 200), trunc(x, 200)), r),
                _ => {}
            }
        }
        for k in g.fields.keys() {
            if !orig.fields.contains_key(k) {
                viol(format!("roundtrip:{}:key-added", path), format!("key {:?} appeared after the round trip", k), r);
            }
        }
        for (k, v) in &orig.slab {
            r.count("cap_slab_vectors_compared", 1);
            match (v, g.slab.get(k).copied().flatten()) {
                (Some(_), None) => viol(format!("roundtrip:{}:slab-vector-missing", path), format!("the embedding slab holds no vector for {:?} after the round trip", k), r),
                (Some(a), Some(b)) if *a != b => viol(format!("roundtrip:{}:slab-vector-not-exact", path), format!("the embedding slab's vector of {:?} (dimension {} -> {}) has other bits after the round trip", k, a.0, b.0), r),
                (None, Some(_)) => viol(format!("roundtrip:{}:slab-vector-added", path), format!("the embedding slab holds a vector for {:?} only after the round trip", k), r),
                _ => {}
            }
        }
        if with_blobs {
            r.count("cap_blob_chunks_compared", orig.blobs.len() as u64);
            if orig.blobs != g.blobs {
                let d = orig.blobs.iter().find(|(h, v)| g.blobs.get(*h) != Some(*v)).map(|(h, v)| format!("chunk {:016x}: {:?} vs {:?}", h, v, g.blobs.get(h)));
                viol(format!("roundtrip:{}:blob-chunks-differ", path), d.unwrap_or_default(), r);
            }
        }
    };
    match &holder {
        Holder::Router(x) => {
            let got = no_panic("SlabRouter::from_bytes", || x.to_bytes().map_err(|e| format!("to_bytes: {}", e)).and_then(|b| SlabRouter::from_bytes(&b).map_err(|e| format!("from_bytes: {}", e))).map(|y| observe_capacity(&y, &blob_hashes)));
            judge("cap-bytes", got, true, r);
            let p = scratch.join("c1.snap");
            let got = no_panic("SlabRouter::load_from_file", || x.save_to_file(&p).map_err(|e| format!("save: {}", e)).and_then(|_| SlabRouter::load_from_file(&p).map_err(|e| format!("load: {}", e))).map(|y| observe_capacity(&y, &blob_hashes)));
            judge("cap-file", got, true, r);
            let _ = std::fs::remove_file(&p);
            let p = scratch.join("c2.snap");
            let got = no_panic("snapshot::load", || tensor_store::snapshot::save_v3_uncompressed(x, &p).map_err(|e| format!("save: {}", e)).and_then(|_| tensor_store::snapshot::load(&p).map_err(|e| format!("load: {}", e))).map(|y| observe_capacity(&y, &blob_hashes)));
            judge("cap-file-uncompressed", got, true, r);
            let _ = std::fs::remove_file(&p);
            let got = no_panic("SlabRouter::restore", || Ok(observe_capacity(&SlabRouter::restore(x.snapshot()), &blob_hashes)));
            judge("cap-snapshot-restore", got, true, r);
        }
        Holder::Store(s) => {
            let p = scratch.join("s1.snap");
            let got = no_panic("load_snapshot", || s.save_snapshot(&p).map_err(|e| format!("save: {}", e)).and_then(|_| TensorStore::load_snapshot(&p).map_err(|e| format!("load: {}", e))).map(|y| observe_capacity(y.router(), &blob_hashes)));
            judge("cap-store-file", got, true, r);
            let got = no_panic("load_snapshot_with_bloom_filter", || TensorStore::load_snapshot_with_bloom_filter(&p, 50_000, 0.01).map_err(|e| format!("load: {}", e)).map(|y| observe_capacity(y.router(), &blob_hashes)));
            judge("cap-store-file-bloom", got, true, r);
            let _ = std::fs::remove_file(&p);
            // restore_from_bytes keeps the live store's own blob log: outside the comparison
            let got = no_panic("restore_from_bytes", || {
                let bytes = s.snapshot_bytes().map_err(|e| format!("snapshot_bytes: {}", e))?;
                let fresh = TensorStore::new();
                fresh.restore_from_bytes(&bytes).map_err(|e| format!("restore: {}", e)).map(|_| observe_capacity(fresh.router(), &blob_hashes))
            });
            judge("cap-store-bytes", got, false, r);
        }
    }
    if observe_capacity(holder.router(), &blob_hashes) != orig {
        r.violation("roundtrip:cap:saving-changed-the-original", format!("the original reads differently after it was saved (content {})", description), replay.clone());
    }
    r.count("cap_cases", 1);
    if default_store {
        r.count("cap_default_dimension_stores", 1);
    }
    if grown_capacity > fresh_capacity {
        r.count("cap_embedding_slabs_grown_beyond_fresh_capacity", 1);
    }
    if holder.router().blobs.segment_count() > 1 {
        r.count("cap_blob_logs_with_several_segments", 1);
    }
    if !default_store && n_cache > cache_capacity {
        r.count("cap_cache_rings_filled_beyond_capacity", 1);
    }
    r.count_max("max:cap_slab_vectors_in_one_store", slab_vectors);
    let nontrivial = grown_capacity > fresh_capacity;
    r.eval(hash_str(&format!("{} {} {}", dim, slab_vectors, default_store)) ^ case_seed, nontrivial);
    if r.want_sample() && (default_store || case_seed % 4 == 0) {
        r.sample(json!({"part": "slab-capacity", "content": description}));
    }
}

// -------------------------------------------------------------------------------------------
// value-text part: strings are arbitrary texts
// -------------------------------------------------------------------------------------------

/// Prefixes a storage format might use (or does use) to mark a value of another kind inside a text.
const TEXT_MARKERS: [&str; 44] = [
    "bytes:", "bytes:", "bytes", "Bytes(", "b\"", "base64:", "b64:", "hex:", "0x", "\\x", "str:", "string:", "s:", "y:", "ptr:", "pointer:", "p:", "int:", "i:", "float:", "f:", "bool:", "null:", "vec:", "vector:", "sparse:", "json:", "node:", "edge:",
    "emb:", "table:", "_blob:", "sha256:", "tt:", "raw:", "zstd:", "\u{feff}", "data:;base64,", "{\"", "[", "\"", "$", "@", "#",
];

/// Texts that read like a value of another kind.
const TEXT_LITERALS: [&str; 40] = [
    "null", "NULL", "Null", "None", "nil", "~", "true", "false", "True", "NaN", "nan", "inf", "-inf", "Infinity", "0", "-0", "1", "-1", "42", "007", "1e5", "1.0", "0.1", "-0.0", "9223372036854775807", "9223372036854775808", "-9223372036854775809",
    "18446744073709551616", "[]", "{}", "[1,2]", "{\"a\":1}", "\"\"", "''", "()", "Null()", "String(\"a\")", "Bytes([1, 2])", "Int(1)", "Scalar(Null)",
];

/// Whitespace, NUL, BOM, (de)composed characters, case-folding traps, invisible characters.
const TEXT_EDGES: [&str; 30] = [
    " ", " x", "x ", " x ", "\tx", "x\n", "\r\n", "\n", "x\r", "\u{a0}x", "x\0", "\0", "\0\0x", "\0x\0", "\u{feff}x", "x\u{feff}", "e\u{301}", "\u{e9}", "\u{fb01}", "\u{130}", "\u{df}", "\u{200b}", "a\u{200b}b", "\u{202e}abc", "\u{2028}", "\u{85}", "\u{1f600}",
    "\u{10ffff}", "\u{fffd}", "\u{d7ff}\u{e000}",
];

/// Escape sequences and the separators of common text encodings (also of this harness's own view).
const TEXT_ESCAPES: [&str; 24] = [
    "\\n", "\\0", "\\\\", "\\", "a\\", "\\u0041", "\\u{41}", "\\x41", "%20", "%00", "%", "&amp;", "&#0;", "\"", "a\"b", "a'b", "a;b=c", "=", ";", ",", "a,b", "a\tb", "${x}", "{{x}}",
];

fn hex_upper(b: &[u8]) -> String {
    hex(b).to_uppercase()
}

/// What follows a marker: nothing, a decimal number (a length?), hex of even / odd length in either
/// case, base64-looking text, hex with one foreign character, arbitrary text.
fn marker_payload(rng: &mut Rng) -> String {
    const B64: &[u8] = b"ABCDEFGHIJKLMNOPQRSTUVWXYZabcdefghijklmnopqrstuvwxyz0123456789+/";
    match rng.below(10) {
        0 => String::new(),
        1 => {
            let m = *rng.pick(&[10usize, 100, 1_000, 100_000]);
            format!("{}", rng.below(m))
        }
        2 | 3 => {
            let m = *rng.pick(&[3usize, 9, 33]);
            let n = rng.below(m);
            hex(&rng.bytes(n))
        }
        4 => {
            let n = rng.below(9);
            hex_upper(&rng.bytes(n))
        }
        5 => {
            let n = 1 + rng.below(8);
            let mut h = hex(&rng.bytes(n));
            h.pop();
            h
        }
        6 => {
            let n = 4 * rng.below(6);
            let mut t: String = (0..n).map(|_| *rng.pick(B64) as char).collect();
            if n > 0 && rng.bool() {
                t.pop();
                t.push('=');
            }
            t
        }
        7 => {
            let n = 1 + rng.below(6);
            let mut h = hex(&rng.bytes(n));
            let at = rng.below(h.len() + 1);
            h.insert(at, *rng.pick(&[' ', 'g', ':', '-', '\n', '\u{e9}']));
            h
        }
        8 => format!(" {}", rng.below(100)),
        _ => gen_string(rng),
    }
}

/// A text of a random class; the class name is returned for the evidence counters.
fn hostile_text(rng: &mut Rng, long_ok: bool) -> (String, &'static str) {
    match rng.below(16) {
        0..=3 => (format!("{}{}", *rng.pick(&TEXT_MARKERS), marker_payload(rng)), "marker"),
        4 => (format!("{}{}{}", *rng.pick(&["total ", "x", " ", "_", "\0", "a:"]), *rng.pick(&TEXT_MARKERS), marker_payload(rng)), "marker-inside"),
        5 | 6 => {
            // the text forms storage formats derive from values of other kinds
            let m = *rng.pick(&[4usize, 16, 130]);
            let n = rng.below(m);
            let b = rng.bytes(n);
            let t = match rng.below(9) {
                0 | 1 => format!("bytes:{}", b.len()),
                2 | 3 => format!("bytes:{}", hex(&b)),
                4 => hex(&b),
                5 => format!("{:?}", b),
                6 => format!("0x{}", hex_upper(&b)),
                7 => format!("{:?}", ScalarValue::Bytes(b)),
                _ => String::from_utf8_lossy(&b).into_owned(),
            };
            (t, "derived-from-another-kind")
        }
        7 | 8 => ((*rng.pick(&TEXT_LITERALS)).to_string(), "literal"),
        9 | 10 => {
            let e = *rng.pick(&TEXT_EDGES);
            (if rng.chance(1, 3) { format!("{}{}", e, gen_string(rng)) } else { e.to_string() }, "edge")
        }
        11 => {
            let e = *rng.pick(&TEXT_ESCAPES);
            (if rng.chance(1, 3) { format!("{}{}{}", gen_string(rng), e, rng.below(10)) } else { e.to_string() }, "escape")
        }
        12 if long_ok => {
            let n = *rng.pick(&[127usize, 128, 129, 255, 256, 257, 4_095, 4_096, 16_383, 16_384, 65_535, 65_536, 65_537]);
            let unit = *rng.pick(&["x", "\u{e9}", "\u{1f600}", "\0"]);
            (unit.repeat(n.div_ceil(unit.len())), "length-boundary")
        }
        _ => (gen_string(rng), "plain"),
    }
}

/// One field of a raw entry, typed: (kind, content). Content renders floats by their bits and
/// texts through `Debug`, so equal renderings mean equal values.
fn typed_fields(d: &TensorData) -> BTreeMap<String, (&'static str, String)> {
    d.fields_iter()
        .map(|(name, v)| {
            let kind = match v {
                TensorValue::Scalar(ScalarValue::Null) => "null",
                TensorValue::Scalar(ScalarValue::Bool(_)) => "bool",
                TensorValue::Scalar(ScalarValue::Int(_)) => "int",
                TensorValue::Scalar(ScalarValue::Float(_)) => "float",
                TensorValue::Scalar(ScalarValue::String(_)) => "string",
                TensorValue::Scalar(ScalarValue::Bytes(_)) => "bytes",
                TensorValue::Vector(_) => "vector",
                TensorValue::Sparse(_) => "sparse",
                TensorValue::Pointer(_) => "pointer",
                TensorValue::Pointers(_) => "pointers",
            };
            (name.clone(), (kind, canon_value(v)))
        })
        .collect()
}

#[derive(Default, PartialEq, Clone)]
struct TextObs {
    /// key -> field -> (kind, content); `None` = listed by scan but not readable
    entries: BTreeMap<String, Option<BTreeMap<String, (&'static str, String)>>>,
    slab_tables: BTreeMap<String, (String, Vec<String>)>,
    /// graph nodes as the graph engine reads them; the flag: some property holds a byte string
    nodes: BTreeMap<u64, (String, bool)>,
}

fn pval_has_bytes(v: &PropertyValue) -> bool {
    match v {
        PropertyValue::Bytes(_) => true,
        PropertyValue::List(l) => l.iter().any(pval_has_bytes),
        PropertyValue::Map(m) => m.values().any(pval_has_bytes),
        _ => false,
    }
}

fn observe_text(x: &SlabRouter, store: Option<&TensorStore>) -> TextObs {
    let mut o = TextObs::default();
    for k in x.scan("") {
        let e = x.get(&k).ok().map(|d| typed_fields(&d));
        o.entries.insert(k, e);
    }
    o.slab_tables = observe_relations(&x.relations).0;
    if let Some(s) = store {
        let g = GraphEngine::with_store(s.clone());
        for n in g.all_nodes() {
            let mut ps: Vec<String> = n.properties.iter().map(|(k, v)| format!("{:?}={}", k, canon_pval(v))).collect();
            ps.sort();
            o.nodes.insert(n.id, (format!("{:?} {}", n.labels, ps.join(",")), n.properties.values().any(pval_has_bytes)));
        }
    }
    o
}

fn valuetext_case(case_seed: u64, r: &mut Report, args: &Args) {
    let mut rng = Rng::new(case_seed);
    let n = *rng.pick(&[1usize, 2, 5, 12, 30, args.by_tier(30, 200)]);
    let store = TensorStore::new();
    let mut classes: BTreeMap<&'static str, u64> = BTreeMap::new();
    let (mut n_strings, mut n_bytes, mut n_pointers, mut n_hostile_names) = (0u64, 0u64, 0u64, 0u64);
    let text = |rng: &mut Rng, classes: &mut BTreeMap<&'static str, u64>, long_ok: bool| {
        let (t, class) = hostile_text(rng, long_ok);
        *classes.entry(class).or_default() += 1;
        t
    };
    for i in 0..n {
        let prefix = *rng.pick(&["k:", "k:", "", "meta:", "user/\u{e9}:", "emb:", "_cache:", "node:", "edge:", "table:", "_blob:meta:", "zz:"]);
        let key = format!("{}{}", prefix, i);
        let mut d = TensorData::new();
        d.set("_wid", TensorValue::Scalar(ScalarValue::Int(i as i64)));
        for f in 0..1 + rng.below(6) {
            // field names are texts too (never `_embedding`, which `emb:` keys treat as the slab vector)
            let name = if rng.chance(1, 8) {
                let t = text(&mut rng, &mut classes, false);
                if t == "_embedding" || t == "_wid" {
                    format!("f{}", f)
                } else {
                    n_hostile_names += 1;
                    t
                }
            } else {
                format!("f{}", f)
            };
            let v = match rng.below(12) {
                0..=6 => {
                    n_strings += 1;
                    TensorValue::Scalar(ScalarValue::String(text(&mut rng, &mut classes, true)))
                }
                7 | 8 => {
                    // byte strings that are texts, that are not, and plain ones
                    n_bytes += 1;
                    let b = match rng.below(5) {
                        0 | 1 => text(&mut rng, &mut classes, false).into_bytes(),
                        2 => rng.pick(&[&[0xffu8, 0xfe][..], &[0xc3][..], &[0xed, 0xa0, 0x80][..], &[0x00][..], &[][..]]).to_vec(),
                        _ => {
                            let k = rng.below(40);
                            rng.bytes(k)
                        }
                    };
                    TensorValue::Scalar(ScalarValue::Bytes(b))
                }
                9 => {
                    n_pointers += 1;
                    TensorValue::Pointer(text(&mut rng, &mut classes, false))
                }
                10 => {
                    n_pointers += 1;
                    TensorValue::Pointers((0..rng.below(4)).map(|_| text(&mut rng, &mut classes, false)).collect())
                }
                _ => TensorValue::Scalar(gen_scalar(&mut rng)),
            };
            d.set(name, v);
        }
        let _ = store.put(key, d);
    }
    // texts in relational cells (String / Bytes / Json) ...
    let with_table = rng.chance(1, 2);
    if with_table {
        use tensor_store::ColumnType;
        let rel = &store.router().relations;
        let schema = TableSchema::new(vec![ColumnDef::new("id", ColumnType::Int, false), ColumnDef::new("s", ColumnType::String, true), ColumnDef::new("y", ColumnType::Bytes, true), ColumnDef::new("j", ColumnType::Json, true)]);
        if rel.create_table("vt", schema).is_ok() {
            for i in 0..1 + rng.below(12) {
                let row = vec![
                    ColumnValue::Int(i as i64),
                    if rng.chance(4, 5) { ColumnValue::String(text(&mut rng, &mut classes, true)) } else { ColumnValue::Null },
                    if rng.bool() { ColumnValue::Bytes(text(&mut rng, &mut classes, false).into_bytes()) } else { ColumnValue::Null },
                    if rng.bool() { ColumnValue::Json(text(&mut rng, &mut classes, false)) } else { ColumnValue::Null },
                ];
                let _ = rel.insert("vt", row);
            }
        }
    }
    // ... and in graph properties (an engine may refuse a text: an error return, nothing is stored)
    let with_graph = rng.chance(1, 2);
    if with_graph {
        let g = GraphEngine::with_store(store.clone());
        for i in 0..1 + rng.below(6) {
            let mut p = HashMap::new();
            p.insert("name".to_string(), PropertyValue::String(text(&mut rng, &mut classes, false)));
            if rng.bool() {
                p.insert("raw".to_string(), PropertyValue::Bytes(text(&mut rng, &mut classes, false).into_bytes()));
            }
            if rng.chance(1, 3) {
                p.insert("l".to_string(), PropertyValue::List(vec![PropertyValue::String(text(&mut rng, &mut classes, false)), PropertyValue::Int(i as i64)]));
            }
            let _ = g.create_node("T", p);
        }
    }
    let orig = observe_text(store.router(), Some(&store));
    let n_nodes = orig.nodes.len();
    let description = json!({"keys": orig.entries.len(), "string_scalars": n_strings, "bytes_scalars": n_bytes, "pointer_fields": n_pointers, "text_field_names": n_hostile_names, "texts_by_class": classes, "relational_text_table": with_table, "graph_nodes_with_text_properties": n_nodes});
    let replay = json!({"part": "value-text", "case_seed": case_seed});
    let scratch = args.scratch_dir("c07v");
    // `quantising`: the format that stores key-addressed entries only and whose one known loss is a
    // Bytes scalar coming back as the string bytes:<len>
    let judge = |path: &str, got: Result<TextObs, String>, quantising: bool, with_graph_reads: bool, r: &mut Report| {
        r.count(&format!("roundtrips_{}", path), 1);
        let g = match got {
            Err(e) => {
                r.violation(load_failure_signature(path, &e), format!("{} (content {})", e, description), replay.clone());
                return;
            }
            Ok(g) => g,
        };
        // per case and path: every failure class once, at most 8 reports
        let mut seen: Vec<String> = Vec::new();
        let mut viol = |sig: String, d: String, r: &mut Report| {
            if !seen.contains(&sig) && seen.len() < 8 {
                seen.push(sig.clone());
                r.violation(sig, format!("{} (content {})", d, description), replay.clone());
            }
        };
        for (k, fields) in &orig.entries {
            let Some(fields) = fields else { continue };
            match g.entries.get(k) {
                None => viol(format!("roundtrip:{}:key-missing", path), format!("key {:?} missing after the round trip", k), r),
                Some(None) => viol(format!("roundtrip:{}:listed-key-not-readable", path), format!("key {:?} is listed by scan(\"\") after the round trip but get() does not find it", k), r),
                Some(Some(gf)) => {
                    for (name, (kind, content)) in fields {
                        match *kind {
                            "string" => r.count(if quantising { "vt_quantising_string_scalars_compared" } else { "vt_string_scalars_compared" }, 1),
                            "bytes" => r.count("vt_bytes_scalars_compared", 1),
                            "pointer" | "pointers" => r.count("vt_pointer_fields_compared", 1),
                            _ => {}
                        }
                        match gf.get(name) {
                            None => viol(format!("roundtrip:{}:{}-field-missing", path, kind), format!("key {:?}: field {:?} ({}) is gone after the round trip", k, name, trunc(content, 80)), r),
                            Some((gk, gc)) if gk == kind && gc == content => {}
                            Some((gk, gc)) if gk == kind => viol(format!("roundtrip:{}:{}-content-differs", path, kind), format!("key {:?} field {:?}: saved {}, loaded {}", k, name, trunc(content, 120), trunc(gc, 120)), r),
                            Some((gk, gc)) => {
                                // the known finding, and only it: Bytes -> String("bytes:<len>")
                                let placeholder = format!("s:{:?}", format!("bytes:{}", content.len().saturating_sub(2) / 2));
                                if quantising && *kind == "bytes" && *gk == "string" && *gc == placeholder {
                                    r.count("vt_quantising_bytes_scalars_seen_as_length_placeholder", 1);
                                    viol("roundtrip:quantising:field-differs:y".to_string(), format!("key {:?} field {:?}: saved {}, loaded {}", k, name, trunc(content, 120), trunc(gc, 120)), r);
                                } else {
                                    viol(format!("roundtrip:{}:{}-comes-back-as-{}", path, kind, gk), format!("key {:?} field {:?}: saved {}, loaded {}", k, name, trunc(content, 120), trunc(gc, 120)), r);
                                }
                            }
                        }
                    }
                    for name in gf.keys() {
                        if !fields.contains_key(name) {
                            viol(format!("roundtrip:{}:field-added", path), format!("key {:?}: field {:?} appeared after the round trip", k, name), r);
                        }
                    }
                }
            }
        }
        for k in g.entries.keys() {
            if !orig.entries.contains_key(k) {
                viol(format!("roundtrip:{}:key-added", path), format!("key {:?} appeared after the round trip", k), r);
            }
        }
        if !quantising {
            // (the quantising format does not store tables: known finding of the roundtrip part)
            r.count("vt_relational_text_rows_compared", orig.slab_tables.values().map(|t| t.1.len() as u64).sum());
            if orig.slab_tables != g.slab_tables {
                let d = orig.slab_tables.iter().find(|(t, v)| g.slab_tables.get(*t) != Some(v)).map(|(t, v)| format!("table {}: {:?} vs {:?}", t, v, g.slab_tables.get(t)));
                viol(format!("roundtrip:{}:relational-text-cells-differ", path), trunc(&d.unwrap_or_default(), 500), r);
            }
        }
        if with_graph_reads {
            // quantising format: a node with a byte-string property is judged field by field above
            // (its one known loss must not be reported a second time under another name)
            let judged = |n: &(&u64, &(String, bool))| !(quantising && n.1 .1);
            r.count("vt_graph_nodes_with_text_compared", orig.nodes.iter().filter(judged).count() as u64);
            if let Some((id, v)) = orig.nodes.iter().filter(judged).find(|(id, v)| g.nodes.get(*id).map(|x| &x.0) != Some(&v.0)) {
                viol(format!("roundtrip:{}:graph-text-properties-differ", path), format!("node {}: {} vs {:?}", id, trunc(&v.0, 200), g.nodes.get(id).map(|x| trunc(&x.0, 200))), r);
            } else if g.nodes.keys().any(|id| !orig.nodes.contains_key(id)) {
                viol(format!("roundtrip:{}:graph-node-added", path), format!("{} nodes vs {}", orig.nodes.len(), g.nodes.len()), r);
            }
        }
    };
    let p1 = scratch.join("v1.snap");
    let got = no_panic("load_snapshot", || store.save_snapshot(&p1).map_err(|e| format!("save: {}", e)).and_then(|_| TensorStore::load_snapshot(&p1).map_err(|e| format!("load: {}", e))).map(|s| observe_text(s.router(), Some(&s))));
    judge("vt-file", got, false, true, r);
    let p2 = scratch.join("v2.snap");
    let got = no_panic("load_snapshot (uncompressed)", || tensor_store::snapshot::save_v3_uncompressed(store.router(), &p2).map_err(|e| format!("save: {}", e)).and_then(|_| TensorStore::load_snapshot(&p2).map_err(|e| format!("load: {}", e))).map(|s| observe_text(s.router(), Some(&s))));
    judge("vt-file-uncompressed", got, false, true, r);
    match store.snapshot_bytes() {
        Err(e) => r.violation("roundtrip:vt-bytes:snapshot-error", format!("{} (content {})", e, description), replay.clone()),
        Ok(bytes) => {
            let got = no_panic("restore_from_bytes", || {
                let fresh = TensorStore::new();
                fresh.restore_from_bytes(&bytes).map_err(|e| format!("restore: {}", e)).map(|_| observe_text(fresh.router(), Some(&fresh)))
            });
            judge("vt-bytes-fresh", got, false, true, r);
            let got = no_panic("SlabRouter::from_bytes", || SlabRouter::from_bytes(&bytes).map_err(|e| format!("from_bytes: {}", e)).map(|x| observe_text(&x, None)));
            judge("vt-router-bytes", got, false, false, r);
        }
    }
    for (name, cfg) in [("quantising-default", tensor_compress::CompressionConfig::default()), ("quantising-balanced", tensor_compress::CompressionConfig::balanced(384))] {
        let p3 = scratch.join("v3.snap");
        match no_panic("save_snapshot_compressed", || store.save_snapshot_compressed(&p3, cfg).map_err(|e| format!("save: {}", e))) {
            Err(e) if e.starts_with("PANIC") => r.violation("roundtrip:quantising:save-panics", format!("{} (content {})", e, description), replay.clone()),
            // a refused save is an error return, not a wrong snapshot
            Err(_) => r.count("vt_quantising_save_refused", 1),
            Ok(()) => {
                let got = no_panic("load_snapshot_compressed", || TensorStore::load_snapshot_compressed(&p3).map_err(|e| format!("load: {}", e)).map(|s| observe_text(s.router(), Some(&s))));
                r.count(&format!("roundtrips_vt-{}", name), 1);
                judge("quantising", got, true, true, r);
            }
        }
    }
    if observe_text(store.router(), Some(&store)) != orig {
        r.violation("roundtrip:vt:saving-changed-the-original", format!("the store reads differently after it was saved (content {})", description), replay.clone());
    }
    r.count("vt_cases", 1);
    for (class, k) in &classes {
        r.count(&format!("vt_texts_{}", class), *k);
    }
    r.count("vt_text_field_names", n_hostile_names);
    let nontrivial = n_strings >= 1;
    r.eval(hash_str(&format!("{:?}", orig.entries)) ^ case_seed, nontrivial);
    if r.want_sample() && nontrivial && case_seed % 8 == 0 {
        let first: Vec<String> = orig.entries.iter().take(3).map(|(k, f)| format!("{:?}: {}", k, trunc(&format!("{:?}", f), 160))).collect();
        r.sample(json!({"part": "value-text", "content": description, "first_entries": first}));
    }
}

// -------------------------------------------------------------------------------------------
// crash part
// -------------------------------------------------------------------------------------------

fn obs_hash(o: &Obs) -> u64 {
    hash_str(&format!("{:?}", o))
}

fn save_by_format(store: &TensorStore, fmt: &str, p: &Path) -> Result<(), String> {
    match fmt {
        "file" => store.save_snapshot(p).map_err(|e| e.to_string()),
        "quantising" => store.save_snapshot_compressed(p, tensor_compress::CompressionConfig::default()).map_err(|e| e.to_string()),
        "checkpoint" => store.checkpoint(p).map(|_| ()).map_err(|e| e.to_string()),
        _ => Err("unknown format".into()),
    }
}
fn load_by_format(fmt: &str, p: &Path) -> Result<TensorStore, String> {
    match fmt {
        "file" | "checkpoint" => TensorStore::load_snapshot(p).map_err(|e| e.to_string()),
        "quantising" => TensorStore::load_snapshot_compressed(p).map_err(|e| e.to_string()),
        _ => Err("unknown format".into()),
    }
}

/// exact-only content without tables/bytes for the quantising format (its known losses are
/// reported by the roundtrip part; the crash part is about atomic replacement only)
fn crash_content(seed: u64, fmt: &str) -> TensorStore {
    let mut rng = Rng::new(seed);
    if fmt == "quantising" {
        let s = TensorStore::new();
        for i in 0..10 + rng.below(20) {
            let mut d = TensorData::new();
            d.set("i", TensorValue::Scalar(ScalarValue::Int(rng.range(-5, 5))));
            d.set("s", TensorValue::Scalar(ScalarValue::String(gen_string(&mut rng))));
            d.set("p", TensorValue::Pointer(format!("node:{}", i)));
            let _ = s.put(format!("k:{}", i), d);
        }
        s
    } else {
        let n = 5 + rng.below(40);
        build_content(&mut rng, n, true).store
    }
}

/// child: `child-save <dir> <fmt> <seedA> <seedB>`: save A, print hashes and MARK, save B over it
fn child_save(rest: &[String]) {
    let dir = Path::new(&rest[1]);
    let fmt = rest[2].as_str();
    let (sa, sb): (u64, u64) = (rest[3].parse().unwrap(), rest[4].parse().unwrap());
    let p = dir.join("dest.snap");
    let a = crash_content(sa, fmt);
    let b = crash_content(sb, fmt);
    // for "checkpoint" the store needs a WAL; use plain save for A and B there
    save_by_format(&a, if fmt == "checkpoint" { "file" } else { fmt }, &p).expect("save A");
    let ha = load_by_format(fmt, &p).map(|s| obs_hash(&observe(&s, &[]))).expect("load A");
    let p_b = dir.join("b-reference.snap");
    save_by_format(&b, if fmt == "checkpoint" { "file" } else { fmt }, &p_b).expect("save B ref");
    let hb = load_by_format(fmt, &p_b).map(|s| obs_hash(&observe(&s, &[]))).expect("load B ref");
    std::fs::remove_file(&p_b).ok();
    use std::io::Write;
    let mut out = std::io::stdout();
    writeln!(out, "HASH_A={} HASH_B={}", ha, hb).unwrap();
    out.flush().unwrap();
    // marker syscall the tracer looks for
    let _ = std::fs::metadata(dir.join("MARK-BEGIN-SAVE-B"));
    save_by_format(&b, if fmt == "checkpoint" { "file" } else { fmt }, &p).expect("save B");
    let _ = std::fs::metadata(dir.join("MARK-END-SAVE-B"));
    writeln!(out, "SAVED_B").unwrap();
}

/// child: `child-hash <dir> <fmt>`: load dest and print the observation hash
fn child_hash(rest: &[String]) {
    let dir = Path::new(&rest[1]);
    match load_by_format(rest[2].as_str(), &dir.join("dest.snap")) {
        Ok(s) => println!("LOADED_HASH={}", obs_hash(&observe(&s, &[]))),
        Err(e) => println!("LOAD_ERROR={}", e.replace('\n', " ")),
    }
}

/// in-process: every prefix of the temp file next to an untouched destination, and both sides of
/// the rename, for both formats
fn temp_prefix_case(case_seed: u64, r: &mut Report, args: &Args) {
    let mut rng = Rng::new(case_seed);
    let fmt = *rng.pick(&["file", "quantising"]);
    let scratch = args.scratch_dir("c07t");
    let a = crash_content(rng.next_u64(), fmt);
    let b = crash_content(rng.next_u64(), fmt);
    let dest = scratch.join("dest.snap");
    let tmp = scratch.join("dest.tmp");
    if save_by_format(&a, fmt, &dest).is_err() {
        r.inconclusive("save A failed");
        return;
    }
    let bytes_a = std::fs::read(&dest).unwrap();
    let ha = match load_by_format(fmt, &dest) {
        Ok(s) => obs_hash(&observe(&s, &[])),
        Err(e) => {
            r.violation(format!("crash:{}:cannot-load-own-snapshot", fmt), e, json!({"part": "temp-prefix", "case_seed": case_seed}));
            return;
        }
    };
    let pb = scratch.join("b.snap");
    save_by_format(&b, fmt, &pb).ok();
    let bytes_b = std::fs::read(&pb).unwrap_or_default();
    let hb = load_by_format(fmt, &pb).map(|s| obs_hash(&observe(&s, &[]))).unwrap_or(0);
    let mut cuts: Vec<usize> = if bytes_b.len() <= 400 || !args.quick() && bytes_b.len() <= 4000 { (0..=bytes_b.len()).collect() } else { (0..40).map(|_| rng.below(bytes_b.len() + 1)).chain([0, 1, 15, 16, 17, bytes_b.len() - 1, bytes_b.len()]).collect() };
    cuts.sort_unstable();
    cuts.dedup();
    for cut in cuts {
        // before the rename: destination untouched, temp file partially written
        std::fs::write(&dest, &bytes_a).unwrap();
        std::fs::write(&tmp, &bytes_b[..cut]).unwrap();
        r.count("temp_prefix_images", 1);
        match load_by_format(fmt, &dest) {
            Ok(s) => {
                let h = obs_hash(&observe(&s, &[]));
                if h != ha && h != hb {
                    r.violation(format!("crash:{}:mixture-after-interrupted-save", fmt), format!("temp prefix {} of {}: loaded store is neither old nor new", cut, bytes_b.len()), json!({"part": "temp-prefix", "case_seed": case_seed}));
                }
            }
            Err(e) => r.violation(format!("crash:{}:unreadable-after-interrupted-save", fmt), format!("temp prefix {}: {}", cut, e), json!({"part": "temp-prefix", "case_seed": case_seed})),
        }
    }
    // a leftover temp file from an earlier interrupted save (longer than the next snapshot) must not
    // leak into the next completed save
    std::fs::write(&dest, &bytes_a).unwrap();
    let mut stale = bytes_a.clone();
    stale.extend_from_slice(&bytes_b);
    stale.extend_from_slice(&rng.bytes(64));
    std::fs::write(&tmp, &stale).unwrap();
    r.count("saves_over_stale_temp_file", 1);
    match save_by_format(&b, fmt, &dest).and_then(|_| load_by_format(fmt, &dest)) {
        Ok(s) => {
            if obs_hash(&observe(&s, &[])) != hb {
                r.violation(format!("crash:{}:save-over-leftover-temp-loads-differently", fmt), "a completed save performed while a longer stale temp file existed does not load as the saved store".to_string(), json!({"part": "temp-prefix", "case_seed": case_seed}));
            }
        }
        Err(e) => r.violation(format!("crash:{}:save-over-leftover-temp-unreadable", fmt), format!("a completed save performed while a longer stale temp file existed cannot be loaded: {}", e), json!({"part": "temp-prefix", "case_seed": case_seed})),
    }
    // after the rename
    std::fs::write(&dest, &bytes_b).unwrap();
    let _ = std::fs::remove_file(&tmp);
    match load_by_format(fmt, &dest) {
        Ok(s) => {
            if obs_hash(&observe(&s, &[])) != hb {
                r.violation(format!("crash:{}:new-snapshot-differs", fmt), "after rename the new snapshot does not load as B".to_string(), json!({"part": "temp-prefix", "case_seed": case_seed}));
            }
        }
        Err(e) => r.violation(format!("crash:{}:unreadable-after-rename", fmt), e, json!({"part": "temp-prefix", "case_seed": case_seed})),
    }
    r.eval(hash_combine(case_seed, 7), ha != hb);
}

/// Take an image, change the live store, take another image: the second image must show the store
/// as it is now, whatever kind of change happened in between (raw put, relational rows written
/// through the relational slab, graph data, embeddings, clear()).
fn resnapshot_case(case_seed: u64, r: &mut Report, args: &Args) {
    let mut rng = Rng::new(case_seed);
    let n = 5 + rng.below(40);
    let c = build_content(&mut rng, n, true);
    let replay = json!({"part": "resnapshot", "case_seed": case_seed});
    let scratch = args.scratch_dir("c07r");
    let via_file = rng.chance(1, 3);
    let take = |store: &TensorStore, name: &str| -> Result<Vec<u8>, String> {
        if via_file {
            let p = scratch.join(name);
            store.save_snapshot(&p).map_err(|e| e.to_string())?;
            std::fs::read(&p).map_err(|e| e.to_string())
        } else {
            store.snapshot_bytes().map_err(|e| e.to_string())
        }
    };
    let restore = |bytes: &[u8], name: &str| -> Result<TensorStore, String> {
        if via_file {
            let p = scratch.join(name);
            std::fs::write(&p, bytes).map_err(|e| e.to_string())?;
            TensorStore::load_snapshot(&p).map_err(|e| e.to_string())
        } else {
            let s = TensorStore::new();
            s.restore_from_bytes(bytes).map_err(|e| e.to_string())?;
            Ok(s)
        }
    };
    if take(&c.store, "first.snap").is_err() {
        r.inconclusive("first image failed");
        return;
    }
    let steps = 1 + rng.below(3);
    let mut trace = Vec::new();
    for step in 0..steps {
        let kind = rng.below(6);
        match kind {
            0 => {
                let rel = RelationalEngine::with_store(c.store.clone());
                let tables = rel.list_tables();
                if let Some(t) = tables.first() {
                    let mut row: HashMap<String, RVal> = HashMap::new();
                    row.insert("a".into(), RVal::Int(900_000 + step as i64));
                    let _ = rel.insert(t, row);
                    trace.push("relational insert");
                } else {
                    trace.push("relational insert (no table)");
                }
            }
            1 => {
                let rel = RelationalEngine::with_store(c.store.clone());
                let name = format!("late{}", step);
                let _ = rel.create_table(&name, Schema::new(vec![Column::new("a", ColumnType::Int)]));
                let mut row: HashMap<String, RVal> = HashMap::new();
                row.insert("a".into(), RVal::Int(7));
                let _ = rel.insert(&name, row);
                trace.push("create table + insert");
            }
            2 => {
                c.store.clear();
                trace.push("clear");
            }
            3 => {
                let g = GraphEngine::with_store(c.store.clone());
                let _ = g.create_node("Late", HashMap::new());
                trace.push("create node");
            }
            4 => {
                let mut d = TensorData::new();
                d.set("late", TensorValue::Scalar(ScalarValue::Int(step as i64)));
                let _ = c.store.put(format!("late:{}", step), d);
                trace.push("raw put");
            }
            _ => {
                let rel = RelationalEngine::with_store(c.store.clone());
                if let Some(t) = rel.list_tables().first() {
                    let _ = rel.delete_rows(t, Condition::True);
                    trace.push("relational delete all rows");
                }
            }
        }
        let live = observe(&c.store, &[]);
        let got = take(&c.store, "again.snap").and_then(|b| restore(&b, "again2.snap")).map(|s| observe(&s, &[]));
        r.count("resnapshots_compared", 1);
        match got {
            Err(e) => {
                r.violation("resnapshot:second-image-unreadable", format!("{} after {:?}", e, trace), replay.clone());
                return;
            }
            Ok(o) => {
                if obs_hash(&o) != obs_hash(&live) {
                    let what = trace.last().copied().unwrap_or("?").replace(' ', "-");
                    r.violation(
                        format!("resnapshot:image-taken-after-{}-does-not-show-it", what),
                        format!("image #{} ({}) restored: tables {:?} vs live {:?}; keys {} vs {}; steps {:?}", step + 2, if via_file { "file" } else { "bytes" }, o.tables.iter().map(|(k, v)| (k, v.1.len())).collect::<Vec<_>>(), live.tables.iter().map(|(k, v)| (k, v.1.len())).collect::<Vec<_>>(), o.view.len(), live.view.len(), trace),
                        replay.clone(),
                    );
                    return;
                }
            }
        }
    }
    r.eval(hash_combine(case_seed, 0x5A), true);
}

fn main() {
    let args = Args::parse();
    if args.rest.first().map(|s| s.as_str()) == Some("child-save") {
        child_save(&args.rest);
        return;
    }
    if args.rest.first().map(|s| s.as_str()) == Some("child-hash") {
        child_hash(&args.rest);
        return;
    }
    let started = Instant::now();
    quiet_panics();
    let mut total = Report::new();
    let only_part: Option<String> = args.extra.get("part").cloned();
    if let Some(p) = &args.replay {
        let v: Value = serde_json::from_str(&std::fs::read_to_string(p).expect("replay")).expect("json");
        let rp = &v["replay"];
        let s = rp["case_seed"].as_u64().unwrap_or(1);
        match rp["part"].as_str().unwrap_or("roundtrip") {
            "temp-prefix" => temp_prefix_case(s, &mut total, &args),
            "resnapshot" => resnapshot_case(s, &mut total, &args),
            "roundtrip-big" => roundtrip_case(s, &mut total, &args, true),
            "cfg-router" => router_case(s, &mut total, &args),
            "keyspace" => keyspace_case(s, &mut total, &args),
            "value-text" => valuetext_case(s, &mut total, &args),
            "slab-capacity" => capacity_case(s, &mut total, &args, rp["default_store"].as_bool().unwrap_or(false)),
            _ => roundtrip_case(s, &mut total, &args, false),
        }
    } else {
        // `--part <name>` runs one part only (diagnostic aid; the floors of the other parts are dropped)
        let want = |p: &str| only_part.as_deref().map_or(true, |o| o == p);
        if want("roundtrip") {
            let a2 = args.clone();
            let rep = par_cases(args.threads, args.seed, args.by_tier(400, 30_000), args.budget(35, 600), move |_i, s, r| roundtrip_case(s, r, &a2, false));
            total.merge(rep);
        }
        if want("cfg-router") {
            let a2 = args.clone();
            let rep = par_cases(args.threads, args.seed ^ 0xC0F6, args.by_tier(480, 20_000), args.budget(15, 240), move |_i, s, r| router_case(s, r, &a2));
            total.merge(rep);
        }
        if want("keyspace") {
            let a2 = args.clone();
            let rep = par_cases(args.threads, args.seed ^ 0x6B5, args.by_tier(320, 12_000), args.budget(8, 180), move |_i, s, r| keyspace_case(s, r, &a2));
            total.merge(rep);
        }
        if want("value-text") {
            let a2 = args.clone();
            let rep = par_cases(args.threads, args.seed ^ 0x7E87, args.by_tier(400, 20_000), args.budget(6, 150), move |_i, s, r| valuetext_case(s, r, &a2));
            total.merge(rep);
        }
        if want("slab-capacity") {
            // every case holds a few chunks of 16 MiB several times over: fewer workers. Case 0 (and
            // every 24th) is a `TensorStore::new()` filled beyond the first chunk of its embedding slab.
            let a2 = args.clone();
            let rep = par_cases(args.threads.min(6), args.seed ^ 0xCA9, args.by_tier(18, 400), args.budget(8, 300), move |i, s, r| capacity_case(s, r, &a2, i % 24 == 0));
            total.merge(rep);
        }
        if want("roundtrip-big") {
            let a2 = args.clone();
            let rep = par_cases(args.threads.min(4), args.seed ^ 0xB16, args.by_tier(2, 12), args.budget(40, 400), move |_i, s, r| roundtrip_case(s, r, &a2, true));
            total.merge(rep);
        }
        if want("temp-prefix") {
            let a2 = args.clone();
            let rep = par_cases(args.threads, args.seed ^ 0x7E, args.by_tier(60, 3_000), args.budget(20, 300), move |_i, s, r| temp_prefix_case(s, r, &a2));
            total.merge(rep);
        }
        if want("resnapshot") {
            let a2 = args.clone();
            let rep = par_cases(args.threads, args.seed ^ 0x5E, args.by_tier(300, 10_000), args.budget(15, 240), move |_i, s, r| resnapshot_case(s, r, &a2));
            total.merge(rep);
        }
    }
    let meta = Meta {
        property: "C07",
        rule: "roundtrip case = store of 0..200 (a few of 3 000 / 30 000) raw entries over all value kinds and key classes + relational tables (Int/Float/String/Bool/Bytes, nullable, optional index) + graph nodes/edges with properties + vector-engine embeddings (dims 2-255 and 384) + blob-log chunks, saved and reloaded through 9 paths (file, v3 uncompressed, v3 default/zstd, bytes->fresh store, bytes->dirty store, bytes->store with a Bloom filter, SlabRouter bytes, quantising format default and balanced) and observed through store scan/get AND RelationalEngine/GraphEngine/VectorEngine reads; temp-prefix case = destination A + every (small) or sampled prefix of B's bytes as the sibling temp file, then the renamed file, plus a real save over a longer leftover temp file; resnapshot case = image, 1-3 changes of random kind (relational rows through the slab, new table, clear(), graph node, raw put, delete rows), image again after each change, restored and compared with the live store. Distinct = hash of key set x seed; non-trivial = at least 3 keys (round trip) / A and B differ (crash). The relational slab (router().relations) of a store is, in a third of the stores, additionally given tables with a random multi-step history (create_index on the empty table / between / after the rows and on nullable or later-added Int columns, inserts with NULLs, batch inserts, deletes, update_row and restore_row on indexed columns, restore_deleted_row, add/drop column, drop table) and is observed through all its public reads: schema, live rows, row_count and every non-empty answer of index_lookup / index_range (4 operators) / index_between over every Int column for the keys {i64::MIN,-3,-1,0,1,2,7,15,42,i64::MAX} + the values in the rows; original and reloaded slab must answer alike. cfg-router case = SlabRouter::with_config with embedding_dim from {1..600, dense around 128/129 and 255/256/257} (cache capacity and graph merge threshold varied too) holding 1..40 (thorough ..300) emb: entries whose slab vector is dense-random / dense-low-rank / dense with NaN, inf, -0.0, subnormals / sparse / exactly half zero / one more than half non-zero / all-zero / one-hot, rewritten, replaced by vectors of another dimension, deleted and put again, plus other keys, a relational slab history, graph slab edges and blob chunks; round-tripped through to_bytes/from_bytes, save_to_file/load_from_file, save_v3_uncompressed/snapshot::load and snapshot()/restore(); observed through scan/get, the relational slab reads, graph slab and blob log; distinct = hash of (dimension, class of every slab vector) x seed, non-trivial = at least one slab vector. keyspace case = TensorStore::new() with 1..150 (thorough ..2 000) keys of arbitrary shape - the empty key, first character of any UTF-8 class (any ASCII byte, U+0080..U+00FF, 2-/3-/4-byte characters, class boundaries) bare or behind emb: / _cache: / node: / edge: / table: / _blob:meta:, tails from a small per-case pool so that keys share prefixes, some 40-440 characters long - overwritten, deleted, put again; reloaded through 9 paths (file, file + Bloom filter, SlabRouter::load_from_file, v3 uncompressed, bytes->fresh store, bytes->Bloom-filter store, SlabRouter::from_bytes, snapshot()/restore(), quantising format) and asked ALL public key reads: scan(\"\"), get + exists of up to 300 present keys and of absent keys (one character more / less, deleted keys, fresh random keys), scan(prefix) + scan_count(prefix) for the 1-/2-/3-character prefixes, class prefixes and whole keys of up to 40 keys and for 34 one-character probes of every UTF-8 class; every answer must equal the original's (quantising format: all but the get values); distinct = hash of the key listing x seed, non-trivial = at least one key with a non-ASCII first character. The same reads (16 keys, exists / scan / scan_count) are part of every observation of the roundtrip, cfg-router, temp-prefix and resnapshot cases, whose raw-key generators include such keys. slab-capacity case = SlabRouter::with_config with embedding_dim from {384..12 000}, blob segment size {48 B, 256 B, 1 KiB, 64 MiB} and cache capacity {2, 8, 64, 10 000} (case 0 of every run: TensorStore::new()) filled with k x chunk + d slab vectors, k in {0,1,2,(3)} and d in {-1,0,1,2,<40,<chunk/2} where chunk = the number of vectors per 4Mi-float chunk (10 922 at dimension 384), a few more first and then deleted, late keys reusing the freed slots, in-place rewrites, emb: keys without a slab vector, up to 40 _cache: keys, plain keys and up to 25 blob chunks of 1..1 400 bytes; round-tripped through to_bytes/from_bytes, save_to_file/load_from_file, save_v3_uncompressed/snapshot::load, snapshot()/restore() (store: save_snapshot/load_snapshot, load_snapshot_with_bloom_filter, snapshot_bytes/restore_from_bytes); compared per key: the fields, the vector read from the embedding slab itself (router().index.get + router().embeddings.get; bit-exact), and the blob chunks; a load that panics is a violation (load-panics); distinct = (dimension, vectors, holder) x seed, non-trivial = the original slab had grown beyond the capacity of a fresh one. value-text case = TensorStore::new() with 1..30 (thorough ..200) keys of every key class (plain, emb:, _cache:, node:, edge:, table:, _blob:meta:) whose 1-6 fields are String scalars (7 of 12), Bytes scalars, Pointer / Pointers and now and then field NAMES drawn from a text generator: a marker (bytes:, base64:, hex:, 0x, str:, ptr:, int:, null:, json:, node:, ... 44 of them) followed by nothing / a decimal number / even- or odd-length hex in either case / base64-looking text / hex with one foreign character / arbitrary text; the same behind other text; the text forms formats derive from values of other kinds (bytes:<len>, bytes:<hex>, hex, Debug of a byte vector or of a scalar, 0x<HEX>, lossy UTF-8 of random bytes); 40 literals (null, true, NaN, -0, numbers beyond i64, JSON, Debug renderings); 30 whitespace / NUL / BOM / composed-vs-decomposed / invisible-character texts; 24 escape sequences and separators; lengths 127..65 537 bytes of 1-/2-/4-byte characters and NUL; plus, in half of the cases each, a relational slab table with such texts in String / Bytes / Json cells and graph nodes (GraphEngine::create_node) with such texts in String / Bytes / List properties; reloaded through file, v3 uncompressed, bytes->fresh store, SlabRouter::from_bytes and the quantising format (default and balanced) and compared TYPED per key and field: same kind (null/bool/int/float/string/bytes/vector/sparse/pointer/pointers) and same content, signature <kind>-comes-back-as-<kind> / <kind>-content-differs / <kind>-field-missing / field-added, relational cells and graph properties as the slab / the graph engine read them; distinct = hash of all entries x seed, non-trivial = at least one String scalar.",
        assumptions: vec![
            "384-dim slab vectors with >= 55% zeros are expected bit-exact (the slab snapshot's sparse path); dense low-TT-rank 384-dim vectors are held to the documented <1% relative L2 error; dense random 384-dim vectors are not judged (no bound is documented when the rank cap binds)".into(),
            "quantising format: vector payloads are not judged beyond presence; everything else must be exact".into(),
            "embedding slabs of another dimension (cfg-router part): every slab vector of a dimension below the documented compression threshold 256 must come back bit-identical whatever its representation class (zeros in the sparse classes are +0.0 and their non-zero components have magnitude >= 0.01, so the sparse encoding's own 1e-6 cut-off is never in play); at dimensions >= 256 vectors with >= 55% zeros are held to bit-exactness, dense sums of two geometric sequences (TT-rank <= 2 under any reshaping) to the documented <1% relative L2 error, other dense or half-zero vectors are not judged beyond their dimension".into(),
            "relational slab: the secondary-index reads are compared between the original and the reloaded slab (same row ids for the same key/range), not against a model of what an index should contain - postings that update_row left stale in the original are expected to be equally stale after the round trip".into(),
            "key reads (keyspace part and the key reads inside every observation): only answers of the ORIGINAL store are the reference - scan(prefix) of the reloaded store must list what scan(prefix) of the original lists, whatever that is (what the original's scan(prefix) returns for a given prefix is not judged here); the quantising format is held to the same key listing / exists / prefix answers, its values are judged by the roundtrip part only".into(),
            "slab-capacity part: all slab vectors are of the exactly stored class (>= 55 % zeros as +0.0, non-zero magnitudes >= 0.01), so bit-identity is demanded at every dimension; entity ids are not compared (restore_from_bytes assigns new ones), the vector the slab holds for a key is; the chunk size 4Mi floats is only used to aim the workload at the boundaries - the evidence counts the slabs whose public capacity() actually grew; statistics (len, chunk/segment counts) are not compared".into(),
            "value-text part: the original store's own get() is the reference for every field (a text an engine refuses is simply not stored); the quantising format is held to the same typed equality for every scalar, pointer and field name - the only tolerated difference there is the known finding, reported under its own signature roundtrip:quantising:field-differs:y if and only if a Bytes scalar comes back as exactly the string bytes:<len> (any other fate of a Bytes scalar, and every change of a String scalar, has its own signature); graph nodes with a byte-string property are, for the quantising format only, judged through their raw fields and not a second time through the graph engine; tables are not compared for the quantising format (known finding table-rows-differ, reported by the roundtrip part); no vectors in this part".into(),
            "for restore_from_bytes, blob-log chunks (router().blobs) and the graph slab (router().graph) are outside the comparison (the live store keeps its own); the relational slab is inside".into(),
        ],
        floors: if args.replay.is_some() {
            vec![]
        } else if let Some(part) = &only_part {
            match part.as_str() {
                "cfg-router" => vec![("cfg_key_reads_compared", 5_000), ("cfg_router_cases", 40), ("cfg_dense_vectors_of_dim_129_to_255_held_to_bit_identity", 200), ("cfg_exact_slab_vectors_compared", 1_000), ("cfg_slab_index_answers_compared", 1_000)],
                "roundtrip" => vec![("keys_compared", 2_000), ("exact_slab_vectors_compared", 100), ("slab_index_answers_compared", 1_000), ("key_reads_compared", 5_000)],
                "keyspace" => vec![("ks_cases", 20), ("ks_point_reads_compared", 5_000), ("ks_prefix_reads_compared", 5_000), ("ks_non_ascii_leading_keys_read_back", 500), ("ks_non_ascii_after_class_prefix_keys_read_back", 200)],
                "value-text" => vec![("vt_cases", 40), ("vt_string_scalars_compared", 5_000), ("vt_quantising_string_scalars_compared", 2_500), ("vt_texts_marker", 500), ("vt_texts_derived-from-another-kind", 250), ("vt_bytes_scalars_compared", 2_000), ("vt_pointer_fields_compared", 2_000), ("vt_relational_text_rows_compared", 500), ("vt_graph_nodes_with_text_compared", 500)],
                "slab-capacity" => vec![("cap_cases", 4), ("cap_default_dimension_stores", 1), ("cap_embedding_slabs_grown_beyond_fresh_capacity", 3), ("cap_slab_vectors_compared", 20_000), ("cap_blob_chunks_compared", 20)],
                _ => vec![("evaluations", 1)],
            }
        } else {
            vec![("evaluations", 60), ("keys_compared", 2_000), ("table_rows_compared", 500), ("graph_entities_compared", 500), ("exact_slab_vectors_compared", 100), ("temp_prefix_images", 500), ("max:store_entries", 2_000), ("resnapshots_compared", 200), ("saves_over_stale_temp_file", 20), ("slab_index_answers_compared", 1_000), ("cfg_router_cases", 40), ("cfg_dense_vectors_of_dim_129_to_255_held_to_bit_identity", 200), ("cfg_dense_vectors_below_256_held_to_bit_identity", 500), ("cfg_exact_slab_vectors_compared", 1_000), ("cfg_slab_index_answers_compared", 1_000), ("key_reads_compared", 5_000), ("cfg_key_reads_compared", 5_000), ("ks_cases", 20), ("ks_point_reads_compared", 5_000), ("ks_prefix_reads_compared", 5_000), ("ks_non_ascii_leading_keys_read_back", 500), ("ks_non_ascii_after_class_prefix_keys_read_back", 200), ("cap_cases", 4), ("cap_default_dimension_stores", 1), ("cap_embedding_slabs_grown_beyond_fresh_capacity", 3), ("cap_slab_vectors_compared", 20_000), ("cap_blob_chunks_compared", 20), ("vt_cases", 40), ("vt_string_scalars_compared", 5_000), ("vt_quantising_string_scalars_compared", 2_500), ("vt_texts_marker", 500), ("vt_texts_derived-from-another-kind", 250), ("vt_bytes_scalars_compared", 2_000), ("vt_pointer_fields_compared", 2_000), ("vt_relational_text_rows_compared", 500), ("vt_graph_nodes_with_text_compared", 500)]
        },
        exhaustive: false,
    };
    write_result(&args, &meta, &total, started);
}
