//! C07 — snapshots reproduce the store exactly and replace files atomically.
//!
//! roundtrip part: a store filled through the real engines (relational tables with all column
//! types, graph nodes/edges, embeddings of several dimensions and representations) and through
//! raw puts of every value kind is saved and loaded back through every path (file, file with zstd,
//! bytes into a fresh store, bytes into a dirty store, SlabRouter bytes, the quantising format)
//! and observed again through the public read APIs of the store *and* of the engines; the two
//! observations must be equal (vectors the slab stores through its lossy tensor-train path are
//! judged against the documented tolerance).
//!
//! crash part (in this binary): child modes used by the strace kill-injection leg
//! (`legs_c07.py`), which kills a real save at every write/open/rename syscall and then loads
//! the destination path; plus an in-process enumeration of every prefix of the temporary file.

use common::*;
use graph_engine::{GraphEngine, PropertyValue};
use h_store::*;
use relational_engine::{Column, ColumnType, Condition, RelationalEngine, Schema, Value as RVal};
use serde_json::{json, Value};
use std::collections::{BTreeMap, HashMap};
use std::path::Path;
use std::time::Instant;
use tensor_store::{ChunkHash, ScalarValue, SlabRouter, TensorData, TensorStore, TensorValue};
use vector_engine::VectorEngine;

#[derive(Clone, Copy, PartialEq, Eq, Debug)]
enum VecKind {
    /// every snapshot path must return it bit-exactly
    Exact,
    /// dense >= 256 dims, low tensor-train rank: documented "<1% error"
    TtLowRank,
    /// dense >= 256 dims, random: no documented bound when the rank cap binds -> not judged
    TtRandom,
}

#[derive(Default, Clone, PartialEq, Debug)]
struct Obs {
    /// key -> canonical value, `_embedding` of slab-resident vectors taken out
    view: View,
    /// emb key -> slab-dimension `_embedding`
    slab_vectors: BTreeMap<String, Vec<f32>>,
    tables: BTreeMap<String, (String, Vec<String>)>,
    nodes: BTreeMap<u64, String>,
    edges: BTreeMap<u64, String>,
    embeddings: BTreeMap<String, Vec<f32>>,
    blobs: BTreeMap<String, Vec<u8>>,
    /// relational slab read directly (router().relations): table -> (schema, rows with float bits)
    slab_tables: BTreeMap<String, (String, Vec<String>)>,
    /// graph slab read directly (router().graph): edge count and adjacency of entities 1..=8
    slab_graph: Vec<String>,
}

fn canon_rval(v: &RVal) -> String {
    match v {
        RVal::Null => "null".into(),
        RVal::Int(i) => format!("i:{}", i),
        RVal::Float(f) => {
            if f.is_nan() {
                "f:NaN".into()
            } else {
                format!("f:{:016x}", f.to_bits())
            }
        }
        RVal::String(s) => format!("s:{:?}", s),
        RVal::Bool(b) => format!("b:{}", b),
        RVal::Bytes(b) => format!("y:{}", hex(b)),
        other => format!("o:{:?}", other),
    }
}

fn canon_pval(v: &PropertyValue) -> String {
    match v {
        PropertyValue::Float(f) => {
            if f.is_nan() {
                "f:NaN".into()
            } else {
                format!("f:{:016x}", f.to_bits())
            }
        }
        PropertyValue::Map(m) => {
            let mut ks: Vec<_> = m.iter().map(|(k, v)| format!("{}={}", k, canon_pval(v))).collect();
            ks.sort();
            format!("m:{{{}}}", ks.join(","))
        }
        PropertyValue::List(l) => format!("l:[{}]", l.iter().map(canon_pval).collect::<Vec<_>>().join(",")),
        other => format!("{:?}", other),
    }
}

fn observe(store: &TensorStore, blob_hashes: &[ChunkHash]) -> Obs {
    let mut o = Obs::default();
    for k in store.scan("") {
        match store.get(&k) {
            Ok(mut d) => {
                if k.starts_with("emb:") {
                    if let Some(TensorValue::Vector(v)) = d.get("_embedding") {
                        if v.len() == 384 {
                            o.slab_vectors.insert(k.clone(), v.clone());
                            d.remove("_embedding");
                        }
                    }
                    // the vector engine keeps its vector in field "vector" as well
                }
                o.view.insert(k, canon_data(&d));
            }
            Err(_) => {
                o.view.insert(k, "<listed by scan but get fails>".into());
            }
        }
    }
    let rel = RelationalEngine::with_store(store.clone());
    for t in rel.list_tables() {
        let schema = rel.get_schema(&t).map(|s| format!("{:?}", s.columns)).unwrap_or_else(|e| format!("schema error {}", e));
        let mut rows: Vec<String> = match rel.select(&t, Condition::True) {
            Ok(rs) => rs
                .iter()
                .map(|r| {
                    let mut vs: Vec<String> = r.values.iter().map(|(c, v)| format!("{}={}", c, canon_rval(v))).collect();
                    vs.sort();
                    format!("#{} {}", r.id, vs.join(","))
                })
                .collect(),
            Err(e) => vec![format!("select error: {}", e)],
        };
        rows.sort();
        o.tables.insert(t, (schema, rows));
    }
    let g = GraphEngine::with_store(store.clone());
    for n in g.all_nodes() {
        let mut ps: Vec<String> = n.properties.iter().map(|(k, v)| format!("{}={}", k, canon_pval(v))).collect();
        ps.sort();
        o.nodes.insert(n.id, format!("{:?} {}", n.labels, ps.join(",")));
    }
    for e in g.all_edges() {
        let mut ps: Vec<String> = e.properties.iter().map(|(k, v)| format!("{}={}", k, canon_pval(v))).collect();
        ps.sort();
        o.edges.insert(e.id, format!("{}->{} {} dir={} {}", e.from, e.to, e.edge_type, e.directed, ps.join(",")));
    }
    let ve = VectorEngine::with_store(store.clone());
    for k in ve.list_keys() {
        if let Ok(v) = ve.get_embedding(&k) {
            o.embeddings.insert(k, v);
        }
    }
    for h in blob_hashes {
        if let Some(b) = store.router().blobs.get(h) {
            o.blobs.insert(format!("{:016x}", h.0), b);
        }
    }
    let rs = &store.router().relations;
    for t in rs.table_names() {
        let schema = format!("{:?}", rs.get_schema(&t));
        let mut rows: Vec<String> = match rs.scan_all(&t) {
            Ok(v) => v
                .iter()
                .map(|(id, row)| {
                    let cells: Vec<String> = row
                        .iter()
                        .map(|c| match c {
                            tensor_store::ColumnValue::Float(f) => format!("Float(bits {:#x})", f.to_bits()),
                            other => format!("{:?}", other),
                        })
                        .collect();
                    format!("[{}] {}", id.as_u64(), cells.join(", "))
                })
                .collect(),
            Err(e) => vec![format!("scan error {:?}", e)],
        };
        rows.sort();
        o.slab_tables.insert(t, (schema, rows));
    }
    let gs = &store.router().graph;
    o.slab_graph.push(format!("edges={}", gs.edge_count()));
    for n in 1..=8u64 {
        let mut out: Vec<u64> = gs.outgoing(tensor_store::EntityId::new(n)).iter().map(|(to, _)| to.as_u64()).collect();
        let mut inc: Vec<u64> = gs.incoming(tensor_store::EntityId::new(n)).iter().map(|(fr, _)| fr.as_u64()).collect();
        out.sort();
        inc.sort();
        if !out.is_empty() || !inc.is_empty() {
            o.slab_graph.push(format!("{} out {:?} in {:?}", n, out, inc));
        }
    }
    o
}

struct Content {
    store: TensorStore,
    vec_kinds: BTreeMap<String, VecKind>,
    blob_hashes: Vec<ChunkHash>,
    description: Value,
}

fn low_rank_vector(rng: &mut Rng) -> Vec<f32> {
    // smooth separable signal: sum of two products of per-axis factors has TT-rank <= 2
    let (a, b) = (rng.f64_in(0.5, 2.0), rng.f64_in(0.1, 0.9));
    let shift = rng.f64_in(0.2, 1.0);
    (0..384).map(|i| (a * (1.0 + (i % 8) as f64 * 0.1) * (1.0 + ((i / 8) % 8) as f64 * b) * (shift + (i / 64) as f64 * 0.3)) as f32).collect()
}

fn build_content(rng: &mut Rng, size: usize, exact_only: bool) -> Content {
    let store = TensorStore::new();
    let mut vec_kinds = BTreeMap::new();
    let mut wid = 0u64;
    // raw keys of every class and value kind
    let n_raw = size;
    for i in 0..n_raw {
        let k = match rng.below(7) {
            0 => format!("k:{}", i),
            1 | 2 => format!("emb:raw{}", i),
            3 => format!("user/é:{}", i),
            4 => format!("_blob:meta:{}", i),
            5 => format!("meta:{}", i),
            _ => format!("zz:{}", i),
        };
        wid += 1;
        let mut d = gen_data(rng, &k, wid, true);
        if k.starts_with("emb:") {
            if let Some(TensorValue::Vector(v)) = d.get("_embedding") {
                if v.len() == 384 {
                    let kind = if exact_only { VecKind::Exact } else { *rng.pick(&[VecKind::Exact, VecKind::Exact, VecKind::TtLowRank, VecKind::TtRandom]) };
                    match kind {
                        VecKind::Exact => {}
                        VecKind::TtLowRank => d.set("_embedding", TensorValue::Vector(low_rank_vector(rng))),
                        VecKind::TtRandom => d.set("_embedding", TensorValue::Vector((0..384).map(|_| rng.f64_in(-1.0, 1.0) as f32 + 1.5).collect())),
                    }
                    vec_kinds.insert(k.clone(), kind);
                }
            }
        }
        let _ = store.put(k, d);
    }
    // a few cache-ring entries (part of every snapshot image)
    for i in 0..(size / 8).min(6) {
        wid += 1;
        let k = format!("_cache:q{}", i);
        let d = gen_data(rng, &k, wid, true);
        let _ = store.put(k, d);
    }
    // sometimes blob-like incompressible payloads, enough to make the whole image incompressible
    if size >= 3 && rng.chance(1, 5) {
        for i in 0..(2 + rng.below(3)) {
            let mut d = TensorData::new();
            let n = 30_000 + rng.below(90_000);
            d.set("_data", TensorValue::Scalar(ScalarValue::Bytes(rng.bytes(n))));
            let _ = store.put(format!("_blob:chunk:sha256:{:016x}{}", rng.next_u64(), i), d);
        }
    }
    // now and then one value larger than 1 MiB (compressible or not)
    if size >= 3 && rng.chance(1, 12) {
        let mut d = TensorData::new();
        let n = 1_100_000 + rng.below(2_000_000);
        let payload = if rng.bool() { rng.bytes(n) } else { vec![0x5Au8; n] };
        d.set("_data", TensorValue::Scalar(ScalarValue::Bytes(payload)));
        let _ = store.put("big:value", d);
    }
    // relational tables
    let rel = RelationalEngine::with_store(store.clone());
    let n_tables = if size == 0 { 0 } else { 1 + rng.below(2) };
    let mut table_desc = Vec::new();
    for t in 0..n_tables {
        let name = format!("t{}", t);
        let cols = vec![
            Column::new("a", ColumnType::Int),
            Column::new("b", ColumnType::Float).nullable(),
            Column::new("c", ColumnType::String).nullable(),
            Column::new("d", ColumnType::Bool).nullable(),
            Column::new("e", ColumnType::Bytes).nullable(),
        ];
        if rel.create_table(&name, Schema::new(cols)).is_err() {
            continue;
        }
        // now and then a table-heavy store: rows far outnumber keys (> 1 MiB of row data)
        let heavy = t == 0 && size >= 1 && size <= 30 && rng.chance(1, 20);
        let n_rows = if heavy { 12_000 + rng.below(4_000) } else { rng.below(size.min(400) + 1) };
        for _ in 0..n_rows {
            let mut row: HashMap<String, RVal> = HashMap::new();
            row.insert("a".into(), RVal::Int(*rng.pick(&[i64::MIN, i64::MAX, 0, -1, 7, 42, 1000])));
            if rng.chance(4, 5) {
                row.insert("b".into(), RVal::Float(gen_f64(rng)));
            }
            if rng.chance(4, 5) {
                row.insert("c".into(), RVal::String(gen_string(rng)));
            }
            if rng.chance(1, 2) {
                row.insert("d".into(), RVal::Bool(rng.bool()));
            }
            if heavy || rng.chance(1, 2) {
                let n = if heavy { 80 + rng.below(40) } else { rng.below(20) };
                row.insert("e".into(), RVal::Bytes(rng.bytes(n)));
            }
            let _ = rel.insert(&name, row);
        }
        if rng.bool() {
            let _ = rel.create_index(&name, "a");
        }
        table_desc.push(json!({"table": name, "rows": n_rows}));
    }
    // graph
    let g = GraphEngine::with_store(store.clone());
    let n_nodes = (size / 4).min(200);
    let mut ids = Vec::new();
    for i in 0..n_nodes {
        let mut p = HashMap::new();
        p.insert("name".to_string(), PropertyValue::String(format!("n{}", i)));
        if rng.bool() {
            p.insert("w".to_string(), PropertyValue::Float(gen_f64(rng)));
        }
        if rng.chance(1, 4) {
            p.insert("l".to_string(), PropertyValue::List(vec![PropertyValue::Int(1), PropertyValue::Bool(true)]));
        }
        if let Ok(id) = g.create_node(format!("L{}", i % 3), p) {
            ids.push(id);
        }
    }
    let mut n_edges = 0;
    if !ids.is_empty() {
        for _ in 0..n_nodes * 2 {
            let (a, b) = (*rng.pick(&ids), *rng.pick(&ids));
            let mut p = HashMap::new();
            p.insert("w".to_string(), PropertyValue::Float(rng.f64_in(0.0, 10.0)));
            if g.create_edge(a, b, *rng.pick(&["knows", "likes"]), p, rng.bool()).is_ok() {
                n_edges += 1;
            }
        }
    }
    // vector engine embeddings (small dims: bit-exact; slab dim: exact-sparse)
    let ve = VectorEngine::with_store(store.clone());
    let n_vec = (size / 4).min(300);
    for i in 0..n_vec {
        let key = format!("doc{}", i);
        let v = if rng.chance(1, 3) {
            vec_kinds.insert(format!("emb:{}", key), VecKind::Exact);
            gen_slab_vector_exact(rng, i as u64)
        } else {
            let dim = *rng.pick(&[2usize, 8, 64, 255]);
            (0..dim).map(|_| rng.f64_in(-1.0, 1.0) as f32).collect()
        };
        let _ = ve.store_embedding(&key, v);
    }
    // blob log chunks (the content-addressed slab reachable through router().blobs)
    let mut blob_hashes = Vec::new();
    for _ in 0..(size / 10).min(20) {
        let n = rng.below(200);
        let data = rng.bytes(n);
        blob_hashes.push(store.router().blobs.append(&data));
    }
    Content {
        store,
        vec_kinds,
        blob_hashes,
        description: json!({"raw_keys": n_raw, "tables": table_desc, "nodes": n_nodes, "edges": n_edges, "embeddings": n_vec}),
    }
}

/// A store whose whole content lives in the slabs that are not addressed by keys: relational
/// slab tables, graph slab edges, blob-log chunks (all reachable through `TensorStore::router()`).
fn build_slab_only(rng: &mut Rng) -> Content {
    use tensor_store::{ColumnDef, ColumnType, ColumnValue, EntityId, TableSchema};
    let store = TensorStore::new();
    let what = 1 + rng.below(7); // bit 0: tables, bit 1: graph slab, bit 2: blob chunks
    let mut desc = Vec::new();
    if what & 1 != 0 {
        let schema = TableSchema::new(vec![
            ColumnDef::new("id", ColumnType::Int, false),
            ColumnDef::new("name", ColumnType::String, true),
            ColumnDef::new("score", ColumnType::Float, true),
            ColumnDef::new("active", ColumnType::Bool, true),
            ColumnDef::new("raw", ColumnType::Bytes, true),
        ]);
        let schema = if rng.bool() { schema.with_primary_key("id") } else { schema };
        let rel = &store.router().relations;
        let _ = rel.create_table("st0", schema.clone());
        if rng.bool() {
            let _ = rel.create_table("st_empty", schema);
        }
        let n = rng.below(7);
        for i in 0..n {
            let row = vec![
                ColumnValue::Int(*rng.pick(&[i64::MIN, -1, 0, 1, i64::MAX]) ^ i as i64),
                if rng.bool() { ColumnValue::String(format!("n{}", rng.below(100))) } else { ColumnValue::Null },
                if rng.bool() { ColumnValue::Float(*rng.pick(&[0.0, -0.0, 1.5, f64::NEG_INFINITY, f64::NAN])) } else { ColumnValue::Null },
                if rng.bool() { ColumnValue::Bool(rng.bool()) } else { ColumnValue::Null },
                if rng.bool() { let nb = rng.below(12); ColumnValue::Bytes(rng.bytes(nb)) } else { ColumnValue::Null },
            ];
            let _ = rel.insert("st0", row);
        }
        if rng.bool() {
            let _ = rel.create_index("st0", "id");
        }
        // schema evolution after the rows exist: a new column with / without default, a dropped
        // column (also the one the primary key or the index was declared on)
        if rng.chance(1, 3) {
            let dflt = ColumnValue::Int(7);
            let _ = rel.add_column("st0", ColumnDef::new("extra", ColumnType::Int, true), if rng.bool() { Some(&dflt) } else { None });
        }
        if rng.chance(1, 3) {
            let _ = rel.drop_column("st0", *rng.pick(&["id", "name", "score", "raw"]));
        }
        desc.push(format!("slab tables ({} rows)", n));
    }
    if what & 2 != 0 {
        let n = 1 + rng.below(6);
        for _ in 0..n {
            let (a, b) = (1 + rng.below(8) as u64, 1 + rng.below(8) as u64);
            store.router().graph.add_edge(EntityId::new(a), EntityId::new(b), *rng.pick(&["knows", "likes"]), rng.bool());
        }
        desc.push(format!("graph slab ({} edges)", n));
    }
    let mut blob_hashes = Vec::new();
    if what & 4 != 0 {
        for _ in 0..1 + rng.below(3) {
            let n = 1 + rng.below(300);
            let data = rng.bytes(n);
            blob_hashes.push(store.router().blobs.append(&data));
        }
        desc.push(format!("blob chunks ({})", blob_hashes.len()));
    }
    Content { store, vec_kinds: BTreeMap::new(), blob_hashes, description: json!({"slab_only": desc}) }
}

fn rel_l2(a: &[f32], b: &[f32]) -> f64 {
    let num: f64 = a.iter().zip(b).map(|(x, y)| ((*x - *y) as f64).powi(2)).sum();
    let den: f64 = a.iter().map(|x| (*x as f64).powi(2)).sum();
    (num / den.max(1e-30)).sqrt()
}

/// compare an observation taken after a round trip with the original; returns (signature, detail)
fn compare(path: &str, orig: &Obs, got: &Obs, kinds: &BTreeMap<String, VecKind>, r: &mut Report, quantising: bool) -> Vec<(String, String)> {
    let mut out = Vec::new();
    let mut push = |sig: String, d: String| {
        if out.len() < 6 {
            out.push((sig, d));
        }
    };
    // keys / fields
    for (k, v) in &orig.view {
        match got.view.get(k) {
            None => push(format!("roundtrip:{}:key-missing", path), format!("key {} missing after round trip", k)),
            Some(g) if g != v => {
                // which field kinds differ?
                let fa: BTreeMap<&str, &str> = v.split(';').filter_map(|f| f.split_once('=')).collect();
                let fb: BTreeMap<&str, &str> = g.split(';').filter_map(|f| f.split_once('=')).collect();
                let mut kinds_diff = std::collections::BTreeSet::new();
                for (name, va) in &fa {
                    match fb.get(name) {
                        Some(vb) if vb == va => {}
                        Some(vb) => {
                            let kind = va.split(':').next().unwrap_or("?").split('[').next().unwrap_or("?").to_string();
                            // quantising format: vector payloads are only held to quantisation error
                            if quantising && (kind == "v" || kind == "sp") {
                                r.count("quantising_vector_payloads_not_judged", 1);
                                continue;
                            }
                            kinds_diff.insert(format!("{}({}->{})", kind, trunc(va, 40), trunc(vb, 40)));
                        }
                        None => {
                            kinds_diff.insert(format!("field-{}-missing", name));
                        }
                    }
                }
                for name in fb.keys() {
                    if !fa.contains_key(name) {
                        kinds_diff.insert(format!("field-{}-added", name));
                    }
                }
                if !kinds_diff.is_empty() {
                    let first = kinds_diff.iter().next().unwrap().clone();
                    let kind = first.split('(').next().unwrap_or("?").to_string();
                    push(format!("roundtrip:{}:field-differs:{}", path, kind), format!("key {}: {:?}", k, kinds_diff));
                }
            }
            _ => {}
        }
    }
    for k in got.view.keys() {
        if !orig.view.contains_key(k) {
            push(format!("roundtrip:{}:key-added", path), format!("key {} appeared after round trip", k));
        }
    }
    // slab vectors
    for (k, v) in &orig.slab_vectors {
        let kind = kinds.get(k).copied().unwrap_or(VecKind::Exact);
        match got.slab_vectors.get(k) {
            None => {
                if !quantising {
                    push(format!("roundtrip:{}:slab-vector-missing", path), format!("{} has no 384-dim _embedding after round trip", k));
                }
            }
            Some(g) => {
                if quantising {
                    r.count("quantising_vector_payloads_not_judged", 1);
                    continue;
                }
                match kind {
                    VecKind::Exact => {
                        r.count("exact_slab_vectors_compared", 1);
                        if g.len() != v.len() || g.iter().zip(v).any(|(a, b)| a.to_bits() != b.to_bits()) {
                            let i = g.iter().zip(v).position(|(a, b)| a.to_bits() != b.to_bits());
                            push(format!("roundtrip:{}:slab-vector-not-exact", path), format!("{}: first differing element {:?}: {:?} vs {:?}", k, i, i.map(|i| v[i]), i.map(|i| g[i])));
                        }
                    }
                    VecKind::TtLowRank => {
                        let e = rel_l2(v, g);
                        r.count("tt_vectors_judged_against_1pct", 1);
                        if !(e < 0.01) {
                            push(format!("roundtrip:{}:tt-vector-outside-documented-1pct", path), format!("{}: relative L2 error {:.4}", k, e));
                        }
                    }
                    VecKind::TtRandom => {
                        r.count("tt_vectors_not_judged_rank_cap", 1);
                        if g.len() != v.len() {
                            push(format!("roundtrip:{}:slab-vector-dimension-changed", path), format!("{}: {} -> {}", k, v.len(), g.len()));
                        }
                    }
                }
            }
        }
    }
    if !quantising {
        // engine-level observations
        for (t, (schema, rows)) in &orig.tables {
            match got.tables.get(t) {
                None => push(format!("roundtrip:{}:table-missing", path), format!("table {} ({} rows) is gone", t, rows.len())),
                Some((s2, r2)) => {
                    if s2 != schema {
                        push(format!("roundtrip:{}:table-schema-differs", path), format!("table {}: {} vs {}", t, schema, s2));
                    }
                    if r2 != rows {
                        let d = rows.iter().zip(r2).find(|(a, b)| a != b);
                        push(format!("roundtrip:{}:table-rows-differ", path), format!("table {}: {} rows vs {}; first difference {:?}", t, rows.len(), r2.len(), d));
                    }
                }
            }
        }
        if orig.nodes != got.nodes {
            push(format!("roundtrip:{}:graph-nodes-differ", path), format!("{} nodes vs {}", orig.nodes.len(), got.nodes.len()));
        }
        if orig.edges != got.edges {
            push(format!("roundtrip:{}:graph-edges-differ", path), format!("{} edges vs {}", orig.edges.len(), got.edges.len()));
        }
        for (k, v) in &orig.embeddings {
            let is_slab = v.len() == 384;
            match got.embeddings.get(k) {
                None => push(format!("roundtrip:{}:embedding-missing", path), format!("vector engine key {} gone", k)),
                Some(g) => {
                    if !is_slab && (g.len() != v.len() || g.iter().zip(v).any(|(a, b)| a.to_bits() != b.to_bits())) {
                        push(format!("roundtrip:{}:small-embedding-not-bit-identical", path), format!("key {} dim {}", k, v.len()));
                    }
                }
            }
        }
        if orig.blobs != got.blobs {
            push(format!("roundtrip:{}:blob-chunks-differ", path), format!("{} chunks vs {}", orig.blobs.len(), got.blobs.len()));
        }
        if orig.slab_tables != got.slab_tables {
            let d = orig.slab_tables.iter().find(|(t, v)| got.slab_tables.get(*t) != Some(v)).map(|(t, v)| format!("table {}: {:?} vs {:?}", t, v, got.slab_tables.get(t)));
            push(format!("roundtrip:{}:relational-slab-differs", path), format!("{} tables vs {}; {}", orig.slab_tables.len(), got.slab_tables.len(), trunc(&d.unwrap_or_default(), 400)));
        }
        if orig.slab_graph != got.slab_graph {
            push(format!("roundtrip:{}:graph-slab-differs", path), format!("{:?} vs {:?}", orig.slab_graph, got.slab_graph));
        }
    } else {
        // everything except vector payloads must be exact in the quantising format too
        for (t, (_, rows)) in &orig.tables {
            match got.tables.get(t) {
                None => push(format!("roundtrip:{}:table-missing", path), format!("table {} ({} rows) is gone", t, rows.len())),
                Some((_, r2)) => {
                    if r2 != rows {
                        push(format!("roundtrip:{}:table-rows-differ", path), format!("table {}: {} rows vs {} ({:?})", t, rows.len(), r2.len(), r2.first()));
                    }
                }
            }
        }
        if orig.nodes != got.nodes {
            push(format!("roundtrip:{}:graph-nodes-differ", path), format!("{} nodes vs {}", orig.nodes.len(), got.nodes.len()));
        }
        if orig.edges != got.edges {
            push(format!("roundtrip:{}:graph-edges-differ", path), format!("{} edges vs {}", orig.edges.len(), got.edges.len()));
        }
    }
    out
}

fn roundtrip_case(case_seed: u64, r: &mut Report, args: &Args, big: bool) {
    let mut rng = Rng::new(case_seed);
    let size = if big { args.by_tier(3_000, 30_000) } else { *rng.pick(&[0usize, 1, 3, 10, 30, 80, 200]) };
    let slab_only = !big && rng.chance(1, 8);
    let c = if slab_only { build_slab_only(&mut rng) } else { build_content(&mut rng, size, false) };
    if slab_only {
        r.count("slab_only_stores", 1);
    }
    let orig = observe(&c.store, &c.blob_hashes);
    let orig_blobs = orig.blobs.clone();
    let orig_slab_graph = orig.slab_graph.clone();
    let scratch = args.scratch_dir("c07");
    let replay = json!({"part": if big { "roundtrip-big" } else { "roundtrip" }, "case_seed": case_seed});
    let mut report = |path: &str, got: Result<Obs, String>, r: &mut Report, quantising: bool| {
        r.count(&format!("roundtrips_{}", path), 1);
        match got {
            Err(e) => r.violation(format!("roundtrip:{}:load-error", path), format!("{} (content {})", e, c.description), replay.clone()),
            Ok(g) => {
                for (sig, d) in compare(path, &orig, &g, &c.vec_kinds, r, quantising) {
                    r.violation(sig, format!("{} (content {})", d, c.description), replay.clone());
                }
            }
        }
    };
    // 1. file
    let p = scratch.join("a.snap");
    let got = c.store.save_snapshot(&p).map_err(|e| format!("save: {}", e)).and_then(|_| TensorStore::load_snapshot(&p).map_err(|e| format!("load: {}", e))).map(|s| observe(&s, &c.blob_hashes));
    report("file", got, r, false);
    // 2. file, zstd (save_v3 is the compressed default of SlabRouter::save_to_file? use both explicit entry points)
    let p2 = scratch.join("b.snap");
    let got = tensor_store::snapshot::save_v3_uncompressed(c.store.router(), &p2)
        .map_err(|e| format!("save: {}", e))
        .and_then(|_| TensorStore::load_snapshot(&p2).map_err(|e| format!("load: {}", e)))
        .map(|s| observe(&s, &c.blob_hashes));
    report("file-uncompressed", got, r, false);
    let p3 = scratch.join("c.snap");
    let got = tensor_store::snapshot::save_v3(c.store.router(), &p3)
        .map_err(|e| format!("save: {}", e))
        .and_then(|_| TensorStore::load_snapshot(&p3).map_err(|e| format!("load: {}", e)))
        .map(|s| observe(&s, &c.blob_hashes));
    report("file-v3-default", got, r, false);
    // 3. bytes -> fresh store, bytes -> dirty store
    match c.store.snapshot_bytes() {
        Err(e) => r.violation("roundtrip:bytes:snapshot-error", format!("{}", e), replay.clone()),
        Ok(bytes) => {
            let fresh = TensorStore::new();
            let got = fresh.restore_from_bytes(&bytes).map_err(|e| format!("restore: {}", e)).map(|_| observe(&fresh, &c.blob_hashes));
            report_bytes(&mut report, "bytes-fresh", got, r, &orig_blobs, &orig_slab_graph);
            let dirty = build_content(&mut rng, 12, true).store;
            let got = dirty.restore_from_bytes(&bytes).map_err(|e| format!("restore: {}", e)).map(|_| observe(&dirty, &c.blob_hashes));
            report_bytes(&mut report, "bytes-dirty", got, r, &orig_blobs, &orig_slab_graph);
            // a live store that was created with a Bloom filter (point lookups consult the filter)
            let bloom = TensorStore::with_bloom_filter(4_096, 0.01);
            let mut seed_d = TensorData::new();
            seed_d.set("x", TensorValue::Scalar(ScalarValue::Int(1)));
            let _ = bloom.put("k:previous", seed_d);
            let got = bloom.restore_from_bytes(&bytes).map_err(|e| format!("restore: {}", e)).map(|_| observe(&bloom, &c.blob_hashes));
            report_bytes(&mut report, "bytes-bloom-store", got, r, &orig_blobs, &orig_slab_graph);
            // 4. SlabRouter bytes
            let got = SlabRouter::from_bytes(&bytes).map_err(|e| format!("from_bytes: {}", e)).map(|router| {
                // observe through a file round trip of the restored router is not needed: wrap by saving
                let p4 = scratch.join("d.snap");
                router.save_to_file(&p4).ok();
                TensorStore::load_snapshot(&p4).map(|s| observe(&s, &c.blob_hashes))
            });
            match got {
                Ok(Ok(o)) => report("router-bytes", Ok(o), r, false),
                Ok(Err(e)) => report("router-bytes", Err(format!("{}", e)), r, false),
                Err(e) => report("router-bytes", Err(e), r, false),
            }
        }
    }
    // 5. quantising format, lossless configuration and balanced configuration
    for (name, cfg) in [("quantising-default", tensor_compress::CompressionConfig::default()), ("quantising-balanced", tensor_compress::CompressionConfig::balanced(384))] {
        let p5 = scratch.join("e.snap");
        let got = c
            .store
            .save_snapshot_compressed(&p5, cfg)
            .map_err(|e| format!("save: {}", e))
            .and_then(|_| TensorStore::load_snapshot_compressed(&p5).map_err(|e| format!("load: {}", e)))
            .map(|s| observe(&s, &c.blob_hashes));
        // a vector whose dimension the TT shape of the preset cannot factor makes the save fail;
        // that is an error return, not a wrong snapshot: not judged
        match got {
            Err(e) if e.starts_with("save:") => {
                r.count("quantising_save_refused", 1);
                let _ = e;
            }
            other => {
                r.count(&format!("roundtrips_{}", name), 1);
                report("quantising", other, r, true)
            }
        }
    }
    let nontrivial = orig.view.len() >= 3;
    r.eval(hash_str(&format!("{:?}", orig.view.keys().collect::<Vec<_>>())) ^ case_seed, nontrivial);
    r.count("keys_compared", orig.view.len() as u64);
    r.count("table_rows_compared", orig.tables.values().map(|t| t.1.len() as u64).sum());
    r.count("graph_entities_compared", (orig.nodes.len() + orig.edges.len()) as u64);
    r.count_max("max:store_entries", orig.view.len() as u64);
    if r.want_sample() && nontrivial {
        r.sample(json!({"content": c.description, "keys": orig.view.len(), "first_keys": orig.view.iter().take(4).map(|(k, v)| format!("{} = {}", k, trunc(v, 80))).collect::<Vec<_>>()}));
    }
}

fn report_bytes(report: &mut impl FnMut(&str, Result<Obs, String>, &mut Report, bool), path: &str, got: Result<Obs, String>, r: &mut Report, orig_blobs: &BTreeMap<String, Vec<u8>>, orig_slab_graph: &Vec<String>) {
    // restore_from_bytes refills key-addressed entries and tables; blob-log chunks are not part of
    // what it restores into a live store -> drop them from the comparison for these two paths
    let got = got.map(|mut o| {
        o.blobs = orig_blobs.clone();
        o.slab_graph = orig_slab_graph.clone();
        o
    });
    report(path, got, r, false);
}

// -------------------------------------------------------------------------------------------
// crash part
// -------------------------------------------------------------------------------------------

fn obs_hash(o: &Obs) -> u64 {
    hash_str(&format!("{:?}", o))
}

fn save_by_format(store: &TensorStore, fmt: &str, p: &Path) -> Result<(), String> {
    match fmt {
        "file" => store.save_snapshot(p).map_err(|e| e.to_string()),
        "quantising" => store.save_snapshot_compressed(p, tensor_compress::CompressionConfig::default()).map_err(|e| e.to_string()),
        "checkpoint" => store.checkpoint(p).map(|_| ()).map_err(|e| e.to_string()),
        _ => Err("unknown format".into()),
    }
}
fn load_by_format(fmt: &str, p: &Path) -> Result<TensorStore, String> {
    match fmt {
        "file" | "checkpoint" => TensorStore::load_snapshot(p).map_err(|e| e.to_string()),
        "quantising" => TensorStore::load_snapshot_compressed(p).map_err(|e| e.to_string()),
        _ => Err("unknown format".into()),
    }
}

/// exact-only content without tables/bytes for the quantising format (its known losses are
/// reported by the roundtrip part; the crash part is about atomic replacement only)
fn crash_content(seed: u64, fmt: &str) -> TensorStore {
    let mut rng = Rng::new(seed);
    if fmt == "quantising" {
        let s = TensorStore::new();
        for i in 0..10 + rng.below(20) {
            let mut d = TensorData::new();
            d.set("i", TensorValue::Scalar(ScalarValue::Int(rng.range(-5, 5))));
            d.set("s", TensorValue::Scalar(ScalarValue::String(gen_string(&mut rng))));
            d.set("p", TensorValue::Pointer(format!("node:{}", i)));
            let _ = s.put(format!("k:{}", i), d);
        }
        s
    } else {
        let n = 5 + rng.below(40);
        build_content(&mut rng, n, true).store
    }
}

/// child: `child-save <dir> <fmt> <seedA> <seedB>`: save A, print hashes and MARK, save B over it
fn child_save(rest: &[String]) {
    let dir = Path::new(&rest[1]);
    let fmt = rest[2].as_str();
    let (sa, sb): (u64, u64) = (rest[3].parse().unwrap(), rest[4].parse().unwrap());
    let p = dir.join("dest.snap");
    let a = crash_content(sa, fmt);
    let b = crash_content(sb, fmt);
    // for "checkpoint" the store needs a WAL; use plain save for A and B there
    save_by_format(&a, if fmt == "checkpoint" { "file" } else { fmt }, &p).expect("save A");
    let ha = load_by_format(fmt, &p).map(|s| obs_hash(&observe(&s, &[]))).expect("load A");
    let p_b = dir.join("b-reference.snap");
    save_by_format(&b, if fmt == "checkpoint" { "file" } else { fmt }, &p_b).expect("save B ref");
    let hb = load_by_format(fmt, &p_b).map(|s| obs_hash(&observe(&s, &[]))).expect("load B ref");
    std::fs::remove_file(&p_b).ok();
    use std::io::Write;
    let mut out = std::io::stdout();
    writeln!(out, "HASH_A={} HASH_B={}", ha, hb).unwrap();
    out.flush().unwrap();
    // marker syscall the tracer looks for
    let _ = std::fs::metadata(dir.join("MARK-BEGIN-SAVE-B"));
    save_by_format(&b, if fmt == "checkpoint" { "file" } else { fmt }, &p).expect("save B");
    let _ = std::fs::metadata(dir.join("MARK-END-SAVE-B"));
    writeln!(out, "SAVED_B").unwrap();
}

/// child: `child-hash <dir> <fmt>`: load dest and print the observation hash
fn child_hash(rest: &[String]) {
    let dir = Path::new(&rest[1]);
    match load_by_format(rest[2].as_str(), &dir.join("dest.snap")) {
        Ok(s) => println!("LOADED_HASH={}", obs_hash(&observe(&s, &[]))),
        Err(e) => println!("LOAD_ERROR={}", e.replace('\n', " ")),
    }
}

/// in-process: every prefix of the temp file next to an untouched destination, and both sides of
/// the rename, for both formats
fn temp_prefix_case(case_seed: u64, r: &mut Report, args: &Args) {
    let mut rng = Rng::new(case_seed);
    let fmt = *rng.pick(&["file", "quantising"]);
    let scratch = args.scratch_dir("c07t");
    let a = crash_content(rng.next_u64(), fmt);
    let b = crash_content(rng.next_u64(), fmt);
    let dest = scratch.join("dest.snap");
    let tmp = scratch.join("dest.tmp");
    if save_by_format(&a, fmt, &dest).is_err() {
        r.inconclusive("save A failed");
        return;
    }
    let bytes_a = std::fs::read(&dest).unwrap();
    let ha = match load_by_format(fmt, &dest) {
        Ok(s) => obs_hash(&observe(&s, &[])),
        Err(e) => {
            r.violation(format!("crash:{}:cannot-load-own-snapshot", fmt), e, json!({"part": "temp-prefix", "case_seed": case_seed}));
            return;
        }
    };
    let pb = scratch.join("b.snap");
    save_by_format(&b, fmt, &pb).ok();
    let bytes_b = std::fs::read(&pb).unwrap_or_default();
    let hb = load_by_format(fmt, &pb).map(|s| obs_hash(&observe(&s, &[]))).unwrap_or(0);
    let mut cuts: Vec<usize> = if bytes_b.len() <= 400 || !args.quick() && bytes_b.len() <= 4000 { (0..=bytes_b.len()).collect() } else { (0..40).map(|_| rng.below(bytes_b.len() + 1)).chain([0, 1, 15, 16, 17, bytes_b.len() - 1, bytes_b.len()]).collect() };
    cuts.sort_unstable();
    cuts.dedup();
    for cut in cuts {
        // before the rename: destination untouched, temp file partially written
        std::fs::write(&dest, &bytes_a).unwrap();
        std::fs::write(&tmp, &bytes_b[..cut]).unwrap();
        r.count("temp_prefix_images", 1);
        match load_by_format(fmt, &dest) {
            Ok(s) => {
                let h = obs_hash(&observe(&s, &[]));
                if h != ha && h != hb {
                    r.violation(format!("crash:{}:mixture-after-interrupted-save", fmt), format!("temp prefix {} of {}: loaded store is neither old nor new", cut, bytes_b.len()), json!({"part": "temp-prefix", "case_seed": case_seed}));
                }
            }
            Err(e) => r.violation(format!("crash:{}:unreadable-after-interrupted-save", fmt), format!("temp prefix {}: {}", cut, e), json!({"part": "temp-prefix", "case_seed": case_seed})),
        }
    }
    // a leftover temp file from an earlier interrupted save (longer than the next snapshot) must not
    // leak into the next completed save
    std::fs::write(&dest, &bytes_a).unwrap();
    let mut stale = bytes_a.clone();
    stale.extend_from_slice(&bytes_b);
    stale.extend_from_slice(&rng.bytes(64));
    std::fs::write(&tmp, &stale).unwrap();
    r.count("saves_over_stale_temp_file", 1);
    match save_by_format(&b, fmt, &dest).and_then(|_| load_by_format(fmt, &dest)) {
        Ok(s) => {
            if obs_hash(&observe(&s, &[])) != hb {
                r.violation(format!("crash:{}:save-over-leftover-temp-loads-differently", fmt), "a completed save performed while a longer stale temp file existed does not load as the saved store".to_string(), json!({"part": "temp-prefix", "case_seed": case_seed}));
            }
        }
        Err(e) => r.violation(format!("crash:{}:save-over-leftover-temp-unreadable", fmt), format!("a completed save performed while a longer stale temp file existed cannot be loaded: {}", e), json!({"part": "temp-prefix", "case_seed": case_seed})),
    }
    // after the rename
    std::fs::write(&dest, &bytes_b).unwrap();
    let _ = std::fs::remove_file(&tmp);
    match load_by_format(fmt, &dest) {
        Ok(s) => {
            if obs_hash(&observe(&s, &[])) != hb {
                r.violation(format!("crash:{}:new-snapshot-differs", fmt), "after rename the new snapshot does not load as B".to_string(), json!({"part": "temp-prefix", "case_seed": case_seed}));
            }
        }
        Err(e) => r.violation(format!("crash:{}:unreadable-after-rename", fmt), e, json!({"part": "temp-prefix", "case_seed": case_seed})),
    }
    r.eval(hash_combine(case_seed, 7), ha != hb);
}

/// Take an image, change the live store, take another image: the second image must show the store
/// as it is now, whatever kind of change happened in between (raw put, relational rows written
/// through the relational slab, graph data, embeddings, clear()).
fn resnapshot_case(case_seed: u64, r: &mut Report, args: &Args) {
    let mut rng = Rng::new(case_seed);
    let n = 5 + rng.below(40);
    let c = build_content(&mut rng, n, true);
    let replay = json!({"part": "resnapshot", "case_seed": case_seed});
    let scratch = args.scratch_dir("c07r");
    let via_file = rng.chance(1, 3);
    let take = |store: &TensorStore, name: &str| -> Result<Vec<u8>, String> {
        if via_file {
            let p = scratch.join(name);
            store.save_snapshot(&p).map_err(|e| e.to_string())?;
            std::fs::read(&p).map_err(|e| e.to_string())
        } else {
            store.snapshot_bytes().map_err(|e| e.to_string())
        }
    };
    let restore = |bytes: &[u8], name: &str| -> Result<TensorStore, String> {
        if via_file {
            let p = scratch.join(name);
            std::fs::write(&p, bytes).map_err(|e| e.to_string())?;
            TensorStore::load_snapshot(&p).map_err(|e| e.to_string())
        } else {
            let s = TensorStore::new();
            s.restore_from_bytes(bytes).map_err(|e| e.to_string())?;
            Ok(s)
        }
    };
    if take(&c.store, "first.snap").is_err() {
        r.inconclusive("first image failed");
        return;
    }
    let steps = 1 + rng.below(3);
    let mut trace = Vec::new();
    for step in 0..steps {
        let kind = rng.below(6);
        match kind {
            0 => {
                let rel = RelationalEngine::with_store(c.store.clone());
                let tables = rel.list_tables();
                if let Some(t) = tables.first() {
                    let mut row: HashMap<String, RVal> = HashMap::new();
                    row.insert("a".into(), RVal::Int(900_000 + step as i64));
                    let _ = rel.insert(t, row);
                    trace.push("relational insert");
                } else {
                    trace.push("relational insert (no table)");
                }
            }
            1 => {
                let rel = RelationalEngine::with_store(c.store.clone());
                let name = format!("late{}", step);
                let _ = rel.create_table(&name, Schema::new(vec![Column::new("a", ColumnType::Int)]));
                let mut row: HashMap<String, RVal> = HashMap::new();
                row.insert("a".into(), RVal::Int(7));
                let _ = rel.insert(&name, row);
                trace.push("create table + insert");
            }
            2 => {
                c.store.clear();
                trace.push("clear");
            }
            3 => {
                let g = GraphEngine::with_store(c.store.clone());
                let _ = g.create_node("Late", HashMap::new());
                trace.push("create node");
            }
            4 => {
                let mut d = TensorData::new();
                d.set("late", TensorValue::Scalar(ScalarValue::Int(step as i64)));
                let _ = c.store.put(format!("late:{}", step), d);
                trace.push("raw put");
            }
            _ => {
                let rel = RelationalEngine::with_store(c.store.clone());
                if let Some(t) = rel.list_tables().first() {
                    let _ = rel.delete_rows(t, Condition::True);
                    trace.push("relational delete all rows");
                }
            }
        }
        let live = observe(&c.store, &[]);
        let got = take(&c.store, "again.snap").and_then(|b| restore(&b, "again2.snap")).map(|s| observe(&s, &[]));
        r.count("resnapshots_compared", 1);
        match got {
            Err(e) => {
                r.violation("resnapshot:second-image-unreadable", format!("{} after {:?}", e, trace), replay.clone());
                return;
            }
            Ok(o) => {
                if obs_hash(&o) != obs_hash(&live) {
                    let what = trace.last().copied().unwrap_or("?").replace(' ', "-");
                    r.violation(
                        format!("resnapshot:image-taken-after-{}-does-not-show-it", what),
                        format!("image #{} ({}) restored: tables {:?} vs live {:?}; keys {} vs {}; steps {:?}", step + 2, if via_file { "file" } else { "bytes" }, o.tables.iter().map(|(k, v)| (k, v.1.len())).collect::<Vec<_>>(), live.tables.iter().map(|(k, v)| (k, v.1.len())).collect::<Vec<_>>(), o.view.len(), live.view.len(), trace),
                        replay.clone(),
                    );
                    return;
                }
            }
        }
    }
    r.eval(hash_combine(case_seed, 0x5A), true);
}

fn main() {
    let args = Args::parse();
    if args.rest.first().map(|s| s.as_str()) == Some("child-save") {
        child_save(&args.rest);
        return;
    }
    if args.rest.first().map(|s| s.as_str()) == Some("child-hash") {
        child_hash(&args.rest);
        return;
    }
    let started = Instant::now();
    quiet_panics();
    let mut total = Report::new();
    if let Some(p) = &args.replay {
        let v: Value = serde_json::from_str(&std::fs::read_to_string(p).expect("replay")).expect("json");
        let rp = &v["replay"];
        let s = rp["case_seed"].as_u64().unwrap_or(1);
        match rp["part"].as_str().unwrap_or("roundtrip") {
            "temp-prefix" => temp_prefix_case(s, &mut total, &args),
            "resnapshot" => resnapshot_case(s, &mut total, &args),
            "roundtrip-big" => roundtrip_case(s, &mut total, &args, true),
            _ => roundtrip_case(s, &mut total, &args, false),
        }
    } else {
        let a2 = args.clone();
        let rep = par_cases(args.threads, args.seed, args.by_tier(400, 30_000), args.budget(35, 600), move |_i, s, r| roundtrip_case(s, r, &a2, false));
        total.merge(rep);
        let a2 = args.clone();
        let rep = par_cases(args.threads.min(4), args.seed ^ 0xB16, args.by_tier(2, 12), args.budget(40, 400), move |_i, s, r| roundtrip_case(s, r, &a2, true));
        total.merge(rep);
        let a2 = args.clone();
        let rep = par_cases(args.threads, args.seed ^ 0x7E, args.by_tier(60, 3_000), args.budget(20, 300), move |_i, s, r| temp_prefix_case(s, r, &a2));
        total.merge(rep);
        let a2 = args.clone();
        let rep = par_cases(args.threads, args.seed ^ 0x5E, args.by_tier(300, 10_000), args.budget(15, 240), move |_i, s, r| resnapshot_case(s, r, &a2));
        total.merge(rep);
    }
    let meta = Meta {
        property: "C07",
        rule: "roundtrip case = store of 0..200 (a few of 3 000 / 30 000) raw entries over all value kinds and key classes + relational tables (Int/Float/String/Bool/Bytes, nullable, optional index) + graph nodes/edges with properties + vector-engine embeddings (dims 2-255 and 384) + blob-log chunks, saved and reloaded through 9 paths (file, v3 uncompressed, v3 default/zstd, bytes->fresh store, bytes->dirty store, bytes->store with a Bloom filter, SlabRouter bytes, quantising format default and balanced) and observed through store scan/get AND RelationalEngine/GraphEngine/VectorEngine reads; temp-prefix case = destination A + every (small) or sampled prefix of B's bytes as the sibling temp file, then the renamed file, plus a real save over a longer leftover temp file; resnapshot case = image, 1-3 changes of random kind (relational rows through the slab, new table, clear(), graph node, raw put, delete rows), image again after each change, restored and compared with the live store. Distinct = hash of key set x seed; non-trivial = at least 3 keys (round trip) / A and B differ (crash).",
        assumptions: vec![
            "384-dim slab vectors with >= 55% zeros are expected bit-exact (the slab snapshot's sparse path); dense low-TT-rank 384-dim vectors are held to the documented <1% relative L2 error; dense random 384-dim vectors are not judged (no bound is documented when the rank cap binds)".into(),
            "quantising format: vector payloads are not judged beyond presence; everything else must be exact".into(),
            "for restore_from_bytes, blob-log chunks (router().blobs) and the graph slab (router().graph) are outside the comparison (the live store keeps its own); the relational slab is inside".into(),
        ],
        floors: if args.replay.is_some() { vec![] } else { vec![("evaluations", 60), ("keys_compared", 2_000), ("table_rows_compared", 500), ("graph_entities_compared", 500), ("exact_slab_vectors_compared", 100), ("temp_prefix_images", 500), ("max:store_entries", 2_000), ("resnapshots_compared", 200), ("saves_over_stale_temp_file", 20)] },
        exhaustive: false,
    };
    write_result(&args, &meta, &total, started);
}
