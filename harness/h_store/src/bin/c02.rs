//! C02 — durable store: acknowledged writes survive any crash, in order.
//!
//! The real `TensorStore` (open_durable / put_durable / delete_durable / sync / checkpoint) runs a
//! seeded history. After every operation the harness records (a) the *view* the live store shows
//! (S_k, all keys via scan+get, cache keys excluded) and (b) the bytes of every file in the store
//! directory. Crash images are then built from what was really on disk:
//!   * the directory as it was after each operation (process killed between calls),
//!   * the log cut at bytes strictly inside the growth of each operation (torn record),
//!   * the directory as it was *inside* checkpoint() and WAL rotation (hook callbacks at the three
//!     step boundaries of each), plus partially written snapshot temp files.
//! Each image is recovered with the real `TensorStore::recover`; the oracle demands that recovery
//! succeeds and shows exactly S_k for some k with  acked(lo) <= k <= issued(hi).
//! A recovered store is then written to again and crashed again (chains of up to three crashes),
//! including after images that end in a torn record.

use common::*;
use h_store::*;
use parking_lot::Mutex;
use serde_json::{json, Value};
use std::path::{Path, PathBuf};
use std::rc::Rc;
use std::sync::atomic::{AtomicUsize, Ordering};
use std::sync::Arc;
use std::time::Instant;
use tensor_store::{SyncMode, TensorData, TensorStore, WalConfig};

#[derive(Clone)]
enum Op {
    Put(String, TensorData),
    Delete(String),
    Sync,
    Checkpoint,
}

impl Op {
    fn describe(&self) -> String {
        match self {
            Op::Put(k, d) => format!("put {} {}", k, trunc(&canon_data(d), 70)),
            Op::Delete(k) => format!("delete {}", k),
            Op::Sync => "sync".into(),
            Op::Checkpoint => "checkpoint".into(),
        }
    }
}

#[derive(Clone)]
struct Img {
    files: DirImage,
    lo: usize,
    hi: usize,
    label: String,
    torn: bool,
    rotated: bool,
}

struct CaseCfg {
    wal_cfg: WalConfig,
    mode: &'static str,
    nkeys: usize,
    specials: bool,
    rotation: bool,
}

const WAL: &str = "store.wal";
const SNAP: &str = "store.snap";

fn gen_op(rng: &mut Rng, cfg: &CaseCfg, wid: &mut u64, with_cp: bool) -> Op {
    let w: &[u32] = if cfg.mode == "immediate" { &[60, 25, 0, 8] } else { &[55, 22, 15, 8] };
    match rng.weighted(w) {
        0 => {
            let k = gen_key(rng, cfg.nkeys, true);
            *wid += 1;
            let d = gen_data(rng, &k, *wid, cfg.specials);
            Op::Put(k, d)
        }
        1 => Op::Delete(gen_key(rng, cfg.nkeys, true)),
        2 => Op::Sync,
        _ => {
            if with_cp {
                Op::Checkpoint
            } else {
                Op::Sync
            }
        }
    }
}

/// record start offsets (and the end offset) of the complete records in `wal[from..]`
fn record_bounds(wal: &[u8], from: usize) -> Vec<usize> {
    let mut v = vec![from];
    let mut p = from;
    while p + 8 <= wal.len() {
        let len = u32::from_le_bytes([wal[p], wal[p + 1], wal[p + 2], wal[p + 3]]) as usize;
        if p + 8 + len > wal.len() {
            break;
        }
        p += 8 + len;
        v.push(p);
    }
    v
}

struct Session {
    dir: PathBuf,
    cfg_wal: WalConfig,
    views: Vec<Rc<View>>,
    imgs: Vec<Img>,
    trace: Vec<String>,
    hook_hits: u64,
}

/// run `ops` on `store` (whose files live in `dir`), recording views and crash images
fn run_session(
    store: &TensorStore,
    dir: &Path,
    cfg: &CaseCfg,
    ops: &[Op],
    baseline: Rc<View>,
    rng: &mut Rng,
    dense_bytes: bool,
    rotated_before: bool,
) -> Session {
    let mut s = Session { dir: dir.to_path_buf(), cfg_wal: cfg.wal_cfg.clone(), views: vec![baseline], imgs: Vec::new(), trace: Vec::new(), hook_hits: 0 };
    let mut lo_ack = 0usize;
    let mut prev = read_dir_image(dir);
    let mut rotated = rotated_before || prev.keys().any(|k| k.starts_with(&format!("{}.", WAL)));
    let hook_imgs: Arc<Mutex<Vec<(String, DirImage)>>> = Arc::new(Mutex::new(Vec::new()));
    let cur_hi = Arc::new(AtomicUsize::new(0));
    {
        let hook_imgs = hook_imgs.clone();
        let dirp = dir.to_path_buf();
        sched::set_thread_handler(Some(Arc::new(move |name: &'static str| {
            if name.starts_with("checkpoint:") || name.starts_with("wal_rotate:") {
                hook_imgs.lock().push((name.to_string(), read_dir_image(&dirp)));
            }
        })));
    }
    for (idx, op) in ops.iter().enumerate() {
        let j = idx + 1;
        cur_hi.store(j, Ordering::Relaxed);
        let lo_before = lo_ack;
        let mut new_view: Option<Rc<View>> = None;
        let mut acked = false;
        let mut op_err: Option<String> = None;
        let mut checkpoint_done = false;
        match op {
            Op::Put(k, d) => {
                if store.put_durable(k.clone(), d.clone()).is_ok() {
                    acked = true;
                }
                new_view = Some(Rc::new(view(store)));
            }
            Op::Delete(k) => {
                if store.delete_durable(k).is_ok() {
                    acked = true;
                }
                new_view = Some(Rc::new(view(store)));
            }
            Op::Sync => {
                if store.sync().is_ok() {
                    lo_ack = j - 1;
                }
            }
            Op::Checkpoint => match store.checkpoint(dir.join(SNAP)) {
                Ok(_) => {
                    lo_ack = j - 1;
                    checkpoint_done = true;
                }
                Err(e) => op_err = Some(format!("{}", e)),
            },
        }
        s.trace.push(match op_err {
            Some(e) => format!("{} -> Err({})", op.describe(), e),
            None => op.describe(),
        });
        let v = new_view.unwrap_or_else(|| s.views.last().unwrap().clone());
        s.views.push(v);
        if acked && cfg.mode == "immediate" {
            lo_ack = j;
        }
        if matches!(op, Op::Sync | Op::Checkpoint) && lo_ack == j - 1 {
            lo_ack = j; // S_j == S_{j-1}
        }
        let cur = read_dir_image(dir);
        // images captured inside checkpoint / rotation
        let hooks: Vec<(String, DirImage)> = std::mem::take(&mut *hook_imgs.lock());
        for (name, files) in hooks {
            s.hook_hits += 1;
            if name.starts_with("wal_rotate:") {
                rotated = true;
            }
            if name == "checkpoint:after_snapshot" {
                // a crash while the snapshot temp file was being written: old files + partial temp
                if let Some(newsnap) = files.get(SNAP) {
                    for cut in [0usize, 1, newsnap.len() / 2, newsnap.len().saturating_sub(1)] {
                        let mut f = prev.clone();
                        f.insert("store.tmp".into(), newsnap[..cut.min(newsnap.len())].to_vec());
                        s.imgs.push(Img { files: f, lo: lo_before, hi: j, label: format!("op{} checkpoint:snapshot-temp-partial@{}", j, cut), torn: false, rotated });
                    }
                }
            }
            s.imgs.push(Img { files, lo: lo_before, hi: j, label: format!("op{} hook {}", j, name), torn: false, rotated });
        }
        // torn-record images: log cut strictly inside what this operation added on disk
        let pw = prev.get(WAL).cloned().unwrap_or_default();
        let cw = cur.get(WAL).cloned().unwrap_or_default();
        let others_same = prev.iter().filter(|(k, _)| k.as_str() != WAL).eq(cur.iter().filter(|(k, _)| k.as_str() != WAL));
        if others_same && cw.len() > pw.len() && cw[..pw.len()] == pw[..] {
            let bounds = record_bounds(&cw, pw.len());
            let mut cuts: Vec<usize> = Vec::new();
            if dense_bytes && cw.len() - pw.len() <= 600 {
                cuts.extend(pw.len() + 1..cw.len());
            } else {
                for w in bounds.windows(2) {
                    let (a, b) = (w[0], w[1]);
                    for c in [a + 1, a + 3, a + 4, a + 5, a + 7, a + 8, a + 9, (a + b) / 2, b - 1] {
                        if c > a && c < b {
                            cuts.push(c);
                        }
                    }
                    for _ in 0..2 {
                        cuts.push(a + 1 + rng.below(b - a - 1));
                    }
                    if b < cw.len() {
                        cuts.push(b); // record boundary inside a multi-record operation
                    }
                }
                // unparsed remainder (partial record already on disk in buffered modes)
                let last = *bounds.last().unwrap();
                if last < cw.len() {
                    cuts.push(last + (cw.len() - last) / 2);
                }
            }
            cuts.sort_unstable();
            cuts.dedup();
            for c in cuts {
                if c <= pw.len() || c >= cw.len() {
                    continue;
                }
                let mut f = cur.clone();
                f.insert(WAL.into(), cw[..c].to_vec());
                let on_boundary = bounds.contains(&c);
                s.imgs.push(Img { files: f, lo: lo_before, hi: j, label: format!("op{} wal cut at byte {} of {}..{}", j, c, pw.len(), cw.len()), torn: !on_boundary, rotated });
            }
        }
        if checkpoint_done {
            // everything is in the snapshot now; rotated segments no longer matter
            rotated = false;
        }
        s.imgs.push(Img { files: cur.clone(), lo: lo_ack.min(j), hi: j, label: format!("after op{}", j), torn: false, rotated });
        prev = cur;
    }
    sched::set_thread_handler(None);
    s
}

enum Outcome {
    Ok(TensorStore, Rc<View>, usize),
    Bad,
}

#[allow(clippy::too_many_arguments)]
fn check_image(
    sess: &Session,
    img: &Img,
    work: &Path,
    r: &mut Report,
    case_seed: u64,
    depth: usize,
    chain_torn: bool,
    mode: &str,
) -> Outcome {
    write_dir_image(work, &img.files);
    let rec = TensorStore::recover(work.join(WAL), &sess.cfg_wal, Some(&work.join(SNAP)));
    r.count("crash_images_recovered", 1);
    if img.torn {
        r.count("torn_record_images", 1);
    }
    if img.label.contains("hook") || img.label.contains("snapshot-temp") {
        r.count("mid_checkpoint_or_rotation_images", 1);
    }
    let ctx = format!(
        "{}{}{}",
        if img.rotated { ":after-rotation" } else { "" },
        if chain_torn { ":after-append-to-torn-tail" } else { "" },
        if depth > 0 { ":second-or-later-crash" } else { "" }
    );
    let replay = json!({"case_seed": case_seed, "image": img.label, "depth": depth});
    match rec {
        Err(e) => {
            let msg = format!("{}", e);
            let class = if msg.contains("hecksum") { "checksum-mismatch" } else if msg.contains("snapshot") { "snapshot-unreadable" } else { "other" };
            r.violation(
                format!("recover:error:{}{}", class, ctx),
                format!("recovery failed ({}) from image '{}' [mode {}] admissible S_{}..S_{}; history: {:?}", msg, img.label, mode, img.lo, img.hi, sess.trace),
                replay,
            );
            Outcome::Bad
        }
        Ok(store) => {
            let v = view(&store);
            for k in img.lo..=img.hi.min(sess.views.len() - 1) {
                if *sess.views[k] == v {
                    return Outcome::Ok(store, Rc::new(v), k);
                }
            }
            // classify
            let mut sig = "recover:state-not-a-prefix".to_string();
            if let Some(k) = (0..img.lo).rev().find(|&k| *sess.views[k] == v) {
                sig = "recover:lost-acknowledged-write".into();
                let _ = k;
            } else {
                // half-applied embedding put: for some admissible k the recovered state differs
                // from S_k in exactly one emb: key that exists on both sides (new vector with old
                // metadata or the reverse)
                for k in img.lo..=img.hi.min(sess.views.len() - 1) {
                    let sk = &sess.views[k];
                    if sk.len() != v.len() {
                        continue;
                    }
                    let diffs: Vec<&String> = v.iter().filter(|(key, val)| sk.get(*key) != Some(*val)).map(|(key, _)| key).collect();
                    if diffs.len() == 1 && diffs[0].starts_with("emb:") && sk.contains_key(diffs[0]) {
                        sig = "recover:half-applied-embedding-put".into();
                        break;
                    }
                }
            }
            let nearest = &sess.views[img.hi.min(sess.views.len() - 1)];
            if img.rotated {
                // rotated segments are not replayed by recover(): every state mismatch of an image
                // taken after a rotation (and before the next checkpoint) gets this one signature
                sig = "recover:writes-lost-or-regressed-after-wal-rotation".into();
            }
            r.violation(
                if img.rotated { sig.clone() } else { format!("{}{}", sig, ctx) },
                format!(
                    "recovered state from image '{}' [mode {}] equals no S_k for k in {}..={}; diff vs S_{}: {}; history: {:?}",
                    img.label,
                    mode,
                    img.lo,
                    img.hi,
                    img.hi,
                    trunc(&view_diff(nearest, &v), 600),
                    sess.trace
                ),
                replay,
            );
            Outcome::Bad
        }
    }
}

fn make_cfg(rng: &mut Rng) -> CaseCfg {
    let mut wal_cfg = WalConfig::default();
    let mode = match rng.below(10) {
        0 | 1 => {
            wal_cfg.sync_mode = SyncMode::Batched { max_entries: 2 + rng.below(4) };
            "batched"
        }
        2 => {
            wal_cfg.sync_mode = SyncMode::Manual;
            "manual"
        }
        _ => "immediate",
    };
    let rotation = rng.chance(1, 10);
    if rotation {
        wal_cfg.max_size_bytes = 400 + rng.below(3000) as u64;
    }
    CaseCfg { wal_cfg, mode, nkeys: 2 + rng.below(6), specials: rng.chance(1, 2), rotation }
}

fn run_case(case_seed: u64, r: &mut Report, args: &Args, only_image: Option<&str>) {
    let mut rng = Rng::new(case_seed);
    let cfg = make_cfg(&mut rng);
    let scratch = args.scratch_dir("c02");
    let live = scratch.join("live");
    std::fs::create_dir_all(&live).unwrap();
    let work = scratch.join("work");
    let store = match TensorStore::open_durable(live.join(WAL), cfg.wal_cfg.clone()) {
        Ok(s) => s,
        Err(e) => {
            r.inconclusive(&format!("open_durable failed: {}", e));
            return;
        }
    };
    let mut wid = 0u64;
    let n_ops = 6 + rng.below(args.by_tier(14, 30));
    let ops: Vec<Op> = (0..n_ops).map(|_| gen_op(&mut rng, &cfg, &mut wid, true)).collect();
    let dense = rng.chance(1, 4);
    let sess = run_session(&store, &live, &cfg, &ops, Rc::new(View::new()), &mut rng, dense, false);
    drop(store);
    r.count("ops_executed", ops.len() as u64);
    r.count("hook_images", sess.hook_hits);
    r.count(&format!("cases_mode_{}", cfg.mode), 1);
    if cfg.rotation {
        r.count("cases_with_tiny_wal_limit", 1);
    }
    let mut states = std::collections::HashSet::new();
    for v in &sess.views {
        states.insert(hash_str(&format!("{:?}", v)));
    }
    r.count("distinct_store_states", states.len() as u64);

    // level 0: every image
    let budget_imgs = args.extra_u64("images", args.by_tier(140, 400)) as usize;
    let mut order: Vec<usize> = (0..sess.imgs.len()).collect();
    if order.len() > budget_imgs {
        rng.shuffle(&mut order);
        order.truncate(budget_imgs);
        order.sort_unstable();
    }
    let mut chain_candidates: Vec<usize> = Vec::new();
    let mut ok = true;
    for &i in &order {
        let img = &sess.imgs[i];
        if let Some(l) = only_image {
            if img.label != l {
                continue;
            }
        }
        match check_image(&sess, img, &work, r, case_seed, 0, false, cfg.mode) {
            Outcome::Ok(_, _, _) => {
                if img.torn || img.label.contains("hook") || rng.chance(1, 12) {
                    chain_candidates.push(i);
                }
            }
            Outcome::Bad => ok = false,
        }
    }
    // chains: recover from an image, write more, crash again (up to 3 crashes)
    rng.shuffle(&mut chain_candidates);
    let n_chains = args.extra_u64("chains", args.by_tier(3, 8)) as usize;
    for &i in chain_candidates.iter().take(n_chains) {
        let mut cur_sess_imgs: Img = sess.imgs[i].clone();
        let mut cur_sess: Option<Session> = None;
        let mut chain_torn = false;
        for depth in 1..=2usize {
            // recover (again) from the chosen image; this store stays open and is written to
            let sref: &Session = cur_sess.as_ref().unwrap_or(&sess);
            let chain_dir = scratch.join(&format!("chain{}", depth));
            let (st, base) = match check_image(sref, &cur_sess_imgs, &chain_dir, r, case_seed, depth - 1, chain_torn, cfg.mode) {
                Outcome::Ok(st, v, _) => (st, v),
                Outcome::Bad => {
                    ok = false;
                    break;
                }
            };
            chain_torn = chain_torn || cur_sess_imgs.torn;
            let more: Vec<Op> = (0..3 + rng.below(5))
                .map(|_| {
                    let cp = rng.chance(1, 2);
                    gen_op(&mut rng, &cfg, &mut wid, cp)
                })
                .collect();
            let s2 = run_session(&st, &chain_dir, &cfg, &more, base, &mut rng, false, cur_sess_imgs.rotated);
            drop(st);
            r.count("chained_sessions", 1);
            r.count("ops_executed", more.len() as u64);
            // check a sample of the new images; continue the chain from a torn one if possible
            let mut idxs: Vec<usize> = (0..s2.imgs.len()).collect();
            rng.shuffle(&mut idxs);
            idxs.truncate(args.by_tier(14, 40));
            let mut next: Option<Img> = None;
            let w2 = scratch.join("work2");
            for &k in &idxs {
                match check_image(&s2, &s2.imgs[k], &w2, r, case_seed, depth, chain_torn, cfg.mode) {
                    Outcome::Ok(..) => {
                        if next.is_none() || (s2.imgs[k].torn && rng.bool()) {
                            next = Some(s2.imgs[k].clone());
                        }
                    }
                    Outcome::Bad => ok = false,
                }
            }
            match next {
                Some(n) => {
                    cur_sess_imgs = n;
                    cur_sess = Some(s2);
                }
                None => break,
            }
        }
    }
    let h = hash_str(&format!("{:?}|{}", sess.trace, cfg.mode));
    r.eval(h, sess.views.iter().any(|v| !v.is_empty()) && sess.imgs.len() > 5);
    if r.want_sample() && ok {
        r.sample(json!({
            "mode": cfg.mode, "tiny_wal_limit": cfg.rotation,
            "history": sess.trace.iter().take(10).collect::<Vec<_>>(),
            "crash_images": sess.imgs.len(),
            "image_labels": sess.imgs.iter().take(8).map(|i| format!("{} -> S_{}..S_{}", i.label, i.lo, i.hi)).collect::<Vec<_>>(),
        }));
    }
}

/// Records of unusual size: an acknowledged put whose log record is 1 MiB / 16 MiB / 32 MiB long must
/// come back after a crash like any other, together with everything logged after it, and again
/// after a second crash that follows more writes.
fn large_record_case(case_seed: u64, r: &mut Report, args: &Args) {
    let mut rng = Rng::new(case_seed);
    let size = *rng.pick(&[1usize << 20, (16usize << 20) + 5, (32usize << 20) + 1]);
    let scratch = args.scratch_dir("c02big");
    let dir = scratch.join("live");
    std::fs::create_dir_all(&dir).unwrap();
    let cfg = WalConfig::default();
    let replay = json!({"part": "large-record", "case_seed": case_seed});
    let small = |id: i64| {
        let mut d = TensorData::new();
        d.set("v", tensor_store::TensorValue::Scalar(tensor_store::ScalarValue::Int(id)));
        d
    };
    let store = match TensorStore::open_durable(dir.join(WAL), cfg.clone()) {
        Ok(s) => s,
        Err(e) => {
            r.inconclusive(&format!("open_durable: {}", e));
            return;
        }
    };
    let mut big = TensorData::new();
    big.set("blob", tensor_store::TensorValue::Scalar(tensor_store::ScalarValue::Bytes(rng.bytes(size))));
    let mut acked = true;
    acked &= store.put_durable("k:a", small(1)).is_ok();
    let big_ok = store.put_durable("k:big", big).is_ok();
    acked &= store.put_durable("k:c", small(3)).is_ok();
    acked &= store.delete_durable("k:a").is_ok();
    if !acked {
        r.inconclusive("small durable writes refused");
        return;
    }
    if !big_ok {
        // refusing an oversized value is an answer, not a loss
        r.count("large_record_refused", 1);
    }
    let live: View = view(&store).into_iter().map(|(k, v)| (k, format!("{:016x}/{}", hash_str(&v), v.len()))).collect();
    drop(store);
    let digest = |s: &TensorStore| -> View { view(s).into_iter().map(|(k, v)| (k, format!("{:016x}/{}", hash_str(&v), v.len()))).collect() };
    match TensorStore::recover(dir.join(WAL), &cfg, Some(&dir.join(SNAP))) {
        Err(e) => {
            r.violation("large-record:recover-error", format!("log with a {}-byte value: {}", size, e), replay);
            return;
        }
        Ok(rec) => {
            let got = digest(&rec);
            r.count("large_record_recoveries", 1);
            if got != live {
                r.violation(
                    "large-record:acknowledged-writes-missing-after-recovery",
                    format!("after an acknowledged put of a {}-byte value (+ 2 later acknowledged writes) recovery shows {:?}, the live store showed {:?}", size, got, live),
                    replay,
                );
                return;
            }
            // second crash after more writes on the recovered store
            let ok = rec.put_durable("k:d", small(4)).is_ok();
            let live2 = digest(&rec);
            drop(rec);
            if ok {
                match TensorStore::recover(dir.join(WAL), &cfg, Some(&dir.join(SNAP))) {
                    Ok(rec2) => {
                        if digest(&rec2) != live2 {
                            r.violation("large-record:acknowledged-writes-missing-after-second-recovery", format!("{}-byte value: second recovery shows {:?}, expected {:?}", size, digest(&rec2), live2), replay);
                            return;
                        }
                    }
                    Err(e) => {
                        r.violation("large-record:recover-error", format!("second recovery, {}-byte value: {}", size, e), replay);
                        return;
                    }
                }
            }
        }
    }
    r.eval(hash_combine(case_seed, size as u64), true);
}

/// Checkpoints to changing snapshot paths (A/B alternation, a backup moved away and replaced),
/// including checkpoints that follow one another with no durable write in between: at every
/// quiescent point the files a crash would leave - the log plus the snapshot the LATEST successful
/// checkpoint() call wrote - must recover to exactly the live state (immediate sync: every write that
/// returned is acknowledged).
fn ckpt_paths_case(case_seed: u64, r: &mut Report, args: &Args) {
    let mut rng = Rng::new(case_seed);
    let scratch = args.scratch_dir("c02paths");
    let dir = scratch.join("live");
    std::fs::create_dir_all(&dir).unwrap();
    let cfg = WalConfig::default();
    let replay = json!({"part": "ckpt-paths", "case_seed": case_seed});
    let store = match TensorStore::open_durable(dir.join(WAL), cfg.clone()) {
        Ok(s) => s,
        Err(e) => {
            r.inconclusive(&format!("open_durable: {}", e));
            return;
        }
    };
    let val = |id: i64| {
        let mut d = TensorData::new();
        d.set("v", tensor_store::TensorValue::Scalar(tensor_store::ScalarValue::Int(id)));
        d
    };
    let digest = |s: &TensorStore| -> View { view(s).into_iter().map(|(k, v)| (k, format!("{:016x}/{}", hash_str(&v), v.len()))).collect() };
    let names = ["a.snap", "b.snap", "c.snap"];
    let mut latest: Option<&str> = None;
    let mut wid = 0i64;
    let mut trace: Vec<String> = Vec::new();
    let steps = 6 + rng.below(14);
    let mut idle_ckpts_to_other_path = 0u64;
    let mut writes_since_ckpt = 0u64;
    for step in 0..steps {
        match rng.below(10) {
            0..=4 => {
                let k = format!("k:{}", rng.below(8));
                wid += 1;
                let ok = if rng.chance(1, 4) { store.delete_durable(&k).is_ok() } else { store.put_durable(k.clone(), val(wid)).is_ok() };
                trace.push(format!("write({})={}", k, ok));
                writes_since_ckpt += 1;
            }
            _ => {
                // mostly another path than the last one; sometimes the same; sometimes twice in a row
                let name = if latest.is_some() && rng.chance(1, 4) { latest.unwrap() } else { *rng.pick(&names) };
                match store.checkpoint(dir.join(name)) {
                    Ok(_) => {
                        if writes_since_ckpt == 0 && latest.is_some() && latest != Some(name) {
                            idle_ckpts_to_other_path += 1;
                        }
                        latest = Some(name);
                        writes_since_ckpt = 0;
                        trace.push(format!("checkpoint({})=ok", name));
                        r.count("ckpt_paths_checkpoints", 1);
                    }
                    Err(e) => {
                        trace.push(format!("checkpoint({})=Err({})", name, e));
                        r.inconclusive("checkpoint refused");
                        return;
                    }
                }
            }
        }
        // a crash right here (quiescent): copy the directory, recover from the copy
        if rng.chance(1, 3) || step + 1 == steps {
            let live = digest(&store);
            let img = scratch.join(&format!("img{}", step));
            std::fs::create_dir_all(&img).unwrap();
            for e in std::fs::read_dir(&dir).unwrap().flatten() {
                let _ = std::fs::copy(e.path(), img.join(e.file_name()));
            }
            let snap = latest.map(|n| img.join(n));
            let rec = TensorStore::recover(img.join(WAL), &cfg, snap.as_deref());
            r.count("ckpt_paths_images_recovered", 1);
            match rec {
                Err(e) => {
                    r.violation("ckpt-paths:recover-error", format!("{} after {:?}", e, trace), replay);
                    return;
                }
                Ok(rec) => {
                    let got = digest(&rec);
                    if got != live {
                        r.violation(
                            "ckpt-paths:recovered-state-differs-from-live-state",
                            format!("recovering the log + the snapshot of the latest checkpoint ({:?}) shows {:?}, the live store showed {:?}; history {:?}", latest, got, live, trace),
                            replay,
                        );
                        return;
                    }
                }
            }
            let _ = std::fs::remove_dir_all(&img);
        }
    }
    r.count("ckpt_paths_idle_checkpoints_to_another_path", idle_ckpts_to_other_path);
    r.eval(hash_combine(case_seed, 0xC4B7), latest.is_some());
}

/// child mode for the strace leg: `child-ack <dir> <seed> <mode>`; writes "ACK <n>" to fd 1 right
/// after every durable call that returned Ok (immediate mode) or after every successful sync()
/// (batched / manual), so the tracer can check that the log was fsynced before the ack.
fn child_ack(rest: &[String]) {
    use std::io::Write;
    let dir = Path::new(&rest[1]);
    let seed: u64 = rest[2].parse().unwrap();
    let mode = rest[3].as_str();
    let mut rng = Rng::new(seed);
    let mut wal_cfg = WalConfig::default();
    match mode {
        "batched" => wal_cfg.sync_mode = SyncMode::Batched { max_entries: 3 },
        "manual" => wal_cfg.sync_mode = SyncMode::Manual,
        _ => {}
    }
    let cfg = CaseCfg { wal_cfg: wal_cfg.clone(), mode: if mode == "immediate" { "immediate" } else { "batched" }, nkeys: 4, specials: false, rotation: false };
    let store = TensorStore::open_durable(dir.join(WAL), wal_cfg).expect("open");
    let mut wid = 0;
    let mut out = std::io::stdout();
    let mut n = 0;
    for _ in 0..25 {
        let op = gen_op(&mut rng, &cfg, &mut wid, true);
        let acked = match &op {
            Op::Put(k, d) => store.put_durable(k.clone(), d.clone()).is_ok() && mode == "immediate" && !k.starts_with("_cache:"),
            Op::Delete(k) => store.delete_durable(k).is_ok() && mode == "immediate" && !k.starts_with("_cache:"),
            Op::Sync => store.sync().is_ok(),
            Op::Checkpoint => store.checkpoint(dir.join(SNAP)).is_ok(),
        };
        if acked {
            n += 1;
            let _ = out.write_all(format!("ACK {} {}\n", n, op.describe().split(' ').next().unwrap_or("")).as_bytes());
            let _ = out.flush();
        }
    }
}

/// child mode for the checkpoint kill-injection leg: `child-ckpt <dir> <seed>`: seeded durable
/// writes (immediate sync), a first checkpoint, more writes, then - between two marker syscalls -
/// a second checkpoint to the same snapshot path. Prints the hash of the live view (which a
/// checkpoint must not change) before the marked region.
fn child_ckpt(rest: &[String]) {
    use std::io::Write;
    let dir = Path::new(&rest[1]);
    let seed: u64 = rest[2].parse().unwrap();
    let mut rng = Rng::new(seed);
    let wal_cfg = WalConfig::default();
    let cfg = CaseCfg { wal_cfg: wal_cfg.clone(), mode: "immediate", nkeys: 6, specials: false, rotation: false };
    let store = TensorStore::open_durable(dir.join(WAL), wal_cfg).expect("open");
    let mut wid = 0;
    let mut run_ops = |n: usize, rng: &mut Rng, wid: &mut u64| {
        for _ in 0..n {
            match gen_op(rng, &cfg, wid, false) {
                Op::Put(k, d) => {
                    let _ = store.put_durable(k, d);
                }
                Op::Delete(k) => {
                    let _ = store.delete_durable(&k);
                }
                _ => {}
            }
        }
    };
    run_ops(8 + rng.below(10), &mut rng, &mut wid);
    store.checkpoint(dir.join(SNAP)).expect("first checkpoint");
    run_ops(4 + rng.below(10), &mut rng, &mut wid);
    let h = hash_str(&format!("{:?}", view(&store)));
    let mut out = std::io::stdout();
    writeln!(out, "STATE_HASH={}", h).unwrap();
    out.flush().unwrap();
    let _ = std::fs::metadata(dir.join("MARK-BEGIN-CKPT"));
    store.checkpoint(dir.join(SNAP)).expect("second checkpoint");
    let _ = std::fs::metadata(dir.join("MARK-END-CKPT"));
    writeln!(out, "CHECKPOINT_DONE").unwrap();
}

/// child mode: `child-recover <dir>`: recover from whatever is on disk and print the view hash
fn child_recover(rest: &[String]) {
    let dir = Path::new(&rest[1]);
    match TensorStore::recover(dir.join(WAL), &WalConfig::default(), Some(&dir.join(SNAP))) {
        Ok(s) => println!("RECOVERED_HASH={}", hash_str(&format!("{:?}", view(&s)))),
        Err(e) => println!("RECOVER_ERROR={}", format!("{}", e).replace('\n', " ")),
    }
}

fn main() {
    let args = Args::parse();
    if args.rest.first().map(|s| s.as_str()) == Some("child-ack") {
        child_ack(&args.rest);
        return;
    }
    if args.rest.first().map(|s| s.as_str()) == Some("child-ckpt") {
        child_ckpt(&args.rest);
        return;
    }
    if args.rest.first().map(|s| s.as_str()) == Some("child-recover") {
        child_recover(&args.rest);
        return;
    }
    let started = Instant::now();
    quiet_panics();
    install_hooks();
    let mut total = Report::new();
    if let Some(p) = &args.replay {
        let v: Value = serde_json::from_str(&std::fs::read_to_string(p).expect("replay")).expect("json");
        let rp = &v["replay"];
        if rp["part"].as_str() == Some("ckpt-paths") {
            ckpt_paths_case(rp["case_seed"].as_u64().unwrap(), &mut total, &args);
        } else if rp["part"].as_str() == Some("large-record") {
            large_record_case(rp["case_seed"].as_u64().unwrap(), &mut total, &args);
        } else {
            run_case(rp["case_seed"].as_u64().unwrap(), &mut total, &args, rp["image"].as_str());
        }
    } else {
        let n = args.by_tier(3_000u64, 200_000u64);
        let a2 = args.clone();
        let rep = par_cases(args.threads, args.seed, n, args.budget(55, 1200), move |_i, s, r| run_case(s, r, &a2, None));
        total.merge(rep);
        let a3 = args.clone();
        let rep = par_cases(3, args.seed ^ 0xB16, args.by_tier(6u64, 60u64), args.budget(30, 240), move |_i, s, r| large_record_case(s, r, &a3));
        total.merge(rep);
        let a4 = args.clone();
        let rep = par_cases(args.threads, args.seed ^ 0xC4B7, args.by_tier(300u64, 20_000u64), args.budget(10, 120), move |_i, s, r| ckpt_paths_case(s, r, &a4));
        total.merge(rep);
    }
    let meta = Meta {
        property: "C02",
        rule: "one case = a seeded history of 6-35 put_durable/delete_durable/sync/checkpoint calls (all value kinds, key classes plain/emb/node/edge/table/blob/cache, sync modes immediate/batched/manual, 10% with a tiny WAL size limit to force rotation) on the real TensorStore; crash images = directory after every call, log cut at sampled or all bytes inside each call's on-disk growth (every record: header bytes, payload middle, last byte, record boundaries of multi-record calls), directory inside checkpoint()/rotate() at the hook points, partial snapshot temp files; each image recovered with TensorStore::recover and compared with the live views S_lo..S_hi; 3-8 images per case are continued (write more, crash again, up to 3 crashes); plus a few histories containing one acknowledged value of 1 MiB / 16 MiB / 32 MiB; plus histories whose checkpoints go to changing snapshot paths (also back to back without a write in between), recovered at quiescent points from the log and the snapshot of the latest successful checkpoint. Distinct = hash of (history, mode); non-trivial = history leaves a non-empty state and produced > 5 crash images.",
        assumptions: vec![
            "crash = process crash: the files hold a prefix of the bytes written; page-cache loss (power failure) cannot be observed here - fsync ordering is checked separately by the strace leg".into(),
            "under batched/manual sync a write counts as acknowledged only once a later explicit sync() or checkpoint() returned".into(),
            "_cache: keys are excluded from every comparison (documented non-durable)".into(),
        ],
        floors: if args.replay.is_some() { vec![] } else { vec![("evaluations", 20), ("crash_images_recovered", 1500), ("torn_record_images", 300), ("mid_checkpoint_or_rotation_images", 20), ("chained_sessions", 10), ("large_record_recoveries", 2), ("ckpt_paths_images_recovered", 300), ("ckpt_paths_idle_checkpoints_to_another_path", 30)] },
        exhaustive: false,
    };
    write_result(&args, &meta, &total, started);
}
