//! Shared helpers of the tensor_store harnesses: value/key generators over all value kinds and
//! key classes, a canonical NaN-aware "view" of a store read through its public API, and
//! directory images (the bytes of every file of a durable store) for crash simulation.

use common::Rng;
use std::collections::BTreeMap;
use std::path::Path;
use tensor_store::{ScalarValue, SparseVector, TensorData, TensorStore, TensorValue};

pub fn install_hooks() {
    tensor_store::verif_hooks::set(common::sched::on_point);
}

// ---------------------------------------------------------------------------------------------
// generators
// ---------------------------------------------------------------------------------------------

pub const KEY_CLASSES: &[&str] = &["plain", "emb", "node", "edge", "table", "blob", "cache"];

pub fn gen_key(rng: &mut Rng, nkeys: usize, with_cache: bool) -> String {
    let i = rng.below(nkeys);
    let classes: &[&str] = if with_cache {
        &["k:", "emb:", "emb:", "node:", "edge:", "table:", "_blob:meta:", "_cache:", "user/é:"]
    } else {
        &["k:", "emb:", "emb:", "node:", "edge:", "table:", "_blob:meta:", "user/é:"]
    };
    format!("{}{}", rng.pick(classes), i)
}

pub fn gen_f64(rng: &mut Rng) -> f64 {
    match rng.below(10) {
        0 => f64::NAN,
        1 => f64::INFINITY,
        2 => f64::NEG_INFINITY,
        3 => -0.0,
        4 => 0.0,
        5 => f64::MIN_POSITIVE,
        6 => f64::MAX,
        _ => rng.f64_in(-1e6, 1e6),
    }
}

pub fn gen_f32(rng: &mut Rng, specials: bool) -> f32 {
    if specials {
        match rng.below(24) {
            0 => return f32::NAN,
            1 => return f32::INFINITY,
            2 => return -0.0,
            3 => return f32::MIN_POSITIVE,
            4 => return f32::MAX,
            _ => {}
        }
    }
    rng.f64_in(-2.0, 2.0) as f32
}

pub fn gen_string(rng: &mut Rng) -> String {
    match rng.below(6) {
        0 => String::new(),
        1 => "héllo wörld ✓ 日本".to_string(),
        2 => "a\0b\n\"quoted\"".to_string(),
        3 => "x".repeat(1 + rng.below(300)),
        _ => format!("s{}", rng.next_u64() % 100_000),
    }
}

pub fn gen_vector(rng: &mut Rng, dim: usize, specials: bool) -> Vec<f32> {
    let sparse = rng.chance(1, 3);
    (0..dim)
        .map(|_| if sparse && rng.chance(4, 5) { 0.0 } else { gen_f32(rng, specials) })
        .collect()
}

pub fn gen_scalar(rng: &mut Rng) -> ScalarValue {
    match rng.below(9) {
        0 => ScalarValue::Null,
        1 => ScalarValue::Bool(rng.bool()),
        2 => ScalarValue::Int(*rng.pick(&[i64::MIN, i64::MAX, 0, -1, 1])),
        3 => ScalarValue::Int(rng.range(-1000, 1000)),
        4 | 5 => ScalarValue::Float(gen_f64(rng)),
        6 => ScalarValue::String(gen_string(rng)),
        7 => {
            let n = rng.below(40);
            ScalarValue::Bytes(rng.bytes(n))
        }
        _ => ScalarValue::Bytes(Vec::new()),
    }
}

pub fn gen_value(rng: &mut Rng, specials: bool) -> TensorValue {
    match rng.below(10) {
        0..=4 => TensorValue::Scalar(gen_scalar(rng)),
        5 => {
            let dim = *rng.pick(&[1usize, 3, 8, 64]);
            TensorValue::Vector(gen_vector(rng, dim, specials))
        }
        6 => {
            let dim = *rng.pick(&[4usize, 16, 100]);
            let dense: Vec<f32> = (0..dim).map(|_| if rng.chance(3, 4) { 0.0 } else { 0.5 + rng.unit_f64() as f32 }).collect();
            TensorValue::Sparse(SparseVector::from_dense(&dense))
        }
        7 => TensorValue::Pointer(format!("node:{}", rng.below(50))),
        8 => TensorValue::Pointers((0..rng.below(4)).map(|i| format!("edge:{}", i)).collect()),
        _ => TensorValue::Vector(Vec::new()),
    }
}

/// A value for `key`; every field is tagged with `id` (the unique write id) so that a value read
/// back names the write that produced it. `emb:` keys get an `_embedding` most of the time, of
/// the slab dimension (384) or another one.
pub fn gen_data(rng: &mut Rng, key: &str, id: u64, specials: bool) -> TensorData {
    let mut d = TensorData::new();
    d.set("_wid", TensorValue::Scalar(ScalarValue::Int(id as i64)));
    for f in 0..rng.below(4) {
        d.set(format!("f{}", f), gen_value(rng, specials));
    }
    if key.starts_with("emb:") && rng.chance(4, 5) {
        let v = if rng.chance(3, 4) {
            gen_slab_vector_exact(rng, id)
        } else {
            let dim = *rng.pick(&[3usize, 128, 512]);
            let mut v = gen_vector(rng, dim, specials);
            v[0] = id as f32; // make the vector identify its write too
            v
        };
        d.set("_embedding", TensorValue::Vector(v));
    }
    if key.starts_with("node:") {
        d.set("_type", TensorValue::Scalar(ScalarValue::String("node".into())));
    }
    d
}

/// A 384-dim vector (the embedding slab's dimension) that every snapshot format stores exactly:
/// at least 55% exact zeros (so the slab snapshot picks its sparse representation, which keeps
/// every component above 1e-6 bit-exactly), finite non-zero components of magnitude >= 0.01.
/// Element 0 carries the write id. (Dense >= 256-dim vectors go through the lossy tensor-train
/// path of snapshots; those are judged by C07 against the documented tolerance, not here.)
pub fn gen_slab_vector_exact(rng: &mut Rng, id: u64) -> Vec<f32> {
    let mut v: Vec<f32> = (0..384)
        .map(|_| {
            if rng.chance(3, 5) {
                0.0
            } else {
                let m = 0.01 + rng.unit_f64() as f32 * 2.0;
                if rng.bool() {
                    m
                } else {
                    -m
                }
            }
        })
        .collect();
    let nz = v.iter().filter(|x| **x != 0.0).count();
    // enforce the zero share deterministically
    if nz * 20 > 384 * 9 {
        let mut extra = nz - 384 * 9 / 20;
        for x in v.iter_mut().skip(1) {
            if extra == 0 {
                break;
            }
            if *x != 0.0 {
                *x = 0.0;
                extra -= 1;
            }
        }
    }
    v[0] = id as f32 + 1.0;
    v
}

// ---------------------------------------------------------------------------------------------
// canonical view
// ---------------------------------------------------------------------------------------------

pub fn canon_value(v: &TensorValue) -> String {
    match v {
        TensorValue::Scalar(s) => match s {
            ScalarValue::Null => "null".into(),
            ScalarValue::Bool(b) => format!("b:{}", b),
            ScalarValue::Int(i) => format!("i:{}", i),
            ScalarValue::Float(f) => {
                if f.is_nan() {
                    "f:NaN".into()
                } else {
                    format!("f:{:016x}", f.to_bits())
                }
            }
            ScalarValue::String(s) => format!("s:{:?}", s),
            ScalarValue::Bytes(b) => format!("y:{}", hex(b)),
        },
        TensorValue::Vector(xs) => format!("v[{}]:{}", xs.len(), canon_f32s(xs)),
        TensorValue::Sparse(sv) => format!(
            "sp[{}]:{:?}:{}",
            sv.dimension(),
            sv.positions(),
            canon_f32s(sv.values())
        ),
        TensorValue::Pointer(p) => format!("p:{:?}", p),
        TensorValue::Pointers(ps) => format!("ps:{:?}", ps),
    }
}

pub fn canon_f32s(xs: &[f32]) -> String {
    let mut s = String::with_capacity(xs.len() * 9);
    for x in xs {
        if x.is_nan() {
            s.push_str("NaN,");
        } else {
            s.push_str(&format!("{:08x},", x.to_bits()));
        }
    }
    s
}

pub fn hex(b: &[u8]) -> String {
    let mut s = String::with_capacity(b.len() * 2);
    for x in b {
        s.push_str(&format!("{:02x}", x));
    }
    s
}

pub fn canon_data(d: &TensorData) -> String {
    let mut fields: Vec<(&String, &TensorValue)> = d.fields_iter().collect();
    fields.sort_by(|a, b| a.0.cmp(b.0));
    let mut s = String::new();
    for (k, v) in fields {
        s.push_str(k);
        s.push('=');
        s.push_str(&canon_value(v));
        s.push(';');
    }
    s
}

pub type View = BTreeMap<String, String>;

/// Everything the store shows through scan("") + get, except non-durable cache keys.
pub fn view(store: &TensorStore) -> View {
    let mut v = View::new();
    for k in store.scan("") {
        if k.starts_with("_cache:") {
            continue;
        }
        match store.get(&k) {
            Ok(d) => {
                v.insert(k, canon_data(&d));
            }
            Err(_) => {
                v.insert(k, "<listed by scan but get fails>".into());
            }
        }
    }
    v
}

pub fn view_diff(a: &View, b: &View) -> String {
    let mut out = Vec::new();
    for (k, va) in a {
        match b.get(k) {
            None => out.push(format!("-{}", k)),
            Some(vb) if vb != va => out.push(format!("~{} [{}] vs [{}]", k, trunc(va, 160), trunc(vb, 160))),
            _ => {}
        }
    }
    for k in b.keys() {
        if !a.contains_key(k) {
            out.push(format!("+{}", k));
        }
    }
    out.join(" | ")
}

pub fn trunc(s: &str, n: usize) -> String {
    if s.len() <= n {
        s.to_string()
    } else {
        let mut e = n;
        while !s.is_char_boundary(e) {
            e -= 1;
        }
        format!("{}…", &s[..e])
    }
}

// ---------------------------------------------------------------------------------------------
// directory images
// ---------------------------------------------------------------------------------------------

/// file name -> bytes, for every regular file in `dir`
pub type DirImage = BTreeMap<String, Vec<u8>>;

pub fn read_dir_image(dir: &Path) -> DirImage {
    let mut m = DirImage::new();
    if let Ok(rd) = std::fs::read_dir(dir) {
        for e in rd.flatten() {
            if e.path().is_file() {
                if let Ok(b) = std::fs::read(e.path()) {
                    m.insert(e.file_name().to_string_lossy().to_string(), b);
                }
            }
        }
    }
    m
}

pub fn write_dir_image(dir: &Path, img: &DirImage) {
    let _ = std::fs::remove_dir_all(dir);
    std::fs::create_dir_all(dir).expect("mkdir image");
    for (name, bytes) in img {
        std::fs::write(dir.join(name), bytes).expect("write image file");
    }
}
