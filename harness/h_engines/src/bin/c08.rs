//! C08 — rolling back to a checkpoint restores exactly the checkpointed database.
//!
//! Technique: record-and-compare on the REAL `QueryRouter`. Everything the oracle judges goes through
//! `QueryRouter::execute_parsed` (CHECKPOINT, ROLLBACK TO, CHECKPOINTS and the read statements).
//!
//! One case = one program ("script") run on a fresh router:
//!   random relational / graph / vector statements, `CHECKPOINT` (named or unnamed), more statements,
//!   further checkpoints, `ROLLBACK TO` any still-listed checkpoint (by id or by name), a battery of
//!   writes that must work on a healthy database, more statements, further cycles (incl. rolling back
//!   to the same checkpoint again).
//!
//! Oracles
//!   * observation vector: a fixed list of read statements (SHOW TABLES, SELECT per table with scan /
//!     equality on the indexable column `a` / equality on the never-indexed column `b` / range /
//!     COUNT(*), DESCRIBE, NODE GET / NEIGHBORS x3 / EDGE GET for every id 1..=48, NODE LIST, EDGE LIST,
//!     FIND NODE/EDGE, CONSTRAINT LIST, GRAPH INDEX SHOW, EMBED GET per key, SIMILAR by vector (3 metrics)
//!     and by key, COUNT/SHOW EMBEDDINGS) is recorded right after `CHECKPOINT c` returns and must be
//!     answered identically right after `ROLLBACK TO c` returns (sets compared as sets; SIMILAR compared
//!     on exact scores and on keys except inside a score tie that the LIMIT cuts).
//!   * usable afterwards: after a rollback, INSERT / UPDATE / DELETE / CREATE TABLE / CREATE INDEX /
//!     NODE CREATE / EDGE CREATE / EMBED STORE must succeed, be visible through scan and equality reads,
//!     and leave every other row / node / edge as it was.
//!   * checkpoint list: `ROLLBACK TO` is not a retention event — the set listed by `CHECKPOINTS` must be the
//!     same before and after it; a created checkpoint is listed; a listed checkpoint can be restored.
//!   * retention (part "retention", creations >= 1.1 s apart because stamps have 1 s granularity): with
//!     max N the listed set after every creation is exactly the last min(i, N) created, and each of them
//!     can be rolled back to with its recorded observation vector.
//!   * repeated cycles under retention (part "recycle", same 1.1 s spacing, max N in 1..3): checkpoint
//!     creations (manual with names drawn WITH repetition from a pool of N or N+1 names, and automatic
//!     ones, whose names repeat by construction) are interleaved with rollbacks to any retained checkpoint
//!     (three quarters by name), write batteries and "roll back to every retained checkpoint" sweeps, so
//!     that a name or id used by an earlier ROLLBACK TO is used again after retention has purged
//!     checkpoints (incl. the one the name stood for then) and after the store was put back in time. In a
//!     minority of the programs a retained checkpoint is removed with `CheckpointManager::delete` (set-up
//!     call, itself not judged) - the third way a checkpoint disappears. Same oracles: listed set = newest
//!     min(i, N) after every creation, every listed checkpoint restorable - by its name when exactly one
//!     listed checkpoint carries it - to its own recorded observation vector, list unchanged by a rollback.
//!   * retention after going far back (part "refill", same 1.1 s spacing, max N in 3..4): N..N+1 creations fill
//!     the list, then `ROLLBACK TO` the OLDEST retained checkpoint (sometimes the second oldest of four) - one
//!     with at least two newer checkpoints still retained - puts the whole database, and with it anything the
//!     checkpoint machinery keeps in the database, back to the oldest moment retention still allows; then N..N+1
//!     further creations follow (in two fifths of the gaps another rollback, to any retained checkpoint or to the
//!     oldest one again), i.e. enough that every checkpoint that existed at the time of that rollback has to be
//!     purged. Same oracle after EVERY creation: the listed set is the newest min(i, N) in the order the
//!     statements were executed - a checkpoint created after the rollback is newer than every checkpoint
//!     created before it, whichever image the database content came from - and at the end every retained
//!     checkpoint is rolled back to and compared. (The other two retention parts never get there: with N <= 2
//!     a rollback target has at most one newer retained checkpoint, and they do not follow a rollback with N
//!     creations.)
//!
//! All four statement entry points of the router are driven (`Cfg::async_mode`): execute_parsed,
//! execute_parsed_async, and parse-then-execute_statement / execute_statement_async, either for CHECKPOINT /
//! ROLLBACK TO / CHECKPOINTS only (the statements with an implementation of their own per entry point) or for
//! every statement incl. the observation vector; async ones on a current-thread tokio runtime owned by the
//! harness. Signatures of what is seen after a rollback that did not go through execute_parsed carry
//! `+async-entry` / `+statement-entry` / `+async-statement-entry`. A quarter of the routers sit on a store with
//! a Bloom filter (`QueryRouter::with_shared_store(TensorStore::with_bloom_filter(..))`).
//!
//! Variants per case (drawn from the case seed): auto-checkpoints on/off, 4-dim or 384-dim vectors,
//! router query cache on (relational statements only), VectorEngine HNSW cache built after the checkpoint
//! (observed through four SIMILAR statements on the legacy `QueryRouter::execute` path, the only router path
//! that consults that cache), relational b-tree indexes created through the engine API (consulted by text
//! and float range conditions and by UPDATE / DELETE).
//!
//! Not judged: an index built with `QueryRouter::build_vector_index()` is a manual snapshot that no write
//! ever refreshes (and whose scores differ from the exact search in the last bit), so programs never build it.

use common::*;
use query_router::{QueryResult, QueryRouter};
use serde::{Deserialize, Serialize};
use serde_json::{json, Value};
use std::collections::{BTreeMap, BTreeSet, HashMap};
use std::time::{Duration, Instant};
use tensor_checkpoint::CheckpointConfig;

const NODE_MAX: u64 = 48;
const EDGE_MAX: u64 = 48;
const NODE_GEN_CAP: u64 = 36;
const EDGE_GEN_CAP: u64 = 36;
const TABLES: [&str; 4] = ["t0", "t1", "t2", "t3"];
const LABELS: [&str; 3] = ["person", "city", "thing"];
const ETYPES: [&str; 2] = ["knows", "likes"];
const NKEYS: usize = 8;
/// total number of checkpoints (manual + automatic) per program: every checkpoint image contains all
/// earlier checkpoint images (they live in the store that is snapshotted), so sizes double per checkpoint
const CP_TOTAL_CAP: usize = 9;

// ------------------------------------------------------------------------------------------------
// script
// ------------------------------------------------------------------------------------------------

#[derive(Clone, Debug, Serialize, Deserialize, PartialEq)]
enum Item {
    /// a statement whose own result is not judged
    S(String),
    /// CHECKPOINT ['<name>'] + record the observation vector. `name` None = 'cp<label>'; a name of the
    /// form "@idprefix:<label>" stands for the first 8 characters of that checkpoint's id
    Cp {
        label: u32,
        named: bool,
        #[serde(default)]
        name: Option<String>,
    },
    /// record the observation vector, then run a destructive statement that makes the router take an
    /// automatic checkpoint (auto_checkpoint on, synchronous entry point); the new `is_auto` checkpoint in
    /// the list is the one referred to as cp<label>
    AutoCp { label: u32, stmt: String },
    /// ROLLBACK TO <checkpoint label> + compare
    Rb { label: u32, by_id: bool },
    /// writes that must work
    Battery,
    /// VectorEngine::build_and_cache_index (set-up call, not an observation); consulted by the legacy
    /// `QueryRouter::execute("SIMILAR ..")` path
    Hnsw,
    /// RelationalEngine::create_btree_index(table, column) (set-up call); consulted by range conditions
    /// that the slab SIMD filter does not handle (text, float <= / >=) and by UPDATE / DELETE
    Btree { table: String, col: String },
    Sleep(u64),
    /// CheckpointManager::delete(<id of cp label>) (set-up call, not judged: the harness continues from
    /// what CHECKPOINTS lists afterwards)
    Forget { label: u32 },
}

impl Item {
    fn text(&self) -> String {
        match self {
            Item::S(s) => s.clone(),
            Item::Cp { label, named, name } => {
                if let (true, Some(n)) = (*named, name) {
                    format!("CHECKPOINT '{}'            -- (referred to as cp{})", n, label)
                } else if *named {
                    format!("CHECKPOINT 'cp{}'", label)
                } else {
                    format!("CHECKPOINT            -- (unnamed; referred to as cp{})", label)
                }
            }
            Item::Rb { label, by_id } => format!("ROLLBACK TO {}", if *by_id { format!("'<id of cp{}>'", label) } else { format!("'<name of cp{}>' (its id when the name is not unique)", label) }),
            Item::AutoCp { label, stmt } => format!("{}            -- (destructive: its automatic checkpoint is referred to as cp{})", stmt, label),
            Item::Battery => "-- battery: INSERT/UPDATE/DELETE/CREATE TABLE/CREATE INDEX/NODE CREATE/EDGE CREATE/EMBED STORE must work".into(),
            Item::Hnsw => "-- router.vector().build_and_cache_index(HNSWConfig::default())".into(),
            Item::Btree { table, col } => format!("-- router.relational().create_btree_index(\"{}\", \"{}\")", table, col),
            Item::Sleep(ms) => format!("-- sleep {} ms", ms),
            Item::Forget { label } => format!("-- router.checkpoint().lock().await.delete(\"<id of cp{}>\")", label),
        }
    }
}

#[derive(Clone, Debug, Serialize, Deserialize)]
struct Cfg {
    auto_cp: bool,
    qcache: bool,
    dim: usize,
    max_cp: usize,
    /// creations are >= 1.1 s apart, so the listed set must be exactly the newest max_cp
    strict_retention: bool,
    hnsw: bool,
    #[serde(default)]
    btree: bool,
    /// entry points used instead of `execute_parsed` (async ones on a current-thread tokio runtime owned by
    /// the harness). "cp" = CHECKPOINT / ROLLBACK TO / CHECKPOINTS, the statements with an implementation of
    /// their own on the async side:
    ///   0 none; 1 cp through execute_parsed_async; 2 every statement (incl. the observation vector)
    ///   through execute_parsed_async; 3 cp through parse + execute_statement; 4 cp through parse +
    ///   execute_statement_async; 5 every statement through parse + execute_statement
    #[serde(default)]
    async_mode: u8,
    /// the router's shared store is built with a Bloom filter (TensorStore::with_bloom_filter)
    #[serde(default)]
    bloom: bool,
    /// checkpoint names come from a pool of near-duplicates (same letters in another ASCII case,
    /// leading / trailing blanks, the first characters of another checkpoint's id)
    #[serde(default)]
    near_names: bool,
    /// engine capacity limits: the router is built (QueryRouter::with_engines) over a RelationalEngine with
    /// RelationalConfig::with_max_tables(..).with_max_indexes_per_table(..)
    #[serde(default)]
    max_tables: Option<usize>,
    #[serde(default)]
    max_indexes: Option<usize>,
}

fn name_fold(n: &str) -> String {
    n.trim().to_ascii_lowercase()
}

#[derive(Clone, Copy, Debug, PartialEq)]
enum Entry {
    Parsed,
    ParsedAsync,
    Stmt,
    StmtAsync,
}

// ------------------------------------------------------------------------------------------------
// canonical answers
// ------------------------------------------------------------------------------------------------

#[derive(Clone, Debug, PartialEq)]
enum Ans {
    /// order-insensitive collection of canonical item strings (sorted)
    Items(Vec<String>),
    /// similarity list in the order returned
    Sim(Vec<(String, f32)>),
    Err(String),
}

fn kv_sorted<'a, I: Iterator<Item = (&'a String, &'a String)>>(it: I) -> String {
    let mut v: Vec<String> = it.map(|(k, v)| format!("{}={}", k, v)).collect();
    v.sort();
    v.join(",")
}

fn canon(r: &Result<QueryResult, String>) -> Ans {
    let q = match r {
        Err(e) => return Ans::Err(e.lines().next().unwrap_or("").to_string()),
        Ok(q) => q,
    };
    let mut items: Vec<String> = match q {
        QueryResult::Empty => vec![],
        QueryResult::Value(s) => {
            if let Some(rest) = s.strip_prefix("Embeddings: [") {
                // scan order of a hash map: compare as a set
                rest.split('"').enumerate().filter(|(i, _)| i % 2 == 1).map(|(_, k)| k.to_string()).collect()
            } else {
                vec![s.clone()]
            }
        }
        QueryResult::Count(n) => vec![n.to_string()],
        QueryResult::Ids(v) => v.iter().map(|x| format!("{:08}", x)).collect(),
        QueryResult::Rows(rows) => rows
            .iter()
            .map(|r| {
                let mut vs: Vec<String> = r.values.iter().map(|(k, v)| format!("{}={:?}", k, v)).collect();
                vs.sort();
                format!("{:08}|{}", r.id, vs.join(","))
            })
            .collect(),
        QueryResult::Nodes(ns) => ns.iter().map(|n| format!("{:08}|{}|{}", n.id, n.label, kv_sorted(n.properties.iter()))).collect(),
        QueryResult::Edges(es) => es.iter().map(|e| format!("{:08}|{}->{}|{}", e.id, e.from, e.to, e.label)).collect(),
        QueryResult::Similar(v) => return Ans::Sim(v.iter().map(|s| (s.key.clone(), s.score)).collect()),
        QueryResult::Unified(u) => u
            .items
            .iter()
            .map(|it| format!("{}|{}|{}|{:?}", it.source, it.id, kv_sorted(it.data.iter()), it.score))
            .chain(std::iter::once(format!("desc:{}", u.description)))
            .collect(),
        QueryResult::TableList(v) => v.clone(),
        QueryResult::GraphIndexes(v) => v.clone(),
        QueryResult::Constraints(v) => v.iter().map(|c| format!("{}|{}|{}|{}", c.name, c.target, c.property, c.constraint_type)).collect(),
        other => vec![format!("{:?}", other)],
    };
    items.sort();
    Ans::Items(items)
}

fn short(a: &Ans) -> String {
    let s = match a {
        Ans::Items(v) => format!("{:?}", v),
        Ans::Sim(v) => format!("Similar{:?}", v),
        Ans::Err(e) => format!("ERROR({})", e),
    };
    if s.chars().count() > 420 {
        format!("{}…(+{} chars)", s.chars().take(420).collect::<String>(), s.chars().count() - 420)
    } else {
        s
    }
}

/// `None` if the two answers agree under the rule of their class, otherwise the nature of the difference
fn differ(rec: &Ans, now: &Ans, limit: Option<usize>) -> Option<&'static str> {
    match (rec, now) {
        (Ans::Err(a), Ans::Err(b)) => (a != b).then_some("error-changed"),
        (Ans::Err(_), _) => Some("was-error-now-answers"),
        (_, Ans::Err(_)) => Some("answered-now-error"),
        (Ans::Items(a), Ans::Items(b)) => {
            if a == b {
                return None;
            }
            let sa: BTreeSet<&String> = a.iter().collect();
            let sb: BTreeSet<&String> = b.iter().collect();
            let lost = sa.difference(&sb).count();
            let extra = sb.difference(&sa).count();
            Some(match (lost > 0, extra > 0) {
                (true, false) => "lost",
                (false, true) => "extra",
                _ => "changed",
            })
        }
        (Ans::Sim(a), Ans::Sim(b)) => {
            if a.len() != b.len() {
                return Some(if a.len() > b.len() { "lost" } else { "extra" });
            }
            for (x, y) in a.iter().zip(b.iter()) {
                if !f32_same(x.1, y.1) {
                    return Some("changed");
                }
            }
            // keys: compare per score group; a group cut by LIMIT may legitimately differ
            let truncated = limit.map_or(false, |l| a.len() >= l);
            let mut i = 0;
            while i < a.len() {
                let mut j = i;
                while j < a.len() && f32_same(a[j].1, a[i].1) {
                    j += 1;
                }
                let last_group = j == a.len();
                if !(last_group && truncated) {
                    let ka: BTreeSet<&String> = a[i..j].iter().map(|x| &x.0).collect();
                    let kb: BTreeSet<&String> = b[i..j].iter().map(|x| &x.0).collect();
                    if ka != kb {
                        return Some("changed");
                    }
                }
                i = j;
            }
            None
        }
        _ => Some("changed"),
    }
}

// ------------------------------------------------------------------------------------------------
// observation vector
// ------------------------------------------------------------------------------------------------

#[derive(Clone, Debug)]
struct Q {
    class: &'static str,
    text: String,
    limit: Option<usize>,
    /// through the legacy `QueryRouter::execute` instead of `execute_parsed`
    legacy: bool,
}

fn fmt_f(x: f32) -> String {
    format!("{:?}", x)
}
fn vec_text(v: &[f32]) -> String {
    format!("[{}]", v.iter().map(|x| fmt_f(*x)).collect::<Vec<_>>().join(", "))
}
fn rand_vec(rng: &mut Rng, dim: usize) -> Vec<f32> {
    let mut v: Vec<f32> = (0..dim).map(|_| if dim > 16 && rng.chance(3, 4) { 0.0 } else { rng.below(17) as f32 / 8.0 }).collect();
    if v.iter().all(|x| *x == 0.0) {
        v[0] = 1.0;
    }
    v
}

fn rel_queries() -> Vec<Q> {
    let mut qs = Vec::new();
    qs.push(Q { class: "show-tables", text: "SHOW TABLES".into(), limit: None, legacy: false });
    for t in TABLES {
        qs.push(Q { class: "select-scan", text: format!("SELECT * FROM {}", t), limit: None, legacy: false });
        qs.push(Q { class: "describe-table", text: format!("DESCRIBE TABLE {}", t), limit: None, legacy: false });
        // int conditions are answered by the slab's SIMD filter; text conditions and float <= / >= go
        // through the row path, which consults hash / b-tree indexes when they exist
        for v in 0..=5 {
            qs.push(Q { class: "select-eq-int", text: format!("SELECT * FROM {} WHERE a = {}", t, v), limit: None, legacy: false });
        }
        for s in ["x", "y", "q"] {
            qs.push(Q { class: "select-eq-text", text: format!("SELECT * FROM {} WHERE b = '{}'", t, s), limit: None, legacy: false });
        }
        qs.push(Q { class: "select-range-int", text: format!("SELECT * FROM {} WHERE a > 2", t), limit: None, legacy: false });
        qs.push(Q { class: "select-range-int", text: format!("SELECT a FROM {} WHERE a <= 3", t), limit: None, legacy: false });
        qs.push(Q { class: "select-range-text", text: format!("SELECT * FROM {} WHERE b >= 'q'", t), limit: None, legacy: false });
        qs.push(Q { class: "select-range-text", text: format!("SELECT * FROM {} WHERE b < 'y'", t), limit: None, legacy: false });
        qs.push(Q { class: "select-range-float", text: format!("SELECT * FROM {} WHERE c >= 1.5", t), limit: None, legacy: false });
        qs.push(Q { class: "select-range-float", text: format!("SELECT * FROM {} WHERE c <= 1.5", t), limit: None, legacy: false });
        qs.push(Q { class: "select-count", text: format!("SELECT COUNT(*) FROM {}", t), limit: None, legacy: false });
    }
    qs
}

fn all_queries(cfg: &Cfg) -> Vec<Q> {
    let mut qs = rel_queries();
    if cfg.qcache {
        // with the router's query cache on, only relational statements are used (the cache is not
        // invalidated by graph / vector writes at all, which is outside this property)
        return qs;
    }
    for i in 1..=NODE_MAX {
        qs.push(Q { class: "node-get", text: format!("NODE GET {}", i), limit: None, legacy: false });
        qs.push(Q { class: "neighbors", text: format!("NEIGHBORS {} OUTGOING", i), limit: None, legacy: false });
        qs.push(Q { class: "neighbors", text: format!("NEIGHBORS {} INCOMING", i), limit: None, legacy: false });
        qs.push(Q { class: "neighbors", text: format!("NEIGHBORS {} BOTH", i), limit: None, legacy: false });
    }
    for i in 1..=EDGE_MAX {
        qs.push(Q { class: "edge-get", text: format!("EDGE GET {}", i), limit: None, legacy: false });
    }
    qs.push(Q { class: "node-list", text: "NODE LIST".into(), limit: None, legacy: false });
    qs.push(Q { class: "node-list", text: "NODE LIST person".into(), limit: None, legacy: false });
    qs.push(Q { class: "edge-list", text: "EDGE LIST".into(), limit: None, legacy: false });
    qs.push(Q { class: "edge-list", text: "EDGE LIST knows".into(), limit: None, legacy: false });
    qs.push(Q { class: "find-node", text: "FIND NODE city".into(), limit: None, legacy: false });
    qs.push(Q { class: "find-edge", text: "FIND EDGE likes".into(), limit: None, legacy: false });
    qs.push(Q { class: "graph-constraint-list", text: "CONSTRAINT LIST".into(), limit: None, legacy: false });
    qs.push(Q { class: "graph-index-show", text: "GRAPH INDEX SHOW ON NODE".into(), limit: None, legacy: false });
    qs.push(Q { class: "graph-index-show", text: "GRAPH INDEX SHOW ON EDGE".into(), limit: None, legacy: false });
    for k in 0..NKEYS {
        qs.push(Q { class: "embed-get", text: format!("EMBED GET 'k{}'", k), limit: None, legacy: false });
    }
    let mut rng = Rng::new(0xC08 + cfg.dim as u64);
    for j in 0..3 {
        let v = rand_vec(&mut rng, cfg.dim);
        let metric = ["COSINE", "EUCLIDEAN", "DOT_PRODUCT"][j];
        for lim in [3usize, 20] {
            qs.push(Q { class: "similar", text: format!("SIMILAR {} LIMIT {} {}", vec_text(&v), lim, metric), limit: Some(lim), legacy: false });
        }
    }
    for k in [0usize, 3] {
        qs.push(Q { class: "similar", text: format!("SIMILAR 'k{}' LIMIT 4", k), limit: Some(4), legacy: false });
        qs.push(Q { class: "legacy-execute-similar", text: format!("SIMILAR k{} TOP 4", k), limit: Some(4), legacy: true });
    }
    {
        let v = rand_vec(&mut rng, cfg.dim);
        for lim in [3usize, 20] {
            qs.push(Q { class: "legacy-execute-similar", text: format!("SIMILAR {} TOP {}", vec_text(&v), lim), limit: Some(lim), legacy: true });
        }
    }
    qs.push(Q { class: "count-embeddings", text: "COUNT EMBEDDINGS".into(), limit: None, legacy: false });
    qs.push(Q { class: "show-embeddings", text: "SHOW EMBEDDINGS".into(), limit: None, legacy: false });
    qs
}

// ------------------------------------------------------------------------------------------------
// runner
// ------------------------------------------------------------------------------------------------

#[derive(Clone, Debug)]
struct Viol {
    sig: String,
    detail: String,
    /// index of the script item during which it was found
    at: usize,
}

struct CpRec {
    id: String,
    name: String,
    obs: Vec<Ans>,
    /// no approximate index could have answered the legacy-path SIMILAR statements when they were recorded
    legacy_sim_exact: bool,
    /// a write succeeded since this checkpoint was taken (for the non-triviality rule)
    nonempty: bool,
}

#[derive(Clone, Debug)]
struct Listed {
    id: String,
    name: String,
    auto: bool,
}

/// what the statement source may look at
struct View {
    listed_labels: Vec<u32>,
    newest_label: Option<u32>,
    cps_total: usize,
    node_hi: u64,
    edge_hi: u64,
}

trait Source {
    fn next(&mut self, view: &View) -> Option<Item>;
    /// result of an `Item::S` just executed, and rollbacks that happened
    fn fed(&mut self, _item: &Item, _res: Option<&Result<QueryResult, String>>) {}
}

struct Fixed {
    items: Vec<Item>,
    pos: usize,
}
impl Source for Fixed {
    fn next(&mut self, _v: &View) -> Option<Item> {
        let it = self.items.get(self.pos).cloned();
        self.pos += 1;
        it
    }
}

struct Runner {
    cfg: Cfg,
    router: QueryRouter,
    rt: tokio::runtime::Runtime,
    last_rb_entry: Entry,
    queries: Vec<Q>,
    recs: HashMap<u32, CpRec>,
    /// checkpoints that must currently be listed, oldest first
    expected: Vec<Listed>,
    label_of: HashMap<String, u32>,
    cps_total: usize,
    node_hi: u64,
    edge_hi: u64,
    hnsw_live: bool,
    btree_tables: BTreeSet<String>,
    bat_n: u32,
    viols: Vec<Viol>,
    counters: BTreeMap<String, u64>,
    log: Vec<Item>,
    trace: bool,
    nontrivial_rollbacks: u64,
    last_rb: Option<u32>,
    constraint_stmt_since_rb: bool,
    /// every checkpoint CHECKPOINTS ever listed: id -> name
    ever_listed: BTreeMap<String, String>,
    /// text given to an earlier successful ROLLBACK TO -> id of the checkpoint it stood for then
    rb_resolved: HashMap<String, String>,
    /// checkpoints that retention (strict part) or CheckpointManager::delete has removed so far
    purged: u64,
    rb_since_creation: bool,
    /// ids listed when the earliest not yet turned-over "deep" rollback happened (strict retention only): a
    /// rollback to a checkpoint with at least two newer retained ones. Evidence only.
    deep_rb: Option<BTreeSet<String>>,
}

fn count(c: &mut BTreeMap<String, u64>, k: &str, n: u64) {
    *c.entry(k.to_string()).or_insert(0) += n;
}

fn names(ls: &[Listed], label_of: &HashMap<String, u32>) -> Vec<String> {
    ls.iter()
        .map(|l| label_of.get(&l.id).map(|x| format!("cp{}", x)).unwrap_or_else(|| if l.auto { format!("auto:{}", l.name) } else { format!("?{}", l.name) }))
        .collect()
}

impl Runner {
    fn new(cfg: &Cfg, trace: bool) -> Result<Runner, String> {
        let mut router = if let Some(mt) = cfg.max_tables {
            let store = if cfg.bloom { tensor_store::TensorStore::with_bloom_filter(10_000, 0.01) } else { tensor_store::TensorStore::new() };
            let mut rc = relational_engine::RelationalConfig::default().with_max_tables(mt);
            if let Some(mi) = cfg.max_indexes {
                rc = rc.with_max_indexes_per_table(mi);
            }
            QueryRouter::with_engines(
                std::sync::Arc::new(relational_engine::RelationalEngine::with_store_and_config(store.clone(), rc)),
                std::sync::Arc::new(graph_engine::GraphEngine::with_store(store.clone())),
                std::sync::Arc::new(vector_engine::VectorEngine::with_store(store)),
            )
        } else if cfg.bloom {
            QueryRouter::with_shared_store(tensor_store::TensorStore::with_bloom_filter(10_000, 0.01))
        } else {
            QueryRouter::new()
        };
        router.init_blob().map_err(|e| format!("init_blob: {}", e))?;
        router
            .init_checkpoint_with_config(CheckpointConfig::default().with_max_checkpoints(cfg.max_cp).with_auto_checkpoint(cfg.auto_cp))
            .map_err(|e| format!("init_checkpoint: {}", e))?;
        if cfg.qcache {
            router.init_cache();
        }
        let rt = tokio::runtime::Builder::new_current_thread().enable_time().build().map_err(|e| format!("tokio runtime: {}", e))?;
        Ok(Runner {
            cfg: cfg.clone(),
            router,
            rt,
            last_rb_entry: Entry::Parsed,
            queries: all_queries(cfg),
            recs: HashMap::new(),
            expected: Vec::new(),
            label_of: HashMap::new(),
            cps_total: 0,
            node_hi: 0,
            edge_hi: 0,
            hnsw_live: false,
            btree_tables: BTreeSet::new(),
            bat_n: 0,
            viols: Vec::new(),
            counters: BTreeMap::new(),
            log: Vec::new(),
            trace,
            nontrivial_rollbacks: 0,
            last_rb: None,
            constraint_stmt_since_rb: false,
            ever_listed: BTreeMap::new(),
            rb_resolved: HashMap::new(),
            purged: 0,
            rb_since_creation: false,
            deep_rb: None,
        })
    }

    fn entry_for(&self, s: &str) -> Entry {
        let up = s.trim_start().to_ascii_uppercase();
        let cp = up.starts_with("CHECKPOINT") || up.starts_with("ROLLBACK");
        match self.cfg.async_mode {
            1 if cp => Entry::ParsedAsync,
            // NODE LIST / EDGE LIST / FIND build a tokio runtime of their own and block on it; awaited
            // from any runtime they panic ("Cannot start a runtime from within a runtime"). That is a
            // defect of the async entry point but not one of this property, so they stay synchronous.
            2 if !(up.starts_with("NODE LIST") || up.starts_with("EDGE LIST") || up.starts_with("FIND ")) => Entry::ParsedAsync,
            3 if cp => Entry::Stmt,
            4 if cp => Entry::StmtAsync,
            5 => Entry::Stmt,
            _ => Entry::Parsed,
        }
    }

    /// one statement through the entry point this case uses for it
    fn run_text(&self, s: &str) -> Result<QueryResult, String> {
        match self.entry_for(s) {
            Entry::Parsed => self.router.execute_parsed(s).map_err(|e| e.to_string()),
            Entry::ParsedAsync => self.rt.block_on(self.router.execute_parsed_async(s)).map_err(|e| e.to_string()),
            e => {
                let stmt = match neumann_parser::parse(s) {
                    Ok(st) => st,
                    Err(pe) => return Err(format!("Parse error: {}", pe.format_with_source(s))),
                };
                if e == Entry::Stmt {
                    self.router.execute_statement(&stmt).map_err(|e| e.to_string())
                } else {
                    self.rt.block_on(self.router.execute_statement_async(&stmt)).map_err(|e| e.to_string())
                }
            }
        }
    }

    fn entry_tag(&self) -> &'static str {
        match self.last_rb_entry {
            Entry::Parsed => "",
            Entry::ParsedAsync => "+async-entry",
            Entry::Stmt => "+statement-entry",
            Entry::StmtAsync => "+async-statement-entry",
        }
    }

    fn exec(&mut self, s: &str) -> Result<QueryResult, String> {
        let r = self.run_text(s);
        if self.trace {
            let shown: String = s.chars().take(160).collect();
            eprintln!("    {}\n        => {}", shown, short(&canon(&r)));
        }
        r
    }

    fn viol(&mut self, sig: impl Into<String>, detail: impl Into<String>) {
        let at = self.log.len().saturating_sub(1);
        let sig = sig.into();
        let detail = detail.into();
        if detail.to_ascii_lowercase().contains("timeout") || detail.to_ascii_lowercase().contains("timed out") {
            // the engines have wall-clock query deadlines; on a loaded machine a deadline is not a verdict
            count(&mut self.counters, "inconclusive_engine_timeouts", 1);
            return;
        }
        if self.trace {
            eprintln!("!!! VIOLATION {} at item {}: {}", sig, at, detail);
        }
        self.viols.push(Viol { sig, detail, at });
    }

    fn observe(&mut self) -> Vec<Ans> {
        let qs = std::mem::take(&mut self.queries);
        let out: Vec<Ans> = qs
            .iter()
            .map(|q| {
                let r = if q.legacy { self.router.execute(&q.text).map_err(|e| e.to_string()) } else { self.run_text(&q.text) };
                canon(&r)
            })
            .collect();
        count(&mut self.counters, "observation_queries_executed", qs.len() as u64);
        self.queries = qs;
        out
    }

    fn list(&mut self) -> Result<Vec<Listed>, String> {
        match self.exec("CHECKPOINTS LIMIT 1000") {
            Ok(QueryResult::CheckpointList(v)) => {
                let l: Vec<Listed> = v.into_iter().map(|c| Listed { id: c.id, name: c.name, auto: c.is_auto }).collect();
                for x in &l {
                    self.ever_listed.entry(x.id.clone()).or_insert_with(|| x.name.clone());
                }
                Ok(l)
            }
            Ok(o) => Err(format!("unexpected result {:?}", o)),
            Err(e) => Err(e),
        }
    }

    fn view(&self) -> View {
        let listed_labels: Vec<u32> = self.expected.iter().filter_map(|l| self.label_of.get(&l.id).copied()).filter(|l| self.recs.contains_key(l)).collect();
        View { newest_label: listed_labels.last().copied(), listed_labels, cps_total: self.cps_total, node_hi: self.node_hi, edge_hi: self.edge_hi }
    }

    /// learn automatic checkpoints created by destructive statements (they are listed with is_auto)
    fn absorb_auto(&mut self, listed: &[Listed]) {
        // `listed` is newest first
        for l in listed.iter().rev() {
            if l.auto && !self.expected.iter().any(|e| e.id == l.id) {
                self.expected.push(l.clone());
                self.cps_total += 1;
                count(&mut self.counters, "auto_checkpoints_seen", 1);
            }
        }
    }

    /// make `expected` equal to what is listed, keeping the creation order the harness observed
    /// (the order of the list itself is unreliable inside one second)
    fn resync(&mut self, listed: &[Listed]) {
        let mut next: Vec<Listed> = self.expected.iter().filter(|e| listed.iter().any(|l| l.id == e.id)).cloned().collect();
        for l in listed.iter().rev() {
            if !next.iter().any(|e| e.id == l.id) {
                next.push(l.clone());
            }
        }
        self.expected = next;
    }

    fn mark_write(&mut self) {
        for rec in self.recs.values_mut() {
            rec.nonempty = true;
        }
    }

    fn do_stmt(&mut self, s: &str) -> Result<QueryResult, String> {
        let r = self.exec(s);
        let up = s.trim_start().to_ascii_uppercase();
        if up.starts_with("CONSTRAINT") {
            self.constraint_stmt_since_rb = true;
        }
        let is_read = up.starts_with("SELECT") || up.starts_with("NEIGHBORS") || up.starts_with("SIMILAR") || up.starts_with("SHOW") || up.contains(" GET ") || up.contains(" LIST");
        match &r {
            Ok(q) => {
                count(&mut self.counters, "statements_ok", 1);
                if !is_read {
                    self.mark_write();
                    count(&mut self.counters, "write_statements_ok", 1);
                    let engine = if up.starts_with("NODE") || up.starts_with("EDGE") || up.starts_with("CONSTRAINT") || up.starts_with("GRAPH") {
                        "graph"
                    } else if up.starts_with("EMBED") {
                        "vector"
                    } else {
                        "relational"
                    };
                    count(&mut self.counters, &format!("write_statements_ok[{}]", engine), 1);
                }
                if let QueryResult::Ids(ids) = q {
                    if up.starts_with("NODE CREATE") {
                        self.node_hi = self.node_hi.max(ids.iter().copied().max().unwrap_or(0));
                    } else if up.starts_with("EDGE CREATE") {
                        self.edge_hi = self.edge_hi.max(ids.iter().copied().max().unwrap_or(0));
                    }
                }
                if up.starts_with("EMBED STORE") || up.starts_with("EMBED DELETE") || up.starts_with("EMBED BATCH") {
                    self.hnsw_live = false;
                }
            }
            Err(_) => count(&mut self.counters, "statements_err", 1),
        }
        r
    }

    fn do_checkpoint(&mut self, label: u32, named: bool, name: Option<&String>) {
        if self.recs.contains_key(&label) {
            return;
        }
        let wanted: Option<String> = match (named, name) {
            (false, _) => None,
            (true, None) => Some(format!("cp{}", label)),
            (true, Some(n)) => Some(match n.strip_prefix("@idprefix:").and_then(|l| l.parse::<u32>().ok()) {
                Some(l) => self.recs.get(&l).map(|r| r.id.chars().take(8).collect()).unwrap_or_else(|| format!("cp{}", label)),
                None => n.clone(),
            }),
        };
        let text = match &wanted {
            Some(n) => format!("CHECKPOINT '{}'", n),
            None => "CHECKPOINT".to_string(),
        };
        // automatic checkpoints made since the last look
        if self.cfg.auto_cp {
            if let Ok(l) = self.list() {
                self.absorb_auto(&l);
            }
        }
        let id = match self.exec(&text) {
            Ok(QueryResult::Value(s)) => match s.strip_prefix("Checkpoint created: ") {
                Some(id) => id.trim().to_string(),
                None => {
                    self.viol("checkpoint:create-unexpected-result", format!("`{}` returned Value({:?})", text, s));
                    return;
                }
            },
            Ok(o) => {
                self.viol("checkpoint:create-unexpected-result", format!("`{}` returned {:?}", text, o));
                return;
            }
            Err(e) => {
                self.viol("checkpoint:create-failed", format!("`{}` failed: {}", text, e));
                return;
            }
        };
        // record first: "at the moment the checkpoint was taken"
        let obs = self.observe();
        count(&mut self.counters, "checkpoints_created", 1);
        self.cps_total += 1;
        self.label_of.insert(id.clone(), label);
        let listed = match self.list() {
            Ok(l) => l,
            Err(e) => {
                self.viol("checkpoints:list-failed", format!("CHECKPOINTS failed after `{}`: {}", text, e));
                return;
            }
        };
        let name = listed.iter().find(|l| l.id == id).map(|l| l.name.clone()).unwrap_or_else(|| wanted.clone().unwrap_or_default());
        if let Some(w) = &wanted {
            if listed.iter().any(|l| l.id == id) && &name != w {
                self.viol("checkpoints:listed-name-differs-from-given-name", format!("`{}` created {} but CHECKPOINTS lists it under the name {:?}", text, id, name));
            }
            if self.expected.iter().any(|e| e.name != *w && name_fold(&e.name) == name_fold(w)) {
                count(&mut self.counters, "checkpoints_with_near_duplicate_name", 1);
            }
        }
        self.expected.push(Listed { id: id.clone(), name: name.clone(), auto: false });
        self.check_created(&text, &id, &listed);
        self.recs.insert(label, CpRec { id, name, obs, legacy_sim_exact: !self.hnsw_live, nonempty: false });
    }

    /// `expected` already ends with the checkpoint just created (id `id`); apply retention to it where the
    /// creation stamps allow a verdict, and compare with what CHECKPOINTS lists
    fn check_created(&mut self, text: &str, id: &str, listed: &[Listed]) {
        let id = id.to_string();
        let listed: Vec<Listed> = listed.to_vec();
        if !id.is_empty() {
            if self.cfg.strict_retention && self.rb_since_creation {
                count(&mut self.counters, "retention_creations_after_a_rollback", 1);
                if self.expected.len() > self.cfg.max_cp {
                    count(&mut self.counters, "retention_purging_creations_after_a_rollback", 1);
                }
            }
            self.rb_since_creation = false;
        }
        if self.cfg.strict_retention {
            while self.expected.len() > self.cfg.max_cp {
                self.expected.remove(0);
                self.purged += 1;
                count(&mut self.counters, "retention_purges_expected", 1);
            }
        }
        let want: BTreeSet<&String> = self.expected.iter().map(|l| &l.id).collect();
        let have: BTreeSet<&String> = listed.iter().map(|l| &l.id).collect();
        count(&mut self.counters, "list_checks", 1);
        if want != have {
            let missing: Vec<Listed> = self.expected.iter().filter(|l| !have.contains(&l.id)).cloned().collect();
            let surplus: Vec<Listed> = listed.iter().filter(|l| !want.contains(&l.id)).cloned().collect();
            let d = format!(
                "after `{}` (max_checkpoints = {}): CHECKPOINTS lists {:?} (newest first); expected {:?} (oldest first); missing {:?}, not expected {:?}",
                text,
                self.cfg.max_cp,
                names(&listed, &self.label_of),
                names(&self.expected, &self.label_of),
                names(&missing, &self.label_of),
                names(&surplus, &self.label_of)
            );
            if self.cfg.strict_retention {
                let sig = if listed.len() != self.expected.len() {
                    "retention:wrong-number-retained"
                } else if missing.iter().any(|m| m.id == id) {
                    "retention:newest-checkpoint-not-retained"
                } else {
                    "retention:retained-set-is-not-the-newest-N"
                };
                self.viol(sig, d);
            } else if !missing.is_empty() {
                self.viol(if missing.iter().any(|m| m.id == id) { "checkpoints:created-checkpoint-not-listed" } else { "checkpoints:earlier-checkpoint-vanished-without-retention" }, d);
            } else {
                self.viol("checkpoints:unknown-checkpoint-listed", d);
            }
            // continue from what is really there
            self.resync(&listed);
        } else if self.cfg.strict_retention {
            count(&mut self.counters, "retention_list_checks_passed", 1);
            // evidence: creations judged after a rollback that went back past two or more retained checkpoints,
            // and how often everything that was listed at the time of such a rollback has been turned over
            if !id.is_empty() {
                if let Some(then) = &self.deep_rb {
                    count(&mut self.counters, "retention_creations_judged_after_a_deep_rollback", 1);
                    if !self.expected.iter().any(|e| then.contains(&e.id)) {
                        count(&mut self.counters, "retention_turnovers_after_a_deep_rollback", 1);
                        count(&mut self.counters, &format!("retention_turnovers_after_a_deep_rollback[max_checkpoints={}]", self.cfg.max_cp), 1);
                        self.deep_rb = None;
                    }
                }
            }
        }
    }

    /// a destructive statement with its automatic checkpoint
    fn do_auto_cp(&mut self, label: u32, stmt: &str) -> Result<QueryResult, String> {
        let pre = self.list().unwrap_or_default();
        self.absorb_auto(&pre);
        let at_limit = self.cfg.strict_retention && self.expected.len() >= self.cfg.max_cp;
        let known = self.recs.contains_key(&label);
        // the image is taken inside the statement, before anything is destroyed
        let obs = if known { Vec::new() } else { self.observe() };
        let exact = !self.hnsw_live;
        let r = self.do_stmt(stmt);
        if known {
            return r;
        }
        let listed = match self.list() {
            Ok(l) => l,
            Err(e) => {
                self.viol("checkpoints:list-failed", format!("CHECKPOINTS failed after `{}`: {}", stmt, e));
                return r;
            }
        };
        let new: Vec<Listed> = listed.iter().filter(|l| l.auto && !pre.iter().any(|p| p.id == l.id) && !self.expected.iter().any(|e| e.id == l.id)).cloned().collect();
        let Some(first) = new.first().cloned() else {
            // (statement failed before the protection, 0 matching rows, or an async entry point: none is made)
            count(&mut self.counters, "destructive_steps_without_automatic_checkpoint", 1);
            // retention may still not have dropped anything
            if listed.len() != pre.len() {
                self.check_created(&format!("`{}` (no automatic checkpoint appeared)", stmt), "", &listed);
            }
            return r;
        };
        count(&mut self.counters, "auto_checkpoints_seen", new.len() as u64);
        count(&mut self.counters, "auto_checkpoints_recorded", 1);
        if self.cfg.strict_retention {
            count(&mut self.counters, "retention_creations_by_auto_checkpoint", 1);
            if at_limit {
                count(&mut self.counters, "retention_auto_checkpoints_at_the_limit", 1);
            }
        }
        self.cps_total += new.len();
        for n in new.iter().rev() {
            self.expected.push(n.clone());
        }
        // creation order: `first` is what the list shows first (newest)
        if let Some(pos) = self.expected.iter().position(|e| e.id == first.id) {
            let f = self.expected.remove(pos);
            self.expected.push(f);
        }
        self.label_of.insert(first.id.clone(), label);
        self.check_created(&format!("{}  (automatic checkpoint {:?})", stmt, first.name), &first.id, &listed);
        self.recs.insert(label, CpRec { id: first.id.clone(), name: first.name.clone(), obs, legacy_sim_exact: exact, nonempty: r.is_ok() });
        r
    }

    fn do_rollback(&mut self, label: u32, by_id: bool) {
        let (id, name) = match self.recs.get(&label) {
            Some(r) => (r.id.clone(), r.name.clone()),
            None => {
                count(&mut self.counters, "rollback_skipped_unknown_label", 1);
                return;
            }
        };
        let pre = match self.list() {
            Ok(l) => l,
            Err(e) => {
                self.viol("checkpoints:list-failed", format!("CHECKPOINTS failed: {}", e));
                return;
            }
        };
        self.absorb_auto(&pre);
        if !pre.iter().any(|l| l.id == id) {
            // lost through an earlier (already reported) list defect, or evicted by retention
            count(&mut self.counters, "rollback_skipped_not_listed", 1);
            return;
        }
        let name_unique = !name.is_empty() && pre.iter().filter(|l| l.name == name).count() == 1 && !pre.iter().any(|l| l.id == name);
        let target = if by_id || !name_unique { id.clone() } else { name.clone() };
        let text = format!("ROLLBACK TO '{}'", target);
        let newest_before = self.view().newest_label;
        if let Err(e) = self.exec(&text) {
            self.viol(
                "rollback:listed-checkpoint-cannot-be-restored",
                format!("`{}` (cp{}, listed by CHECKPOINTS immediately before) failed: {}", text, label, e),
            );
            return;
        }
        count(&mut self.counters, "rollbacks_done", 1);
        let by_name = !(by_id || !name_unique);
        if !by_name {
            count(&mut self.counters, "rollbacks_by_id", 1);
        } else {
            count(&mut self.counters, "rollbacks_by_name", 1);
            if pre.iter().any(|l| l.id != id && (name_fold(&l.name) == name_fold(&name) || l.id.starts_with(name.trim()))) {
                count(&mut self.counters, "rollbacks_by_near_duplicate_name", 1);
            }
        }
        if pre.iter().any(|l| l.id == id && l.auto) {
            count(&mut self.counters, "rollbacks_to_auto_checkpoint", 1);
        }
        // repeated cycles: what this ROLLBACK TO text, and this name, meant earlier in the program
        self.rb_since_creation = true;
        if self.cfg.strict_retention && self.purged > 0 {
            count(&mut self.counters, "rollbacks_after_a_purge", 1);
        }
        if self.cfg.strict_retention {
            // `expected` is in the order of creation: how many retained checkpoints are newer than the target?
            let newer = self.expected.iter().position(|e| e.id == id).map_or(0, |p| self.expected.len() - 1 - p);
            if newer >= 2 {
                count(&mut self.counters, "rollbacks_past_two_or_more_retained_checkpoints", 1);
                if self.deep_rb.is_none() {
                    self.deep_rb = Some(pre.iter().map(|l| l.id.clone()).collect());
                }
            }
        }
        if by_name && self.ever_listed.iter().any(|(i, n)| *i != id && *n == name && !pre.iter().any(|l| l.id == *i)) {
            count(&mut self.counters, "rollbacks_by_name_once_carried_by_a_purged_checkpoint", 1);
        }
        match self.rb_resolved.get(&target) {
            Some(prev) if *prev != id => {
                count(&mut self.counters, "rollbacks_by_text_that_earlier_restored_another_checkpoint", 1);
                if !pre.iter().any(|l| l.id == *prev) {
                    count(&mut self.counters, "rollbacks_by_text_that_earlier_restored_a_since_purged_checkpoint", 1);
                }
            }
            Some(_) => count(&mut self.counters, "rollbacks_by_text_used_before_for_the_same_checkpoint", 1),
            None => {}
        }
        self.rb_resolved.insert(target.clone(), id.clone());
        if newest_before != Some(label) {
            count(&mut self.counters, "rollbacks_to_non_newest", 1);
        }
        if self.last_rb == Some(label) {
            count(&mut self.counters, "rollbacks_repeated_same_target", 1);
        }
        self.last_rb = Some(label);
        self.last_rb_entry = self.entry_for(&text);
        match self.last_rb_entry {
            Entry::Parsed => {}
            Entry::ParsedAsync => count(&mut self.counters, "rollbacks_through_async_entry", 1),
            Entry::Stmt => count(&mut self.counters, "rollbacks_through_statement_entry", 1),
            Entry::StmtAsync => {
                count(&mut self.counters, "rollbacks_through_async_entry", 1);
                count(&mut self.counters, "rollbacks_through_statement_entry", 1);
            }
        }
        self.constraint_stmt_since_rb = false;

        // ---- data: every observation query answers as recorded
        let now = self.observe();
        let (nonempty, legacy_sim_exact) = self.recs.get(&label).map(|r| (r.nonempty, r.legacy_sim_exact)).unwrap_or((false, true));
        let mut seen: BTreeMap<String, (u64, String)> = BTreeMap::new();
        let mut compared = 0u64;
        if let Some(rec) = self.recs.get(&label) {
            for (i, q) in self.queries.iter().enumerate() {
                if q.class == "legacy-execute-similar" && !legacy_sim_exact {
                    continue; // recorded while an approximate index was live: not judged
                }
                compared += 1;
                if let Some(nature) = differ(&rec.obs[i], &now[i], q.limit) {
                    let table = q.text.split_whitespace().skip_while(|w| *w != "FROM").nth(1).unwrap_or("");
                    // classes whose answers come out of a derived structure (cached HNSW index, in-memory
                    // b-tree, router query cache) get one signature each: which way the stale structure
                    // is wrong (lost / extra / changed) only depends on the statements that ran
                    let (class, nature) = if self.cfg.qcache {
                        ("select", "differs")
                    } else if q.class == "legacy-execute-similar" && self.hnsw_live {
                        ("legacy-execute-similar-with-vector-engine-hnsw-cache-built-since-checkpoint", "differs")
                    } else if (q.class == "select-range-text" || q.class == "select-range-float") && self.btree_tables.contains(table) {
                        ("select-range-on-table-with-btree-index-created-through-engine-api", "differs")
                    } else {
                        (q.class, nature)
                    };
                    let sig = format!("rollback{}{}:{}:{}", self.entry_tag(), if self.cfg.qcache { "+query-cache" } else { "" }, class, nature);
                    let e = seen.entry(sig).or_insert((0, String::new()));
                    e.0 += 1;
                    if e.1.is_empty() {
                        e.1 = format!("`{}` answered {} right after `CHECKPOINT` cp{} and {} right after `{}`", q.text, short(&rec.obs[i]), label, short(&now[i]), text);
                    }
                }
            }
        }
        count(&mut self.counters, "observation_answers_compared", compared);
        if nonempty {
            self.nontrivial_rollbacks += 1;
            count(&mut self.counters, "rollbacks_after_writes", 1);
        }
        if !seen.is_empty() {
            // is the database now exactly what ANOTHER retained checkpoint recorded?
            let mut other: Option<(u32, String)> = None;
            for (l2, r2) in self.recs.iter() {
                if *l2 == label || !pre.iter().any(|p| p.id == r2.id) || r2.obs.len() != now.len() {
                    continue;
                }
                let same = self.queries.iter().enumerate().all(|(i, q)| q.class == "legacy-execute-similar" || differ(&r2.obs[i], &now[i], q.limit).is_none());
                if same {
                    other = Some((*l2, r2.name.clone()));
                    break;
                }
            }
            // ... or what a checkpoint recorded that is not listed any more (purged by retention / deleted)?
            let mut gone = false;
            if other.is_none() {
                for (l2, r2) in self.recs.iter() {
                    if *l2 == label || pre.iter().any(|p| p.id == r2.id) || r2.obs.len() != now.len() {
                        continue;
                    }
                    let same = self.queries.iter().enumerate().all(|(i, q)| q.class == "legacy-execute-similar" || differ(&r2.obs[i], &now[i], q.limit).is_none());
                    if same {
                        other = Some((*l2, r2.name.clone()));
                        gone = true;
                        break;
                    }
                }
            }
            if let Some((l2, n2)) = other {
                let first = seen.values().next().map(|x| x.1.clone()).unwrap_or_default();
                self.viol(
                    format!("rollback{}:restored-{}-than-the-one-{}", self.entry_tag(), if gone { "a-checkpoint-no-longer-listed-rather" } else { "another-checkpoint" }, if by_name { "named" } else { "identified" }),
                    format!(
                        "`{}` must restore cp{} (name {:?}, id {}) but every observation query now answers as recorded for cp{} (name {:?}{}); e.g. {}",
                        text,
                        label,
                        name,
                        id,
                        l2,
                        n2,
                        if gone { ", which CHECKPOINTS did not list any more immediately before" } else { "" },
                        first
                    ),
                );
                // the per-class differences are consequences of having the wrong image
                count(&mut self.counters, "differences_explained_by_wrong_image", seen.len() as u64);
                seen.clear();
            }
        }
        for (sig, (n, d)) in seen {
            self.viol(sig, format!("{} ({} observation queries of this class/nature differ)", d, n));
        }

        // ---- checkpoint list: a rollback is not a retention event
        count(&mut self.counters, "list_checks", 1);
        match self.list() {
            Err(e) => self.viol("checkpoints:list-failed", format!("CHECKPOINTS failed after `{}`: {}", text, e)),
            Ok(post) => {
                let pre_ids: BTreeSet<&String> = pre.iter().map(|l| &l.id).collect();
                let post_ids: BTreeSet<&String> = post.iter().map(|l| &l.id).collect();
                if pre_ids != post_ids {
                    let d = format!(
                        "CHECKPOINTS listed {:?} before `{}` (cp{}) and lists {:?} after it (newest first); no checkpoint was created in between and retention allows {}",
                        names(&pre, &self.label_of),
                        text,
                        label,
                        names(&post, &self.label_of),
                        self.cfg.max_cp
                    );
                    // `expected` holds the checkpoints in the order the harness saw them being created
                    // (list order is unreliable inside one second)
                    let order: Vec<String> = self.expected.iter().map(|l| l.id.clone()).collect();
                    let tpos = order.iter().position(|x| *x == id).unwrap_or(0);
                    let mut sigs: Vec<&str> = Vec::new();
                    if !post_ids.contains(&id) {
                        sigs.push("rollback:checkpoint-list:target-checkpoint-gone");
                    }
                    if order.iter().skip(tpos + 1).any(|x| pre_ids.contains(x) && !post_ids.contains(x)) {
                        sigs.push("rollback:checkpoint-list:newer-checkpoints-gone");
                    }
                    if order.iter().take(tpos).any(|x| pre_ids.contains(x) && !post_ids.contains(x)) {
                        sigs.push("rollback:checkpoint-list:older-checkpoints-gone");
                    }
                    if post.iter().any(|l| !pre_ids.contains(&l.id)) {
                        sigs.push("rollback:checkpoint-list:unlisted-checkpoint-reappeared");
                    }
                    for s in sigs {
                        self.viol(s, d.clone());
                    }
                } else {
                    count(&mut self.counters, "list_unchanged_by_rollback", 1);
                }
                self.resync(&post);
            }
        }
    }

    /// remove a checkpoint through the manager's own API (the router has no statement for it). Not judged:
    /// the harness continues from what CHECKPOINTS lists afterwards.
    fn do_forget(&mut self, label: u32) {
        let Some(id) = self.recs.get(&label).map(|r| r.id.clone()) else { return };
        let Some(mgr) = self.router.checkpoint().cloned() else { return };
        let pre = self.list().unwrap_or_default();
        self.absorb_auto(&pre);
        if !pre.iter().any(|l| l.id == id) {
            return;
        }
        let r: Result<(), String> = self.rt.block_on(async { mgr.lock().await.delete(&id).await }).map_err(|e| e.to_string());
        if self.trace {
            eprintln!("        => {:?}", r);
        }
        if let Ok(post) = self.list() {
            if r.is_ok() && !post.iter().any(|l| l.id == id) {
                count(&mut self.counters, "checkpoints_deleted_through_manager", 1);
                self.purged += 1;
            }
            self.resync(&post);
        }
    }

    // ---- writes that must work on a healthy database ------------------------------------------------

    fn rows(&mut self, q: &str) -> Result<Vec<String>, String> {
        match canon(&self.exec(q)) {
            Ans::Items(v) => Ok(v),
            Ans::Err(e) => Err(e),
            Ans::Sim(_) => Err("similarity result".into()),
        }
    }

    fn battery(&mut self) {
        let n = self.bat_n;
        self.bat_n += 1;
        let ctx = match self.last_rb {
            Some(l) => format!("after the last ROLLBACK TO cp{}:", l),
            None => "(no rollback yet):".to_string(),
        };
        let pfx = if self.last_rb.is_some() { format!("post-rollback-write{}", self.entry_tag()) } else { "write".to_string() };
        macro_rules! bad {
            ($kind:expr, $nature:expr, $($arg:tt)*) => {{
                let d = format!($($arg)*);
                // with the router's query cache on, the battery's own reads may be answered from that
                // cache: one signature for everything it then sees
                let sig = if self.cfg.qcache { format!("{}+query-cache:differs", pfx) } else { format!("{}:{}:{}", pfx, $kind, $nature) };
                self.viol(sig, format!("{} [{}:{}] {}", ctx, $kind, $nature, d));
            }};
        }
        let mut checked = 0u64;
        // ---------- relational
        let tables: Vec<String> = match self.exec("SHOW TABLES") {
            Ok(QueryResult::TableList(v)) => v,
            other => {
                bad!("show-tables", "failed", "SHOW TABLES gave {}", short(&canon(&other)));
                vec![]
            }
        };
        for (ti, t) in tables.iter().filter(|t| TABLES.contains(&t.as_str())).enumerate() {
            let scan = format!("SELECT * FROM {}", t);
            let before = match self.rows(&scan) {
                Ok(v) => v,
                Err(e) => {
                    bad!("select", "listed-table-unreadable", "SHOW TABLES lists {} but `{}` fails: {}", t, scan, e);
                    continue;
                }
            };
            let va = 1000 + n as i64 * 10 + ti as i64;
            let ins = format!("INSERT INTO {} (a, b) VALUES ({}, 'bat')", t, va);
            let id = match self.exec(&ins) {
                Ok(QueryResult::Ids(ids)) if ids.len() == 1 => ids[0],
                other => {
                    bad!("insert", "failed", "`{}` gave {}", ins, short(&canon(&other)));
                    continue;
                }
            };
            checked += 1;
            let after = self.rows(&scan).unwrap_or_default();
            let b: BTreeSet<&String> = before.iter().collect();
            let a: BTreeSet<&String> = after.iter().collect();
            let gone: Vec<&&String> = b.difference(&a).collect();
            let new: Vec<&&String> = a.difference(&b).collect();
            if !gone.is_empty() {
                bad!("insert", "other-rows-changed", "`{}` returned id {}; rows {:?} present before are missing/changed afterwards; new rows {:?}", ins, id, gone, new);
                continue;
            }
            let want_a = format!("a=Int({})", va);
            if new.len() != 1 || !new[0].starts_with(&format!("{:08}|", id)) || !new[0].contains(&want_a) || !new[0].contains("b=String(\"bat\")") {
                bad!("insert", "not-visible-by-scan", "`{}` returned id {}; `{}` shows new rows {:?}", ins, id, scan, new);
                continue;
            }
            let new_row: String = (**new[0]).clone();
            let eq = format!("SELECT * FROM {} WHERE a = {}", t, va);
            let got = self.rows(&eq).unwrap_or_default();
            if got.len() != 1 || got[0] != new_row {
                bad!("insert", "not-visible-by-equality-select", "`{}` returned id {}; scan shows {:?} but `{}` gives {:?}", ins, id, new_row, eq, got);
                continue;
            }
            let upd = format!("UPDATE {} SET b = 'bat2' WHERE a = {}", t, va);
            match self.exec(&upd) {
                Ok(QueryResult::Count(1)) => {
                    let got = self.rows(&eq).unwrap_or_default();
                    if got.len() != 1 || !got[0].contains("b=String(\"bat2\")") {
                        bad!("update", "not-visible", "`{}` reported 1 row; `{}` gives {:?}", upd, eq, got);
                    }
                }
                other => bad!("update", "failed", "`{}` gave {}", upd, short(&canon(&other))),
            }
            checked += 1;
            // conditions that go through the hash / b-tree index path when an index exists
            fn hit_a(r: &String) -> bool {
                r.split("a=Int(").nth(1).and_then(|x| x.split(')').next()).and_then(|x| x.parse::<i64>().ok()).map_or(false, |a| a >= 4)
            }
            fn hit_b(r: &String) -> bool {
                r.contains("b=String(\"x\")")
            }
            let conds: [(&str, fn(&String) -> bool); 2] = [("a >= 4", hit_a), ("b = 'x'", hit_b)];
            for (cond, hit) in conds {
                let cur = self.rows(&scan).unwrap_or_default();
                let want: Vec<&String> = cur.iter().filter(|r| hit(r)).collect();
                let mark = format!("bat{}", n);
                let upd = format!("UPDATE {} SET b = '{}' WHERE {}", t, mark, cond);
                match self.exec(&upd) {
                    Ok(QueryResult::Count(c)) => {
                        let after = self.rows(&scan).unwrap_or_default();
                        let id_of = |r: &String| r.split('|').next().unwrap_or("").to_string();
                        let want_ids: BTreeSet<String> = want.iter().map(|r| id_of(r)).collect();
                        let marked: BTreeSet<String> = after.iter().filter(|r| r.contains(&format!("b=String(\"{}\")", mark))).map(id_of).collect();
                        let pre_marked: BTreeSet<String> = cur.iter().filter(|r| r.contains(&format!("b=String(\"{}\")", mark))).map(id_of).collect();
                        let newly: BTreeSet<String> = marked.difference(&pre_marked).cloned().collect();
                        let want_new: BTreeSet<String> = want_ids.difference(&pre_marked).cloned().collect();
                        if c != want.len() || newly != want_new || after.len() != cur.len() {
                            bad!("update", "wrong-rows-updated", "`{}` reported {} rows; the scan before shows {} matching rows (ids {:?}); rows newly carrying the mark afterwards: {:?}; table before {:?}", upd, c, want.len(), want_ids, newly, cur);
                        }
                    }
                    other => bad!("update", "failed", "`{}` gave {}", upd, short(&canon(&other))),
                }
                checked += 1;
            }
            if !self.cfg.auto_cp {
                let del = format!("DELETE FROM {} WHERE a = {}", t, va);
                match self.exec(&del) {
                    Ok(QueryResult::Count(1)) => {
                        let got = self.rows(&scan).unwrap_or_default();
                        let ids = |v: &Vec<String>| v.iter().map(|r| r.split('|').next().unwrap_or("").to_string()).collect::<Vec<_>>();
                        if ids(&got) != ids(&before) {
                            bad!("delete", "table-not-as-before", "after `{}` + `{}` the table has {:?}, before {:?}", ins, del, got, before);
                        }
                    }
                    other => bad!("delete", "failed", "`{}` gave {}", del, short(&canon(&other))),
                }
                checked += 1;
            }
        }
        // ---------- DDL (with a table limit configured: as many new tables as the limit leaves room for,
        // given the tables SHOW TABLES lists now - right after a rollback that is the restored content)
        {
            let room = self.cfg.max_tables.map(|m| m.saturating_sub(tables.len()));
            let how_many = match room {
                None => 1,
                Some(r) => r,
            };
            if room.is_some() {
                count(&mut self.counters, "battery_runs_under_a_table_limit", 1);
            }
            let mut made: Vec<String> = Vec::new();
            for j in 0..how_many {
                let t = if j == 0 { format!("bt{}", n) } else { format!("bt{}x{}", n, j) };
                let mk = format!("CREATE TABLE {} (a INT, b TEXT)", t);
                match self.exec(&mk) {
                    Ok(_) => {
                        made.push(t.clone());
                        if room.is_some() {
                            count(&mut self.counters, "battery_tables_created_under_a_table_limit", 1);
                        }
                        if j > 0 {
                            continue;
                        }
                        let ins = format!("INSERT INTO {} (a, b) VALUES (1, 'x')", t);
                        let ix = format!("CREATE INDEX ibt{} ON {} (a)", n, t);
                        let ix2 = format!("CREATE INDEX ibt{}b ON {} (b)", n, t);
                        let (r1, r2, r3);
                        if self.cfg.max_indexes.is_some() {
                            // a fresh table has no index: a second one fits any limit >= 2. Both are created
                            // while the table is empty: max_indexes_per_table counts index *entries* as
                            // indexes (one index over one row already counts as 2), with or without a
                            // rollback, which is not this property's business
                            r2 = self.exec(&ix);
                            r3 = self.exec(&ix2);
                            r1 = self.exec(&ins);
                        } else {
                            r1 = self.exec(&ins);
                            r2 = self.exec(&ix);
                            r3 = self.exec(&ix2);
                        }
                        let got = self.rows(&format!("SELECT * FROM {} WHERE a = 1", t));
                        let ok = matches!(r1, Ok(QueryResult::Ids(ref v)) if v.len() == 1) && r2.is_ok() && r3.is_ok() && matches!(got, Ok(ref v) if v.len() == 1);
                        if !ok {
                            bad!(
                                "create-table",
                                "new-table-not-usable",
                                "`{}`; `{}` gave {}; `{}` gave {}; `{}` gave {}; equality select gave {:?} (max_indexes_per_table = {:?})",
                                mk,
                                ins,
                                short(&canon(&r1)),
                                ix,
                                short(&canon(&r2)),
                                ix2,
                                short(&canon(&r3)),
                                got,
                                self.cfg.max_indexes
                            );
                        }
                    }
                    Err(e) => {
                        if let (Some(m), true) = (self.cfg.max_tables, e.to_ascii_lowercase().contains("too many tables")) {
                            bad!(
                                "create-table",
                                "refused-below-the-table-limit",
                                "max_tables = {}; SHOW TABLES listed {} tables {:?}; {} battery tables were created since; yet `{}` failed: {}",
                                m,
                                tables.len(),
                                tables,
                                made.len(),
                                mk,
                                e
                            );
                        } else {
                            bad!("create-table", "failed", "`{}` failed: {}", mk, e);
                        }
                        break;
                    }
                }
            }
            // (DROP TABLE takes no automatic checkpoint; under a table limit the room is always given back)
            if !self.cfg.auto_cp || room.is_some() {
                for t in &made {
                    let dr = format!("DROP TABLE {}", t);
                    if let Err(e) = self.exec(&dr) {
                        bad!("drop-table", "failed", "`{}` failed: {}", dr, e);
                    }
                }
            }
            checked += 1;
        }
        if self.cfg.qcache {
            count(&mut self.counters, "battery_writes_checked", checked);
            self.mark_write();
            return;
        }
        // ---------- graph
        'graph: {
            let nodes_before = match self.rows("NODE LIST") {
                Ok(v) => v,
                Err(e) => {
                    bad!("node-list", "failed", "NODE LIST failed: {}", e);
                    break 'graph;
                }
            };
            let mk = format!("NODE CREATE thing {{name: 'bat{}'}}", n);
            let id = match self.exec(&mk) {
                Ok(QueryResult::Ids(ids)) if ids.len() == 1 => ids[0],
                other => {
                    bad!("node-create", "failed", "`{}` gave {}", mk, short(&canon(&other)));
                    break 'graph;
                }
            };
            self.node_hi = self.node_hi.max(id);
            checked += 1;
            let nodes_after = self.rows("NODE LIST").unwrap_or_default();
            let b: BTreeSet<&String> = nodes_before.iter().collect();
            let a: BTreeSet<&String> = nodes_after.iter().collect();
            let gone: Vec<&&String> = b.difference(&a).collect();
            let new: Vec<&&String> = a.difference(&b).collect();
            if !gone.is_empty() {
                bad!("node-create", "other-nodes-changed", "`{}` returned id {}; nodes {:?} listed before are missing/changed afterwards; new {:?}", mk, id, gone, new);
                break 'graph;
            }
            let want = format!("{:08}|thing|name=bat{}", id, n);
            if new.len() != 1 || **new[0] != want {
                bad!("node-create", "not-visible", "`{}` returned id {}; NODE LIST shows new nodes {:?} (expected {:?})", mk, id, new, want);
                break 'graph;
            }
            match self.rows(&format!("NODE GET {}", id)) {
                Ok(v) if v == vec![want.clone()] => {}
                other => bad!("node-create", "not-visible-by-get", "`{}` returned id {}; NODE GET {} gives {:?}", mk, id, id, other),
            }
            // equal property values are fine when no constraint existed at the checkpoint rolled back to
            if let (Some(l), false) = (self.last_rb, self.constraint_stmt_since_rb) {
                let ci = self.queries.iter().position(|q| q.text == "CONSTRAINT LIST");
                let none_at_cp = ci.and_then(|i| self.recs.get(&l).map(|r| r.obs[i] == Ans::Items(vec![]))).unwrap_or(false);
                if none_at_cp {
                    for _ in 0..2 {
                        let mk = format!("NODE CREATE person {{name: 'batdup{}'}}", n);
                        match self.exec(&mk) {
                            Ok(QueryResult::Ids(ids)) if ids.len() == 1 => self.node_hi = self.node_hi.max(ids[0]),
                            other => {
                                bad!("node-create", "rejected-though-no-constraint-existed-at-checkpoint", "CONSTRAINT LIST was empty right after CHECKPOINT cp{} and no CONSTRAINT statement ran since the rollback, yet `{}` gave {}", l, mk, short(&canon(&other)));
                                break;
                            }
                        }
                    }
                    checked += 1;
                }
            }
            // an edge from an older node
            let other_id: Option<u64> = nodes_before.first().and_then(|s| s.split('|').next()).and_then(|s| s.parse().ok());
            if let Some(x) = other_id {
                let edges_before = self.rows("EDGE LIST").unwrap_or_default();
                let out_before = self.rows(&format!("NEIGHBORS {} OUTGOING", x)).unwrap_or_default();
                let mk_e = format!("EDGE CREATE {} -> {} : knows {{w: 1}}", x, id);
                match self.exec(&mk_e) {
                    Ok(QueryResult::Ids(ids)) if ids.len() == 1 => {
                        let e = ids[0];
                        self.edge_hi = self.edge_hi.max(e);
                        checked += 1;
                        let edges_after = self.rows("EDGE LIST").unwrap_or_default();
                        let b: BTreeSet<&String> = edges_before.iter().collect();
                        let a: BTreeSet<&String> = edges_after.iter().collect();
                        let gone: Vec<&&String> = b.difference(&a).collect();
                        let new: Vec<&&String> = a.difference(&b).collect();
                        let want = format!("{:08}|{}->{}|knows", e, x, id);
                        if !gone.is_empty() {
                            bad!("edge-create", "other-edges-changed", "`{}` returned id {}; edges {:?} listed before are missing/changed; new {:?}", mk_e, e, gone, new);
                        } else if new.len() != 1 || **new[0] != want {
                            bad!("edge-create", "not-visible", "`{}` returned id {}; EDGE LIST shows new edges {:?} (expected {:?})", mk_e, e, new, want);
                        } else {
                            let out_after = self.rows(&format!("NEIGHBORS {} OUTGOING", x)).unwrap_or_default();
                            let inc = self.rows(&format!("NEIGHBORS {} INCOMING", id)).unwrap_or_default();
                            let mut want_out = out_before.clone();
                            want_out.push(format!("{:08}", id));
                            want_out.sort();
                            want_out.dedup();
                            let mut got_out = out_after.clone();
                            got_out.dedup();
                            if got_out != want_out || inc != vec![format!("{:08}", x)] {
                                bad!("edge-create", "not-visible-by-neighbors", "`{}`: NEIGHBORS {} OUTGOING was {:?}, is {:?}; NEIGHBORS {} INCOMING is {:?}", mk_e, x, out_before, out_after, id, inc);
                            }
                        }
                    }
                    other => bad!("edge-create", "failed", "`{}` (both nodes are listed by NODE LIST) gave {}", mk_e, short(&canon(&other))),
                }
            }
        }
        // ---------- vectors
        'vec: {
            let n0 = match self.exec("COUNT EMBEDDINGS") {
                Ok(QueryResult::Count(c)) => c,
                other => {
                    bad!("count-embeddings", "failed", "COUNT EMBEDDINGS gave {}", short(&canon(&other)));
                    break 'vec;
                }
            };
            let mut rng = Rng::new(0xBA7 + n as u64);
            let v = rand_vec(&mut rng, self.cfg.dim);
            let key = format!("bat{}", n);
            let st = format!("EMBED STORE '{}' {}", key, vec_text(&v));
            if let Err(e) = self.do_stmt(&st) {
                bad!("embed-store", "failed", "`{}…` failed: {}", st.chars().take(60).collect::<String>(), e);
                break 'vec;
            }
            checked += 1;
            match self.exec(&format!("EMBED GET '{}'", key)) {
                Ok(QueryResult::Value(s)) => {
                    let got: Vec<f32> = s.trim_matches(|c| c == '[' || c == ']').split(',').filter_map(|x| x.trim().parse().ok()).collect();
                    if got.len() != v.len() || got.iter().zip(v.iter()).any(|(a, b)| !f32_same(*a, *b)) {
                        bad!("embed-store", "read-back-differs", "stored {:?}, EMBED GET gives {:?}", &v[..v.len().min(8)], &got[..got.len().min(8)]);
                    }
                }
                other => bad!("embed-store", "not-visible-by-get", "EMBED GET '{}' gave {}", key, short(&canon(&other))),
            }
            match self.exec("COUNT EMBEDDINGS") {
                Ok(QueryResult::Count(c)) if c == n0 + 1 => {}
                other => bad!("embed-store", "count-not-incremented", "COUNT EMBEDDINGS was {}, after storing the new key '{}' it gives {}", n0, key, short(&canon(&other))),
            }
            let sq = format!("SIMILAR '{}' LIMIT {}", key, n0 + 1);
            match self.exec(&sq) {
                Ok(QueryResult::Similar(rs)) if rs.iter().any(|r| r.key == key) => {}
                other => bad!("embed-store", "not-found-by-similar", "`{}` (all {} embeddings fit the limit) gave {}", sq, n0 + 1, short(&canon(&other))),
            }
        }
        count(&mut self.counters, "battery_writes_checked", checked);
        self.mark_write();
    }

    fn run(&mut self, src: &mut dyn Source, deadline: Instant) {
        loop {
            if Instant::now() > deadline {
                count(&mut self.counters, "case_deadline_stops", 1);
                break;
            }
            let v = self.view();
            let item = match src.next(&v) {
                Some(i) => i,
                None => break,
            };
            self.log.push(item.clone());
            if self.trace {
                eprintln!("[{}] {}", self.log.len() - 1, item.text().chars().take(200).collect::<String>());
            }
            match &item {
                Item::S(s) => {
                    let r = self.do_stmt(s);
                    src.fed(&item, Some(&r));
                    continue;
                }
                Item::Cp { label, named, name } => self.do_checkpoint(*label, *named, name.as_ref()),
                Item::AutoCp { label, stmt } => {
                    let r = self.do_auto_cp(*label, stmt);
                    src.fed(&item, Some(&r));
                    continue;
                }
                Item::Rb { label, by_id } => self.do_rollback(*label, *by_id),
                Item::Battery => self.battery(),
                Item::Hnsw => {
                    if self.router.vector().build_and_cache_index(vector_engine::HNSWConfig::default()).is_ok() {
                        self.hnsw_live = true;
                        count(&mut self.counters, "hnsw_caches_built", 1);
                    }
                }
                Item::Btree { table, col } => {
                    let r = self.router.relational().create_btree_index(table, col);
                    if self.trace {
                        eprintln!("        => {:?}", r);
                    }
                    if r.is_ok() {
                        self.btree_tables.insert(table.clone());
                        count(&mut self.counters, "btree_indexes_created", 1);
                    }
                }
                Item::Sleep(ms) => std::thread::sleep(Duration::from_millis(*ms)),
                Item::Forget { label } => self.do_forget(*label),
            }
            src.fed(&item, None);
        }
    }
}

// ------------------------------------------------------------------------------------------------
// generator
// ------------------------------------------------------------------------------------------------

#[derive(Clone, Default, Debug)]
struct World {
    tables: BTreeMap<String, (bool, bool)>, // name -> (has column c, index on a)
    nodes: BTreeSet<u64>,
    edges: BTreeMap<u64, (u64, u64)>,
    keys: BTreeSet<String>,
}

#[derive(Clone, Copy, Debug, PartialEq)]
enum Seg {
    Phase(usize),
    Cp,
    /// a destructive statement that triggers an automatic checkpoint
    AutoCp,
    Rb,
    Battery,
    Hnsw,
    Sleep(u64),
    /// retention part: roll back to every listed checkpoint, newest first
    RbAllNewestFirst,
    /// recycle part: CHECKPOINT '<name>' with the name drawn, with repetition, from `Gen::recycle_names`
    CpRecycled,
    /// recycle part: CheckpointManager::delete of a listed checkpoint
    Forget,
    /// refill part: roll back to the oldest retained checkpoint (one time in four, with more than three
    /// retained, to the second oldest)
    RbOld,
}

struct Gen {
    rng: Rng,
    cfg: Cfg,
    world: World,
    snaps: HashMap<u32, World>,
    segs: Vec<Seg>,
    seg_pos: usize,
    left_in_phase: usize,
    next_label: u32,
    pending_rb: Vec<u32>,
    last_rb: Option<u32>,
    /// unused near-duplicate names
    name_pool: Vec<String>,
    /// recycle part: the names manual checkpoints take turns with (empty in the other parts)
    recycle_names: Vec<String>,
    /// recycle part: label -> name given
    recycle_given: HashMap<u32, String>,
}

impl Gen {
    fn new(mut rng: Rng, cfg: &Cfg, segs: Vec<Seg>) -> Gen {
        let mut name_pool: Vec<String> = Vec::new();
        if cfg.near_names {
            let base = ["nightly", "release", "b"][rng.below(3)];
            let cap = format!("{}{}", base[..1].to_ascii_uppercase(), &base[1..]);
            name_pool = vec![base.to_string(), cap, base.to_ascii_uppercase(), format!(" {}", base), format!("{} ", base), format!("  {}  ", base.to_ascii_uppercase())];
            rng.shuffle(&mut name_pool);
            name_pool.truncate(4);
        }
        Gen { rng, cfg: cfg.clone(), world: World::default(), snaps: HashMap::new(), segs, seg_pos: 0, left_in_phase: 0, next_label: 1, pending_rb: vec![], last_rb: None, name_pool, recycle_names: Vec::new(), recycle_given: HashMap::new() }
    }
    fn by_id(&mut self) -> bool {
        if self.cfg.near_names || !self.recycle_names.is_empty() {
            self.rng.chance(1, 4)
        } else {
            self.rng.bool()
        }
    }
    fn destructive(&mut self, view: &View) -> String {
        if self.cfg.qcache {
            return format!("DELETE FROM {}", self.some_table(true));
        }
        // (DELETE only takes an automatic checkpoint when rows match; NODE DELETE / EMBED DELETE always do)
        match if self.cfg.strict_retention { 1 + self.rng.below(3) } else { self.rng.below(4) } {
            0 => format!("DELETE FROM {}", self.some_table(true)),
            1 => format!("NODE DELETE {}", self.some_node()),
            _ => {
                let ex: Vec<String> = self.world.keys.iter().cloned().collect();
                let _ = view;
                let k = if !ex.is_empty() && !self.rng.chance(1, 5) { ex[self.rng.below(ex.len())].clone() } else { format!("k{}", self.rng.below(NKEYS)) };
                format!("EMBED DELETE '{}'", k)
            }
        }
    }
    fn lit_b(&mut self) -> String {
        match self.rng.below(5) {
            0 => "'x'".into(),
            1 => "'y'".into(),
            2 => "'q'".into(),
            3 => "'z'".into(),
            _ => "NULL".into(),
        }
    }
    fn some_table(&mut self, want_existing: bool) -> String {
        let ex: Vec<String> = self.world.tables.keys().cloned().collect();
        if want_existing && !ex.is_empty() && !self.rng.chance(1, 12) {
            ex[self.rng.below(ex.len())].clone()
        } else {
            TABLES[self.rng.below(TABLES.len())].to_string()
        }
    }
    fn some_node(&mut self) -> u64 {
        let ex: Vec<u64> = self.world.nodes.iter().copied().collect();
        if !ex.is_empty() && !self.rng.chance(1, 12) {
            ex[self.rng.below(ex.len())]
        } else {
            1 + self.rng.below(NODE_MAX as usize) as u64
        }
    }

    fn relational(&mut self, allow_destructive: bool) -> String {
        let n_tables = self.world.tables.len();
        let w = [if n_tables < 2 { 6 } else { 1 }, 1, 2, 1, 10, 4, 3, if self.cfg.qcache { 9 } else { 2 }];
        loop {
            match self.rng.weighted(&w) {
                0 => {
                    let free: Vec<&str> = TABLES.iter().copied().filter(|t| !self.world.tables.contains_key(*t)).collect();
                    let t = if free.is_empty() || self.rng.chance(1, 10) { TABLES[self.rng.below(4)] } else { free[self.rng.below(free.len())] };
                    return if self.rng.bool() { format!("CREATE TABLE {} (a INT, b TEXT)", t) } else { format!("CREATE TABLE {} (a INT, b TEXT, c FLOAT)", t) };
                }
                1 => {
                    if !allow_destructive {
                        continue;
                    }
                    return format!("DROP TABLE {}", self.some_table(true));
                }
                2 => {
                    let t = self.some_table(true);
                    let col = ["a", "b", "b", "c"][self.rng.below(4)];
                    return format!("CREATE INDEX ix_{}_{} ON {} ({})", t, col, t, col);
                }
                3 => return format!("DROP INDEX ON {}({})", self.some_table(true), ["a", "b"][self.rng.below(2)]),
                4 => {
                    let t = self.some_table(true);
                    let has_c = self.world.tables.get(&t).map_or(false, |x| x.0);
                    let with_c = has_c && self.rng.chance(2, 3);
                    let k = 1 + self.rng.below(3);
                    let mut rows = Vec::new();
                    for _ in 0..k {
                        let a = self.rng.below(6);
                        let b = self.lit_b();
                        if with_c {
                            rows.push(format!("({}, {}, {}.5)", a, b, self.rng.below(3)));
                        } else {
                            rows.push(format!("({}, {})", a, b));
                        }
                    }
                    return format!("INSERT INTO {} ({}) VALUES {}", t, if with_c { "a, b, c" } else { "a, b" }, rows.join(", "));
                }
                5 => {
                    let t = self.some_table(true);
                    let v = self.rng.below(6);
                    return match self.rng.below(6) {
                        0 => format!("UPDATE {} SET b = {} WHERE a = {}", t, self.lit_b(), v),
                        1 => format!("UPDATE {} SET a = {} WHERE a = {}", t, self.rng.below(6), v),
                        2 => format!("UPDATE {} SET a = {} WHERE b = 'x'", t, v),
                        3 => format!("UPDATE {} SET b = {} WHERE a >= {}", t, self.lit_b(), v),
                        4 => format!("UPDATE {} SET a = {} WHERE b < 'y'", t, v),
                        _ => format!("UPDATE {} SET b = {} WHERE b = 'y'", t, self.lit_b()),
                    };
                }
                6 => {
                    if !allow_destructive {
                        continue;
                    }
                    let t = self.some_table(true);
                    return match self.rng.below(6) {
                        0 => format!("DELETE FROM {}", t),
                        1 => format!("DELETE FROM {} WHERE b = 'y'", t),
                        2 => format!("DELETE FROM {} WHERE b >= 'x'", t),
                        3 => format!("DELETE FROM {} WHERE a >= {}", t, 2 + self.rng.below(4)),
                        _ => format!("DELETE FROM {} WHERE a = {}", t, self.rng.below(6)),
                    };
                }
                _ => {
                    // a read in exactly the form of an observation query (matters with the query cache)
                    let qs = rel_queries();
                    return qs[self.rng.below(qs.len())].text.clone();
                }
            }
        }
    }

    fn graph(&mut self, allow_destructive: bool, view: &View) -> String {
        let w = [7, 2, 7, 2, 1, 1, 1, 1, 1];
        loop {
            match self.rng.weighted(&w) {
                0 => {
                    if view.node_hi >= NODE_GEN_CAP {
                        continue;
                    }
                    let l = LABELS[self.rng.below(3)];
                    return format!("NODE CREATE {} {{name: 'n{}', n: {}}}", l, self.rng.below(6), self.rng.below(4));
                }
                1 => {
                    if !allow_destructive {
                        continue;
                    }
                    return format!("NODE DELETE {}", self.some_node());
                }
                2 => {
                    if view.edge_hi >= EDGE_GEN_CAP {
                        continue;
                    }
                    if self.world.nodes.is_empty() && !self.rng.chance(1, 6) {
                        continue;
                    }
                    let (a, b) = (self.some_node(), self.some_node());
                    return format!("EDGE CREATE {} -> {} : {} {{w: {}}}", a, b, ETYPES[self.rng.below(2)], self.rng.below(5));
                }
                3 => {
                    if !allow_destructive {
                        continue;
                    }
                    let ex: Vec<u64> = self.world.edges.keys().copied().collect();
                    let e = if !ex.is_empty() && !self.rng.chance(1, 10) { ex[self.rng.below(ex.len())] } else { 1 + self.rng.below(EDGE_MAX as usize) as u64 };
                    return format!("EDGE DELETE {}", e);
                }
                4 => return "CONSTRAINT CREATE uq ON NODE person PROPERTY name UNIQUE".into(),
                5 => return "CONSTRAINT DROP uq".into(),
                6 => return "GRAPH INDEX CREATE ON NODE PROPERTY name".into(),
                7 => return "GRAPH INDEX DROP ON NODE PROPERTY name".into(),
                _ => return format!("NEIGHBORS {} OUTGOING", self.some_node()),
            }
        }
    }

    fn vector(&mut self, allow_destructive: bool) -> String {
        let w = [8, 2, 1, 1];
        loop {
            match self.rng.weighted(&w) {
                0 => {
                    let v = rand_vec(&mut self.rng, self.cfg.dim);
                    return format!("EMBED STORE 'k{}' {}", self.rng.below(NKEYS), vec_text(&v));
                }
                1 => {
                    if !allow_destructive {
                        continue;
                    }
                    let ex: Vec<String> = self.world.keys.iter().cloned().collect();
                    let k = if !ex.is_empty() && !self.rng.chance(1, 8) { ex[self.rng.below(ex.len())].clone() } else { format!("k{}", self.rng.below(NKEYS)) };
                    return format!("EMBED DELETE '{}'", k);
                }
                2 => {
                    let items: Vec<String> = (0..1 + self.rng.below(3))
                        .map(|_| {
                            let v = rand_vec(&mut self.rng, self.cfg.dim);
                            format!("('k{}', {})", self.rng.below(NKEYS), vec_text(&v))
                        })
                        .collect();
                    return format!("EMBED BATCH [{}]", items.join(", "));
                }
                _ => return format!("SIMILAR 'k{}' LIMIT 4", self.rng.below(NKEYS)),
            }
        }
    }

    fn stmt(&mut self, view: &View) -> Item {
        // every destructive statement makes an automatic checkpoint when they are enabled
        // (and in the retention part every checkpoint creation has to be >= 1.1 s after the previous one,
        // so automatic ones only come from the dedicated steps)
        let allow_destructive = !self.cfg.auto_cp || (!self.cfg.strict_retention && view.cps_total + 3 < CP_TOTAL_CAP && self.rng.chance(1, 3));
        if self.cfg.btree && !self.world.tables.is_empty() && self.rng.chance(1, 14) {
            let table = self.some_table(true);
            let has_c = self.world.tables.get(&table).map_or(false, |x| x.0);
            let col = ["a", "b", "b", if has_c { "c" } else { "b" }][self.rng.below(4)].to_string();
            return Item::Btree { table, col };
        }
        if self.cfg.qcache {
            return Item::S(self.relational(allow_destructive));
        }
        Item::S(match self.rng.weighted(&[5, 4, 3]) {
            0 => self.relational(allow_destructive),
            1 => self.graph(allow_destructive, view),
            _ => self.vector(allow_destructive),
        })
    }
}

impl Source for Gen {
    fn next(&mut self, view: &View) -> Option<Item> {
        loop {
            if self.left_in_phase > 0 {
                self.left_in_phase -= 1;
                return Some(self.stmt(view));
            }
            if let Some(l) = self.pending_rb.pop() {
                if view.listed_labels.contains(&l) {
                    self.last_rb = Some(l);
                    let by_id = self.by_id();
                    return Some(Item::Rb { label: l, by_id });
                }
                continue;
            }
            let seg = *self.segs.get(self.seg_pos)?;
            self.seg_pos += 1;
            match seg {
                Seg::Phase(n) => self.left_in_phase = n,
                Seg::Cp => {
                    if view.cps_total + 1 >= CP_TOTAL_CAP {
                        continue;
                    }
                    let label = self.next_label;
                    self.next_label += 1;
                    let mut name: Option<String> = None;
                    if self.cfg.near_names && self.rng.chance(3, 4) {
                        if !view.listed_labels.is_empty() && self.rng.chance(1, 6) {
                            name = Some(format!("@idprefix:{}", view.listed_labels[self.rng.below(view.listed_labels.len())]));
                        } else {
                            name = self.name_pool.pop();
                        }
                    }
                    let named = name.is_some() || self.cfg.strict_retention || self.rng.chance(2, 3);
                    return Some(Item::Cp { label, named, name });
                }
                Seg::AutoCp => {
                    if view.cps_total + 1 >= CP_TOTAL_CAP {
                        continue;
                    }
                    let label = self.next_label;
                    self.next_label += 1;
                    let stmt = self.destructive(view);
                    return Some(Item::AutoCp { label, stmt });
                }
                Seg::Rb => {
                    if view.listed_labels.is_empty() {
                        continue;
                    }
                    let any = view.listed_labels[self.rng.below(view.listed_labels.len())];
                    let l = match self.rng.below(4) {
                        0 | 1 => view.newest_label.unwrap_or(any),
                        2 => self.last_rb.filter(|l| view.listed_labels.contains(l)).unwrap_or(any),
                        _ => any,
                    };
                    self.last_rb = Some(l);
                    let by_id = self.by_id();
                    return Some(Item::Rb { label: l, by_id });
                }
                Seg::RbAllNewestFirst => {
                    // popped from the back; listed_labels is oldest first
                    self.pending_rb = view.listed_labels.clone();
                }
                Seg::CpRecycled => {
                    if view.cps_total + 1 >= CP_TOTAL_CAP {
                        continue;
                    }
                    let label = self.next_label;
                    self.next_label += 1;
                    // mostly a name that was used before and whose bearer retention has purged (or purges with
                    // this very creation), so that the name stands for one listed checkpoint again; sometimes
                    // a name that a checkpoint which stays listed carries too; now and then a fresh one
                    let l = &view.listed_labels;
                    let staying: Vec<&String> = l[l.len().saturating_sub(self.cfg.max_cp.saturating_sub(1))..].iter().filter_map(|x| self.recycle_given.get(x)).collect();
                    let free: Vec<String> = self.recycle_names.iter().filter(|n| !staying.contains(n)).cloned().collect();
                    let name = if self.recycle_names.is_empty() || self.rng.chance(1, 8) {
                        format!("once{}", label)
                    } else if !free.is_empty() && self.rng.chance(4, 5) {
                        free[self.rng.below(free.len())].clone()
                    } else {
                        self.recycle_names[self.rng.below(self.recycle_names.len())].clone()
                    };
                    self.recycle_given.insert(label, name.clone());
                    return Some(Item::Cp { label, named: true, name: Some(name) });
                }
                Seg::Forget => {
                    if view.listed_labels.is_empty() {
                        continue;
                    }
                    let l = view.listed_labels[self.rng.below(view.listed_labels.len())];
                    return Some(Item::Forget { label: l });
                }
                Seg::RbOld => {
                    // listed_labels is oldest first
                    if view.listed_labels.is_empty() {
                        continue;
                    }
                    let at = usize::from(view.listed_labels.len() > 3 && self.rng.chance(1, 4));
                    let l = view.listed_labels[at];
                    self.last_rb = Some(l);
                    let by_id = self.by_id();
                    return Some(Item::Rb { label: l, by_id });
                }
                Seg::Battery => return Some(Item::Battery),
                Seg::Hnsw => return Some(Item::Hnsw),
                Seg::Sleep(ms) => return Some(Item::Sleep(ms)),
            }
        }
    }

    fn fed(&mut self, item: &Item, res: Option<&Result<QueryResult, String>>) {
        match item {
            Item::Cp { label, .. } => {
                self.snaps.insert(*label, self.world.clone());
            }
            Item::AutoCp { label, stmt } => {
                self.snaps.entry(*label).or_insert_with(|| self.world.clone());
                self.fed(&Item::S(stmt.clone()), res);
            }
            Item::Rb { label, .. } => {
                if let Some(w) = self.snaps.get(label) {
                    self.world = w.clone();
                }
            }
            Item::S(s) => {
                let Some(Ok(q)) = res else { return };
                let up = s.to_ascii_uppercase();
                let word = |i: usize| s.split_whitespace().nth(i).unwrap_or("").to_string();
                if up.starts_with("CREATE TABLE") {
                    self.world.tables.insert(word(2), (up.contains("FLOAT"), false));
                } else if up.starts_with("DROP TABLE") {
                    self.world.tables.remove(&word(2));
                } else if up.starts_with("CREATE INDEX") {
                    if let Some(t) = self.world.tables.get_mut(&word(4)) {
                        t.1 = true;
                    }
                } else if up.starts_with("NODE CREATE") {
                    if let QueryResult::Ids(ids) = q {
                        self.world.nodes.extend(ids.iter().copied());
                    }
                } else if up.starts_with("NODE DELETE") {
                    if let Ok(id) = word(2).parse::<u64>() {
                        self.world.nodes.remove(&id);
                        self.world.edges.retain(|_, (a, b)| *a != id && *b != id);
                    }
                } else if up.starts_with("EDGE CREATE") {
                    if let QueryResult::Ids(ids) = q {
                        let a = word(2).parse().unwrap_or(0);
                        let b = word(4).parse().unwrap_or(0);
                        for e in ids {
                            self.world.edges.insert(*e, (a, b));
                        }
                    }
                } else if up.starts_with("EDGE DELETE") {
                    if let Ok(id) = word(2).parse::<u64>() {
                        self.world.edges.remove(&id);
                    }
                } else if up.starts_with("EMBED STORE") {
                    self.world.keys.insert(word(2).trim_matches('\'').to_string());
                } else if up.starts_with("EMBED DELETE") {
                    self.world.keys.remove(word(2).trim_matches('\''));
                } else if up.starts_with("EMBED BATCH") {
                    for part in s.split("('").skip(1) {
                        if let Some(k) = part.split('\'').next() {
                            self.world.keys.insert(k.to_string());
                        }
                    }
                }
            }
            _ => {}
        }
    }
}

fn phase_len(rng: &mut Rng, small: bool) -> usize {
    if small {
        rng.below(9)
    } else {
        match rng.below(6) {
            0 => rng.below(4),
            1 | 2 => 4 + rng.below(10),
            3 | 4 => 10 + rng.below(16),
            _ => 25 + rng.below(16),
        }
    }
}

fn cycle_plan(rng: &mut Rng, cfg: &Cfg) -> Vec<Seg> {
    let mut segs = vec![Seg::Phase(phase_len(rng, false))];
    let mut cps_left = 1 + rng.below(4);
    while cps_left > 0 {
        segs.push(Seg::Cp);
        cps_left -= 1;
        segs.push(Seg::Phase(phase_len(rng, false)));
        if cfg.auto_cp && rng.chance(1, 2) {
            segs.push(Seg::AutoCp);
            segs.push(Seg::Phase(phase_len(rng, true)));
        }
        if cps_left > 0 && rng.bool() {
            segs.push(Seg::Cp);
            cps_left -= 1;
            segs.push(Seg::Phase(phase_len(rng, false)));
        }
        if cfg.hnsw && rng.chance(2, 3) {
            segs.push(Seg::Hnsw);
            if rng.bool() {
                segs.push(Seg::Phase(rng.below(3)));
            }
        }
        segs.push(Seg::Rb);
        if rng.chance(4, 5) {
            segs.push(Seg::Battery);
        }
        segs.push(Seg::Phase(phase_len(rng, true)));
        if rng.chance(2, 5) {
            segs.push(Seg::Rb);
            if rng.bool() {
                segs.push(Seg::Battery);
            }
            segs.push(Seg::Phase(phase_len(rng, true)));
        }
    }
    if rng.bool() {
        segs.push(Seg::Rb);
        segs.push(Seg::Battery);
    }
    segs
}

fn retention_plan(rng: &mut Rng, cfg: &Cfg) -> Vec<Seg> {
    let m = 1 + rng.below(2);
    let mut segs = vec![Seg::Phase(3 + rng.below(5))];
    // with automatic checkpoints on, manual and automatic creations are mixed, and at least one automatic
    // one comes when the list is already full
    let n = cfg.max_cp + m;
    let mut kinds: Vec<Seg> = (0..n).map(|_| if cfg.auto_cp && rng.chance(2, 5) { Seg::AutoCp } else { Seg::Cp }).collect();
    if cfg.auto_cp {
        let at = cfg.max_cp + rng.below(m);
        kinds[at] = Seg::AutoCp;
    }
    for k in kinds {
        if k == Seg::AutoCp {
            // something to destroy: the statement is chosen among existing things
            segs.push(Seg::Phase(2));
        }
        segs.push(k);
        segs.push(Seg::Sleep(1100));
        segs.push(Seg::Phase(2 + rng.below(5)));
    }
    segs.push(Seg::RbAllNewestFirst);
    segs.push(Seg::Battery);
    segs
}

/// repeated checkpoint / rollback cycles while retention is at work: creations >= 1.1 s apart, names that
/// come back, rollbacks (single ones and sweeps over everything retained) between the creations
fn recycle_plan(rng: &mut Rng, cfg: &Cfg, deep: bool) -> Vec<Seg> {
    let mut segs = vec![Seg::Phase(3 + rng.below(5))];
    // enough creations that retention purges at least one checkpoint, mostly several
    let n = (cfg.max_cp + 1 + rng.below(if deep { 5 } else { 3 })).min(CP_TOTAL_CAP - 2);
    for k in 0..n {
        let kind = if cfg.auto_cp && rng.chance(1, 3) { Seg::AutoCp } else { Seg::CpRecycled };
        if kind == Seg::AutoCp {
            // something to destroy: the statement is chosen among existing things
            segs.push(Seg::Phase(2));
        }
        segs.push(kind);
        segs.push(Seg::Sleep(1100));
        segs.push(Seg::Phase(1 + rng.below(4)));
        if k + 1 == n {
            break;
        }
        match rng.below(8) {
            0 => {}
            1..=3 => {
                segs.push(Seg::Rb);
                if rng.chance(1, 3) {
                    segs.push(Seg::Battery);
                }
                segs.push(Seg::Phase(rng.below(4)));
                if rng.chance(1, 4) {
                    segs.push(Seg::Rb);
                }
            }
            4..=6 => {
                segs.push(Seg::RbAllNewestFirst);
                segs.push(Seg::Phase(rng.below(4)));
            }
            _ => {
                segs.push(Seg::Rb);
                segs.push(Seg::Forget);
                segs.push(Seg::Phase(rng.below(3)));
            }
        }
    }
    segs.push(Seg::RbAllNewestFirst);
    segs.push(Seg::Battery);
    segs
}

/// retention after going far back: fill the list (N or N+1 creations >= 1.1 s apart), roll back to the oldest
/// retained checkpoint, then create N or N+1 more, so that every checkpoint that existed at the time of the
/// rollback has to be purged, one per creation, while the ones created since stay
fn refill_plan(rng: &mut Rng, cfg: &Cfg) -> Vec<Seg> {
    let n = cfg.max_cp;
    // (at most CP_TOTAL_CAP - 1 creations per program)
    let room = (CP_TOTAL_CAP - 1).saturating_sub(2 * n);
    let pre = n + rng.below(room.min(1) + 1);
    let post = n + rng.below((CP_TOTAL_CAP - 1).saturating_sub(pre + n).min(1) + 1);
    let creation = |rng: &mut Rng, segs: &mut Vec<Seg>| {
        let kind = if cfg.auto_cp && rng.chance(1, 5) { Seg::AutoCp } else { Seg::CpRecycled };
        if kind == Seg::AutoCp {
            // something to destroy: the statement is chosen among existing things
            segs.push(Seg::Phase(2));
        }
        segs.push(kind);
        segs.push(Seg::Sleep(1100));
        segs.push(Seg::Phase(1 + rng.below(4)));
    };
    let mut segs = vec![Seg::Phase(3 + rng.below(5))];
    for k in 0..pre {
        creation(rng, &mut segs);
        if k + 1 < pre && rng.chance(1, 5) {
            segs.push(Seg::Rb);
            segs.push(Seg::Phase(rng.below(3)));
        }
    }
    segs.push(Seg::RbOld);
    if rng.chance(1, 3) {
        segs.push(Seg::Battery);
    }
    segs.push(Seg::Phase(rng.below(4)));
    for k in 0..post {
        creation(rng, &mut segs);
        if k + 1 == post {
            break;
        }
        match rng.below(5) {
            0 => {
                segs.push(Seg::Rb);
                if rng.chance(1, 3) {
                    segs.push(Seg::Battery);
                }
                segs.push(Seg::Phase(rng.below(3)));
            }
            1 => {
                segs.push(Seg::RbOld);
                segs.push(Seg::Phase(rng.below(3)));
            }
            _ => {}
        }
    }
    segs.push(Seg::RbAllNewestFirst);
    segs.push(Seg::Battery);
    segs
}

/// as many names as checkpoints are retained, or one more
fn recycle_names(rng: &mut Rng, cfg: &Cfg) -> Vec<String> {
    let mut v: Vec<String> = ["nightly", "before-import", "stable", "Nightly", "weekly"].iter().map(|s| s.to_string()).collect();
    rng.shuffle(&mut v);
    v.truncate(cfg.max_cp + rng.below(2));
    v
}

fn cycle_cfg(rng: &mut Rng) -> Cfg {
    let variant = rng.below(20);
    let qcache = variant < 3;
    // with the query cache on, the entry points that bypass execute_parsed's own cache handling for the
    // checkpoint statements get a larger share
    let mode = if qcache { [0u8, 1, 2, 3, 4, 3, 4, 5][rng.below(8)] } else { [0u8, 0, 0, 1, 2, 3, 4, 5][rng.below(8)] };
    let cfg = Cfg {
        auto_cp: rng.chance(1, 4),
        qcache,
        dim: if rng.chance(1, 6) { 384 } else { 4 },
        max_cp: 100,
        strict_retention: false,
        hnsw: (3..6).contains(&variant),
        btree: (6..10).contains(&variant),
        async_mode: mode,
        bloom: rng.chance(1, 4),
        near_names: rng.chance(1, 2),
        max_tables: None,
        max_indexes: None,
    };
    let mut cfg = cfg;
    if rng.chance(1, 4) {
        cfg.max_tables = Some(3 + rng.below(4));
        cfg.max_indexes = Some(2 + rng.below(2));
    }
    cfg
}

fn retention_cfg(rng: &mut Rng) -> Cfg {
    let auto_cp = rng.chance(3, 5);
    // an automatic checkpoint is only taken on the synchronous side (inside a tokio runtime the router skips it)
    let async_mode = if auto_cp { [0u8, 1, 3, 4, 5][rng.below(5)] } else { [0u8, 1, 2, 3, 4, 5][rng.below(6)] };
    Cfg { auto_cp, qcache: false, dim: 4, max_cp: 1 + rng.below(3), strict_retention: true, hnsw: false, btree: false, async_mode, bloom: rng.chance(1, 4), near_names: rng.chance(1, 2), max_tables: None, max_indexes: None }
}

// ------------------------------------------------------------------------------------------------
// one case, shrinking, reporting
// ------------------------------------------------------------------------------------------------

struct Outcome {
    viols: Vec<Viol>,
    counters: BTreeMap<String, u64>,
    log: Vec<Item>,
    nontrivial: bool,
    setup_error: Option<String>,
}

fn run_script(cfg: &Cfg, src: &mut dyn Source, trace: bool, max_wall: Duration) -> Outcome {
    let mut r = match Runner::new(cfg, trace) {
        Ok(r) => r,
        Err(e) => return Outcome { viols: vec![], counters: BTreeMap::new(), log: vec![], nontrivial: false, setup_error: Some(e) },
    };
    r.run(src, Instant::now() + max_wall);
    Outcome { nontrivial: r.nontrivial_rollbacks > 0, viols: r.viols, counters: r.counters, log: r.log, setup_error: None }
}

fn reproduces(cfg: &Cfg, items: &[Item], sig: &str) -> Option<Viol> {
    let mut src = Fixed { items: items.to_vec(), pos: 0 };
    let o = run_script(cfg, &mut src, false, Duration::from_secs(60));
    o.viols.into_iter().find(|v| v.sig == sig)
}

/// delta debugging on the item list (checkpoint labels keep their meaning; a rollback whose checkpoint
/// was removed is skipped by the runner)
fn shrink(cfg: &Cfg, items: Vec<Item>, sig: &str, max_runs: usize, max_wall: Duration) -> (Vec<Item>, Option<Viol>) {
    let t0 = Instant::now();
    let mut cur = items;
    let mut best: Option<Viol> = None;
    let mut n = 2usize;
    let mut runs = 0usize;
    while cur.len() >= 2 && runs < max_runs && t0.elapsed() < max_wall {
        let chunk = (cur.len() + n - 1) / n;
        let mut reduced = false;
        let mut start = 0;
        while start < cur.len() {
            let end = (start + chunk).min(cur.len());
            let cand: Vec<Item> = cur[..start].iter().chain(cur[end..].iter()).cloned().collect();
            runs += 1;
            if let Some(v) = reproduces(cfg, &cand, sig) {
                cur = cand;
                cur.truncate(v.at + 1);
                best = Some(v);
                n = n.saturating_sub(1).max(2);
                reduced = true;
                break;
            }
            if runs >= max_runs || t0.elapsed() >= max_wall {
                break;
            }
            start = end;
        }
        if !reduced {
            if n >= cur.len() {
                break;
            }
            n = (n * 2).min(cur.len());
        }
    }
    (cur, best)
}

fn script_text(items: &[Item]) -> String {
    items.iter().map(|i| i.text().chars().take(240).collect::<String>()).collect::<Vec<_>>().join("\n  ")
}

fn cfg_text(cfg: &Cfg) -> String {
    format!(
        "router: {} + init_blob() + init_checkpoint_with_config(max_checkpoints={}, auto_checkpoint={}){}; {}",
        match (cfg.max_tables, cfg.bloom) {
            (Some(mt), b) => format!(
                "QueryRouter::with_engines(RelationalEngine::with_store_and_config(store, RelationalConfig::default().with_max_tables({}).with_max_indexes_per_table({})), GraphEngine::with_store(store), VectorEngine::with_store(store)) over {}",
                mt,
                cfg.max_indexes.unwrap_or(0),
                if b { "TensorStore::with_bloom_filter(10_000, 0.01)" } else { "TensorStore::new()" }
            ),
            (None, true) => "QueryRouter::with_shared_store(TensorStore::with_bloom_filter(10_000, 0.01))".to_string(),
            (None, false) => "QueryRouter::new()".to_string(),
        },
        cfg.max_cp,
        cfg.auto_cp,
        if cfg.qcache { " + init_cache()" } else { "" },
        match cfg.async_mode {
            0 => "all statements through execute_parsed",
            1 => "CHECKPOINT / ROLLBACK TO / CHECKPOINTS through execute_parsed_async (current-thread tokio runtime), everything else through execute_parsed",
            2 => "all statements through execute_parsed_async (current-thread tokio runtime)",
            3 => "CHECKPOINT / ROLLBACK TO / CHECKPOINTS through neumann_parser::parse + execute_statement, everything else through execute_parsed",
            4 => "CHECKPOINT / ROLLBACK TO / CHECKPOINTS through neumann_parser::parse + execute_statement_async (current-thread tokio runtime), everything else through execute_parsed",
            _ => "all statements through neumann_parser::parse + execute_statement",
        }
    )
}

/// signatures whose witness has already been minimised in this process (one shrink per signature, at
/// most 14 per process so that a badly broken tree does not spend the whole budget on shrinking)
static SHRUNK: std::sync::Mutex<BTreeSet<String>> = std::sync::Mutex::new(BTreeSet::new());
/// one witness per signature (signature -> (occurrences, minimised?, detail, replay)). `Report` keeps at
/// most 40 violations over all signatures, so the workers collect here and `main` reports each
/// signature exactly once (the minimised witness when there is one).
static WITNESS: std::sync::Mutex<BTreeMap<String, (u64, bool, String, Value)>> = std::sync::Mutex::new(BTreeMap::new());

fn report_outcome(part: &str, case_seed: u64, cfg: &Cfg, o: Outcome, report: &mut Report, do_shrink: bool) {
    if let Some(e) = o.setup_error {
        report.inconclusive(&format!("router set-up failed: {}", first_line(&e)));
        return;
    }
    for (k, v) in &o.counters {
        report.count(k, *v);
    }
    for _ in 0..o.counters.get("inconclusive_engine_timeouts").copied().unwrap_or(0) {
        report.inconclusive("an engine query deadline expired (loaded machine); that answer was not judged");
    }
    let texts: Vec<String> = o.log.iter().map(|i| i.text()).collect();
    let h = hash_str(&texts.join("\n"));
    report.eval(h, o.nontrivial);
    report.count(&format!("cases[{}]", part), 1);
    if cfg.auto_cp {
        report.count("cases_with_auto_checkpoints", 1);
    }
    if cfg.qcache {
        report.count("cases_with_query_cache", 1);
    }
    if cfg.hnsw {
        report.count("cases_with_hnsw_cache", 1);
    }
    if cfg.btree {
        report.count("cases_with_btree_index", 1);
    }
    if cfg.async_mode > 0 {
        report.count(&format!("cases_with_entry_mode[{}]", cfg.async_mode), 1);
    }
    if cfg.bloom {
        report.count("cases_with_bloom_filter_store", 1);
    }
    if cfg.near_names {
        report.count("cases_with_near_duplicate_names", 1);
    }
    if cfg.max_tables.is_some() {
        report.count("cases_with_capacity_limits", 1);
    }
    if cfg.dim == 384 {
        report.count("cases_with_384_dim_vectors", 1);
    }
    if o.viols.is_empty() {
        if report.want_sample() && o.nontrivial && o.log.len() < 60 {
            let short_texts: Vec<String> = texts.iter().map(|t| t.chars().take(120).collect()).collect();
            report.sample(json!({"part": part, "case_seed": case_seed, "config": cfg_text(cfg), "script": short_texts, "outcome": "every rollback reproduced its recorded observation vector"}));
        }
        return;
    }
    let mut done: BTreeSet<String> = BTreeSet::new();
    for v in &o.viols {
        if !done.insert(v.sig.clone()) {
            continue;
        }
        let mut items: Vec<Item> = o.log[..(v.at + 1).min(o.log.len())].to_vec();
        let mut viol = v.clone();
        let first = do_shrink && !cfg.strict_retention && SHRUNK.lock().map(|mut g| g.len() < 14 && g.insert(v.sig.clone())).unwrap_or(false);
        if first {
            let (small, best) = shrink(cfg, items.clone(), &v.sig, 60, Duration::from_secs(15));
            if let Some(b) = best {
                items = small;
                viol = b;
                report.count("witnesses_shrunk", 1);
            }
        }
        let shown = if items.len() > 70 { format!("(… {} earlier items, see replay …)\n  {}", items.len() - 70, script_text(&items[items.len() - 70..])) } else { script_text(&items) };
        let detail = format!("{}\n{}\nscript ({} items):\n  {}", viol.detail, cfg_text(cfg), items.len(), shown);
        let replay = json!({"part": part, "case_seed": case_seed, "cfg": cfg, "script": items});
        if let Ok(mut g) = WITNESS.lock() {
            let e = g.entry(viol.sig.clone()).or_insert((0, false, String::new(), Value::Null));
            e.0 += 1;
            if e.2.is_empty() || (first && !e.1) {
                e.1 = first;
                e.2 = detail;
                e.3 = replay;
            }
        }
        report.count("violating_observations", 1);
    }
}

fn cycle_case(case_seed: u64, report: &mut Report, trace: bool) {
    let mut rng = Rng::new(case_seed);
    let cfg = cycle_cfg(&mut rng);
    let segs = cycle_plan(&mut rng, &cfg);
    let mut g = Gen::new(rng.fork(1), &cfg, segs);
    let o = run_script(&cfg, &mut g, trace, Duration::from_secs(120));
    report_outcome("cycle", case_seed, &cfg, o, report, !trace);
}

fn retention_case(case_seed: u64, report: &mut Report, trace: bool) {
    let mut rng = Rng::new(case_seed);
    let cfg = retention_cfg(&mut rng);
    let segs = retention_plan(&mut rng, &cfg);
    let mut g = Gen::new(rng.fork(2), &cfg, segs);
    let o = run_script(&cfg, &mut g, trace, Duration::from_secs(180));
    if let Some(n) = o.counters.get("checkpoints_created") {
        report.count("retention_creations", *n);
    }
    report_outcome("retention", case_seed, &cfg, o, report, false);
}

fn recycle_case(case_seed: u64, report: &mut Report, trace: bool, deep: bool) {
    let mut rng = Rng::new(case_seed ^ 0x5EC7C1E);
    let mut cfg = retention_cfg(&mut rng);
    cfg.near_names = false;
    // (a small list is turned over more often per creation, and creations cost 1.1 s each)
    cfg.max_cp = [1, 1, 1, 2, 2, 3][rng.below(6)];
    let segs = recycle_plan(&mut rng, &cfg, deep);
    let mut g = Gen::new(rng.fork(3), &cfg, segs);
    g.recycle_names = recycle_names(&mut rng, &cfg);
    let o = run_script(&cfg, &mut g, trace, Duration::from_secs(240));
    for (k, to) in [("checkpoints_created", "recycle_creations"), ("rollbacks_done", "recycle_rollbacks"), ("retention_list_checks_passed", "recycle_list_checks_passed"), ("rollbacks_after_a_purge", "recycle_rollbacks_after_a_purge")] {
        if let Some(n) = o.counters.get(k) {
            report.count(to, *n);
        }
    }
    if o.counters.get("rollbacks_by_text_that_earlier_restored_a_since_purged_checkpoint").copied().unwrap_or(0) > 0 {
        report.count("recycle_cases_reusing_a_rollback_text_after_its_checkpoint_was_purged", 1);
        report.count(&format!("recycle_cases_reusing_a_rollback_text_after_its_checkpoint_was_purged[max_checkpoints={}]", cfg.max_cp), 1);
    }
    report.count(&format!("cases[recycle][max_checkpoints={}]", cfg.max_cp), 1);
    report_outcome("recycle", case_seed, &cfg, o, report, false);
}

fn refill_case(case_seed: u64, report: &mut Report, trace: bool) {
    let mut rng = Rng::new(case_seed ^ 0x2EF111);
    let mut cfg = retention_cfg(&mut rng);
    cfg.near_names = false;
    // a rollback target needs two newer retained checkpoints; CP_TOTAL_CAP allows 2 x 4 creations
    cfg.max_cp = [3, 3, 4][rng.below(3)];
    let segs = refill_plan(&mut rng, &cfg);
    let mut g = Gen::new(rng.fork(4), &cfg, segs);
    g.recycle_names = recycle_names(&mut rng, &cfg);
    let o = run_script(&cfg, &mut g, trace, Duration::from_secs(240));
    for (k, to) in [("checkpoints_created", "refill_creations"), ("rollbacks_done", "refill_rollbacks"), ("retention_list_checks_passed", "refill_list_checks_passed")] {
        if let Some(n) = o.counters.get(k) {
            report.count(to, *n);
        }
    }
    report.count(&format!("cases[refill][max_checkpoints={}]", cfg.max_cp), 1);
    report_outcome("refill", case_seed, &cfg, o, report, false);
}

/// non-vacuity of the refill part (`mult` = 3 when the part runs alone with three times the cases)
fn refill_floors(args: &Args, mult: u64) -> Vec<(&'static str, u64)> {
    vec![
        ("cases[refill]", mult * args.by_tier(5, 40)),
        ("rollbacks_past_two_or_more_retained_checkpoints", mult * args.by_tier(5, 40)),
        ("retention_creations_judged_after_a_deep_rollback", mult * args.by_tier(15, 120)),
        ("retention_turnovers_after_a_deep_rollback", mult * args.by_tier(4, 30)),
    ]
}

/// non-vacuity of the recycle part (`mult` = 3 when the part runs alone with three times the cases)
fn recycle_floors(args: &Args, mult: u64) -> Vec<(&'static str, u64)> {
    vec![
        ("cases[recycle]", mult * args.by_tier(10, 90)),
        ("recycle_creations", mult * args.by_tier(25, 250)),
        ("retention_purging_creations_after_a_rollback", mult * args.by_tier(8, 80)),
        ("recycle_rollbacks_after_a_purge", mult * args.by_tier(15, 150)),
        ("recycle_cases_reusing_a_rollback_text_after_its_checkpoint_was_purged", mult * args.by_tier(2, 25)),
    ]
}

fn main() {
    let args = Args::parse();
    let started = Instant::now();
    quiet_panics();
    let mut total = Report::new();
    total.max_samples = 4;

    if let Some(p) = &args.replay {
        let v: Value = serde_json::from_str(&std::fs::read_to_string(p).expect("replay file")).expect("json");
        let rp = &v["replay"];
        let part = rp["part"].as_str().unwrap_or("cycle").to_string();
        let seed = rp["case_seed"].as_u64().unwrap_or(0);
        let script: Option<Vec<Item>> = serde_json::from_value(rp["script"].clone()).ok();
        let cfg: Option<Cfg> = serde_json::from_value(rp["cfg"].clone()).ok();
        match (script, cfg) {
            (Some(items), Some(cfg)) if !items.is_empty() && args.extra.get("whole-case").is_none() => {
                eprintln!("replaying the recorded script ({} items); {}", items.len(), cfg_text(&cfg));
                let mut src = Fixed { items, pos: 0 };
                let o = run_script(&cfg, &mut src, true, Duration::from_secs(600));
                report_outcome(&part, seed, &cfg, o, &mut total, false);
            }
            _ => {
                eprintln!("replaying whole case part={} case_seed={}", part, seed);
                if part == "retention" {
                    retention_case(seed, &mut total, true)
                } else if part == "recycle" {
                    recycle_case(seed, &mut total, true, !args.quick())
                } else if part == "refill" {
                    refill_case(seed, &mut total, true)
                } else {
                    cycle_case(seed, &mut total, true)
                }
            }
        }
    } else {
        let n_cycle = args.by_tier(260u64, 6_000u64);
        let n_ret = args.by_tier(13u64, 100u64);
        let stride = n_cycle / n_ret;
        let n_total = n_cycle + n_ret;
        let deep = !args.quick();
        let only = args.extra.get("part").cloned();
        let rep = if only.as_deref() == Some("recycle") {
            // (development aid: `--part recycle` runs the recycle part alone)
            par_cases(args.threads, args.seed, args.by_tier(48u64, 400u64), args.budget(75, 900), |_, s, r| recycle_case(s, r, false, deep))
        } else if only.as_deref() == Some("refill") {
            // (development aid: `--part refill` runs the refill part alone)
            par_cases(args.threads, args.seed, args.by_tier(24u64, 180u64), args.budget(75, 900), |_, s, r| refill_case(s, r, false))
        } else {
            // recycle cases (which mostly sleep, too) are spread evenly among the cases of the two older
            // parts, which keep the case seeds they had before this part existed
            let n_rec = args.by_tier(16u64, 130u64);
            let gap = (n_total + n_rec) / n_rec;
            let n_old = n_total + n_rec;
            // refill cases (8-9 s of sleeping each) are spread evenly among all of those, which keep the
            // positions relative to each other, and the case seeds, they had before this part existed
            let n_ref = args.by_tier(8u64, 60u64);
            let gap_ref = (n_old + n_ref) / n_ref;
            let mut slots: Vec<Option<u64>> = Vec::with_capacity((n_old + n_ref) as usize);
            let (mut olds, mut refs) = (0u64, 0u64);
            while olds < n_old || refs < n_ref {
                let at = slots.len() as u64;
                if refs < n_ref && (olds == n_old || at % gap_ref == gap_ref / 4) {
                    slots.push(None);
                    refs += 1;
                } else {
                    slots.push(Some(olds));
                    olds += 1;
                }
            }
            par_cases(args.threads, args.seed, n_old + n_ref, args.budget(90, 1020), |i, s, r| {
                let Some(i) = slots[i as usize] else {
                    return refill_case(s, r, false);
                };
                let s = case_seed(args.seed, i);
                let (q, at) = (i / gap, i % gap);
                if q < n_rec && at == gap / 3 {
                    return recycle_case(s, r, false, deep);
                }
                let j = i - q.min(n_rec) - u64::from(q < n_rec && at > gap / 3);
                let s = case_seed(args.seed, j);
                // retention cases (which mostly sleep) are spread evenly among the others
                if j % (stride + 1) == stride / 2 {
                    retention_case(s, r, false)
                } else {
                    cycle_case(s, r, false)
                }
            })
        };
        total.merge(rep);
    }
    if let Ok(g) = WITNESS.lock() {
        for (sig, (n, _, detail, replay)) in g.iter() {
            total.violation(sig.clone(), format!("[{} cases of this run show this signature] {}", n, detail), replay.clone());
            total.count(&format!("cases_with[{}]", sig), *n);
        }
    }

    let meta = Meta {
        property: "C08",
        rule: "one evaluation = one program run on a fresh QueryRouter (blob + checkpoint manager initialised): <=40 random relational/graph/vector statements per phase, 1-4 manual checkpoints (named or unnamed; plus automatic ones before destructive statements in a quarter of the cases), 1-6 rollbacks to any still-listed checkpoint by id or by name (newest, older, or the same one again), must-work write batteries, further phases and cycles. At every CHECKPOINT the observation vector (about 370 read statements through execute_parsed: SHOW TABLES, DESCRIBE, per-table scan / int equality / text equality / int, text and float range / COUNT(*) selects over 4 tables with and without hash index, NODE GET + NEIGHBORS x3 + EDGE GET for ids 1..48, NODE/EDGE LIST, FIND NODE/EDGE, CONSTRAINT LIST, GRAPH INDEX SHOW, EMBED GET per key, SIMILAR by vector in 3 metrics and by key, COUNT/SHOW EMBEDDINGS; plus 4 SIMILAR statements through the legacy execute path) is recorded and must be answered identically right after ROLLBACK TO that checkpoint; after a rollback INSERT/UPDATE (equality, range and text conditions)/DELETE/CREATE TABLE/CREATE INDEX/NODE CREATE/EDGE CREATE/EMBED STORE must succeed, be visible and leave all other rows/nodes/edges untouched; CHECKPOINTS must list the same set before and after a rollback, every created checkpoint is listed and every listed one can be restored. Retention part: max N in 1..3, N+1..N+2 checkpoints created >= 1.1 s apart - manual CHECKPOINT statements and, in three fifths of the cases, automatic checkpoints taken by the router before a destructive statement (NODE DELETE / EMBED DELETE with auto_checkpoint on), at least one of them when the list is already full - the listed set must be exactly the newest min(i,N) after every creating step of either kind, then every retained checkpoint (automatic ones against the observation vector recorded right before their statement) is rolled back to (newest first) and compared. In half of all cases checkpoint names come from a pool of near-duplicates (same letters in another ASCII case, leading/trailing blanks, the first 8 characters of another checkpoint's id) and three quarters of the rollbacks there go by name; a name that is listed exactly once must restore exactly that checkpoint. Recycle part (repeated checkpoint/rollback cycles under retention): max N in 1..3, N+1..N+3 (thorough: ..N+5) creations >= 1.1 s apart - manual ones whose names are drawn with repetition from a pool of N or N+1 names (mostly a name whose earlier bearer retention has purged), automatic ones whose names repeat by construction - and between the creations rollbacks to any retained checkpoint (three quarters by name when the name is listed exactly once), sweeps over every retained checkpoint, write batteries, and in an eighth of the gaps CheckpointManager::delete of a retained checkpoint; the same oracles apply after every step (listed set = newest min(i,N) after each creation; every listed checkpoint restorable to its own recorded observation vector also when the same ROLLBACK TO text restored another, since purged, checkpoint earlier in the program; list unchanged by a rollback); a database that answers exactly as recorded for a checkpoint that is no longer listed has its own signature. Refill part (retention after going far back): max N in 3..4, N..N+1 creations >= 1.1 s apart fill the list, ROLLBACK TO the oldest retained checkpoint (a quarter of the time the second oldest of four; always one with two or more newer checkpoints still retained), then N..N+1 further creations - in two fifths of the gaps another rollback, to any retained checkpoint or to the oldest again - so that every checkpoint that existed at the time of that rollback has to be purged, one per creation; after every creation the listed set must be the newest min(i,N) in the order the statements were executed (a checkpoint created after a rollback is newer than every checkpoint created before it), finally every retained checkpoint is rolled back to and compared. Distinct by the hash of the executed item texts; non-trivial if at least one rollback was compared whose checkpoint was followed by a successful write.",
        assumptions: vec![
            "set-valued answers (rows, node/edge lists, neighbour ids, key lists) are compared as sets; SIMILAR answers on bit-exact scores and on keys except inside a score tie cut by LIMIT".into(),
            "checkpoint creation stamps have 1 s granularity: the retention oracle only judges creations >= 1.1 s apart; in all other programs max_checkpoints = 100 so retention never acts".into(),
            "an automatic checkpoint holds the database as it was right before its destructive statement; whether one is taken at all is not judged (best effort in the code, skipped inside a tokio runtime), only what is listed afterwards".into(),
            "a quarter of the cycle cases run with RelationalConfig max_tables 3..6 and max_indexes_per_table 2..3; there the battery creates as many new tables as the limit leaves room for given what SHOW TABLES lists (each must succeed) and drops them again; statements of the random phases refused by a limit are not judged; max_btree_entries is left at its default because the harness keeps no model of distinct index keys".into(),
            "ROLLBACK TO by name is only issued when exactly one listed checkpoint carries exactly that name and no listed id equals it; otherwise the id is used".into(),
            "ROLLBACK TO is not a retention event: the set listed by CHECKPOINTS may not change across it".into(),
            "recycle part: a name carried by several checkpoints over time stands, at any moment, for the one listed checkpoint that carries it (by-name rollbacks are only issued then); what a name shared by two listed checkpoints resolves to is not judged. CheckpointManager::delete is a set-up call: its own effect is not judged, the harness continues from what CHECKPOINTS lists afterwards, and retention is then judged on that list".into(),
            "refill part: 'newest' is the order in which the creating statements were executed by this one client, >= 1.1 s apart; a ROLLBACK TO between two creations does not change which of them is newer. At most 8 creations per program, hence N <= 4 there".into(),
            "legacy-path SIMILAR answers recorded while a VectorEngine HNSW cache built by the harness was live are approximate and are not compared; a correct rollback is expected to invalidate that cache like every write path of VectorEngine does".into(),
            "an index built with QueryRouter::build_vector_index() is never built: it is a manual snapshot no write refreshes and its scores differ from the exact search in the last bit".into(),
            "with the router's query cache on, only relational statements are issued (graph/vector writes never invalidate that cache, which is outside this property)".into(),
            "five eighths of the programs use another entry point than execute_parsed (execute_parsed_async, parse + execute_statement, parse + execute_statement_async) for the checkpoint statements or for all statements, and a quarter run on a store with a Bloom filter; the oracle is the same".into(),
            "set-up calls that are not statements: VectorEngine::build_and_cache_index and RelationalEngine::create_btree_index (the router has no statement for either)".into(),
            "programs are capped at 9 checkpoints in total because every checkpoint image embeds all earlier images (size doubles per checkpoint)".into(),
            "answers that are engine query-deadline errors are counted inconclusive, never compared".into(),
        ],
        floors: if args.replay.is_some() {
            vec![]
        } else if args.extra.get("part").map(|p| p.as_str()) == Some("recycle") {
            recycle_floors(&args, 3)
        } else if args.extra.get("part").map(|p| p.as_str()) == Some("refill") {
            refill_floors(&args, 3)
        } else {
            let mut f = recycle_floors(&args, 1);
            f.extend(refill_floors(&args, 1));
            f.extend(vec![
                ("distinct_nontrivial", args.by_tier(40, 800)),
                ("rollbacks_done", args.by_tier(80, 1600)),
                ("observation_answers_compared", args.by_tier(20_000, 400_000)),
                ("battery_writes_checked", args.by_tier(200, 4_000)),
                ("retention_creations", args.by_tier(6, 60)),
                ("rollbacks_through_async_entry", args.by_tier(30, 600)),
                ("rollbacks_through_statement_entry", args.by_tier(30, 600)),
                ("cases_with_bloom_filter_store", args.by_tier(15, 300)),
                ("retention_auto_checkpoints_at_the_limit", args.by_tier(3, 30)),
                ("auto_checkpoints_recorded", args.by_tier(15, 300)),
                ("rollbacks_to_auto_checkpoint", args.by_tier(5, 100)),
                ("checkpoints_with_near_duplicate_name", args.by_tier(30, 600)),
                ("rollbacks_by_near_duplicate_name", args.by_tier(15, 300)),
                ("battery_runs_under_a_table_limit", args.by_tier(30, 600)),
                ("battery_tables_created_under_a_table_limit", args.by_tier(40, 800)),
                ("write_statements_ok", args.by_tier(1_000, 20_000)),
            ]);
            f
        },
        exhaustive: false,
    };
    write_result(&args, &meta, &total, started);
}
