use query_router::{QueryResult, QueryRouter};
use tensor_checkpoint::CheckpointConfig;

fn run(r: &QueryRouter, s: &str) -> String {
    let t = std::time::Instant::now();
    let out = match r.execute_parsed(s) {
        Ok(QueryResult::Rows(rows)) => {
            let mut v: Vec<String> = rows.iter().map(|r| format!("{}:{:?}", r.id, r.values)).collect();
            v.sort();
            format!("Rows{:?}", v)
        }
        Ok(x) => format!("{:?}", x),
        Err(e) => format!("ERR {}", e),
    };
    println!("{:>8.1}ms  {}  =>  {}", t.elapsed().as_secs_f64() * 1e3, s, out.chars().take(400).collect::<String>());
    out
}

fn main() {
    let mut r = QueryRouter::new();
    r.init_blob().unwrap();
    r.init_checkpoint_with_config(CheckpointConfig::default().with_auto_checkpoint(false)).unwrap();
    for s in [
        "CREATE TABLE t (a INT, b TEXT)",
        "CREATE INDEX ia ON t (a)",
        "CREATE TABLE u (a INT, b TEXT)",
        "INSERT INTO t (a, b) VALUES (1, 'x')",
        "INSERT INTO t (a, b) VALUES (2, 'y')",
        "INSERT INTO u (a, b) VALUES (1, 'x')",
        "NODE CREATE person {name: 'a'}",
        "NODE CREATE person {name: 'b'}",
        "EDGE CREATE 1 -> 2 : knows {w: 1}",
        "EMBED STORE 'k1' [1.0, 0.0, 0.0]",
        "EMBED STORE 'k2' [0.0, 1.0, 0.0]",
        "CHECKPOINT 'c1'",
        "CHECKPOINTS",
        "SELECT * FROM t",
        "SELECT * FROM t WHERE a = 2",
        "NODE GET 1",
        "NODE LIST",
        "NODE LIST person",
        "EDGE LIST",
        "FIND NODE person",
        "NEIGHBORS 1 OUTGOING",
        "EMBED GET 'k1'",
        "SIMILAR [1.0, 0.1, 0.0] LIMIT 3",
        "SHOW TABLES",
        "COUNT EMBEDDINGS",
        "SHOW EMBEDDINGS",
        // after
        "INSERT INTO t (a, b) VALUES (3, 'z')",
        "DELETE FROM t WHERE a = 1",
        "UPDATE t SET b = 'q' WHERE a = 2",
        "DROP TABLE u",
        "CREATE TABLE w (a INT)",
        "NODE CREATE person {name: 'c'}",
        "EDGE CREATE 1 -> 3 : knows {w: 2}",
        "NODE DELETE 2",
        "EMBED STORE 'k3' [0.9, 0.1, 0.0]",
        "EMBED DELETE 'k1'",
        "CHECKPOINT 'c2'",
        "CHECKPOINTS",
        "ROLLBACK TO 'c1'",
        "CHECKPOINTS",
        "SELECT * FROM t",
        "SELECT * FROM t WHERE a = 2",
        "SELECT * FROM t WHERE a = 1",
        "SELECT * FROM t WHERE a = 3",
        "SELECT * FROM u",
        "SELECT * FROM w",
        "SHOW TABLES",
        "NODE GET 1",
        "NODE GET 2",
        "NODE GET 3",
        "NODE LIST",
        "NODE LIST person",
        "EDGE LIST",
        "FIND NODE person",
        "NEIGHBORS 1 OUTGOING",
        "EMBED GET 'k1'",
        "EMBED GET 'k3'",
        "SIMILAR [1.0, 0.1, 0.0] LIMIT 3",
        "COUNT EMBEDDINGS",
        "INSERT INTO t (a, b) VALUES (4, 'n')",
        "SELECT * FROM t",
        "SELECT * FROM t WHERE a = 4",
        "NODE CREATE person {name: 'd'}",
        "EDGE CREATE 1 -> 2 : likes {w: 3}",
        "NEIGHBORS 1 OUTGOING",
        "EMBED STORE 'k9' [0.5, 0.5, 0.0]",
        "CHECKPOINT 'c3'",
        "CHECKPOINTS",
        "ROLLBACK TO 'c2'",
        "ROLLBACK TO 'c1'",
    ] {
        run(&r, s);
    }
}
